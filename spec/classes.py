"""Reference character classes, written from the Unicode Bengali block chart as numeric code points
(never as typed literals: ড় ঢ় য় have decomposed spellings that would smuggle U+09BC into a class).
These are the *reference* side of the checks; the code under test has its own literals in
src/utility.rs / src/fixed/chars.rs and is never consulted here."""

HASANTA = 0x09CD
CHANDRA = 0x0981
ZWNJ = 0x200C
ZWJ = 0x200D
B_R = 0x09B0
B_Z = 0x09AF       # য (zo-fola = hasanta + য)
AU_LENGTH_MARK = 0x09D7
KHANDA_TA = 0x09CE
ANUSVARA = 0x0982
B_T = 0x09A4
B_NGA = 0x0999
B_YYA = 0x09DF     # য়

# consonants (letters that can carry a vowel sign / take part in a conjunct)
CONSONANTS = (list(range(0x0995, 0x09A9)) + list(range(0x09AA, 0x09B1)) + [0x09B2] + list(range(0x09B6, 0x09BA))
              + [0x09CE, 0x09DC, 0x09DD, 0x09DF])

# independent vowels
VOWELS = list(range(0x0985, 0x098C)) + [0x098C, 0x098F, 0x0990, 0x0993, 0x0994, 0x09E1]

# dependent vowel signs ("kar"); 0x09C4 is listed separately as rare
KARS = [0x09BE, 0x09BF, 0x09C0, 0x09C1, 0x09C2, 0x09C3, 0x09C7, 0x09C8, 0x09CB, 0x09CC]

# Rare Sanskrit letters/signs on which the property texts are silent (the references assert nothing
# about a text or key value containing one of them; behaviour is recorded, not judged).
RARE = [0x09C4, 0x09E0, 0x09E2, 0x09E3, 0x098C, 0x09E1]

# sign -> matching independent vowel
KAR_TO_VOWEL = {0x09BE: 0x0986, 0x09BF: 0x0987, 0x09C0: 0x0988, 0x09C1: 0x0989, 0x09C2: 0x098A, 0x09C3: 0x098B,
                0x09C7: 0x098F, 0x09C8: 0x0990, 0x09CB: 0x0993, 0x09CC: 0x0994}

# left-standing signs and two-part signs (typewriter order, C14)
LEFT_KARS = [0x09BF, 0x09C7, 0x09C8]
E_KAR, AA_KAR, O_KAR, OU_KAR = 0x09C7, 0x09BE, 0x09CB, 0x09CC

# signs that form a ligature with the consonant (traditional joining blocks it with ZWNJ)
LIGATURE_KARS = [0x09C1, 0x09C2, 0x09C3]

# "after punctuation" for automatic vowel forming: the ASCII marks on which the reference speaks
# (the code's own list additionally lacks & ' and the danda: the reference is silent on those three).
PUNCT_ASSERTED = [ord(c) for c in "`~!@#$%^+*-_=\\|\"/;:,.?><()[]{}"]
PUNCT_SILENT = [ord("&"), ord("'"), 0x0964]

# phonetic splitting: the property's punctuation set and the extra characters the reference is silent on
META27 = [ord(c) for c in "-]~!@#%&*()_=+[{}'\";<>/?|.,"]
DANDA = 0x0964


def in_set(c, values):
    """z3/Python membership test for a code point value."""
    import z3
    if isinstance(c, int):
        return c in values
    vs = sorted(set(values))
    # compress into ranges
    terms = []
    i = 0
    while i < len(vs):
        j = i
        while j + 1 < len(vs) and vs[j + 1] == vs[j] + 1:
            j += 1
        if i == j:
            terms.append(c == vs[i])
        else:
            terms.append(z3.And(z3.UGE(c, vs[i]), z3.ULE(c, vs[j])))
        i = j + 1
    return z3.Or(terms) if terms else z3.BoolVal(False)
