#!/bin/bash
# MANIFEST.setup_cmd: build the framework from files on disk only (offline).
set -e
HERE="$(cd "$(dirname "${BASH_SOURCE[0]}")" && pwd)"
export CARGO_NET_OFFLINE=true
mkdir -p "$HERE/.build"
# native replay driver (links /repo by path)
RUSTFLAGS="--cfg riti_verif" CARGO_TARGET_DIR="$HERE/.build/replay" cargo build --release --offline --manifest-path "$HERE/replay/Cargo.toml"
# warm the Kani target dir (compiles the dependency graph once); harmless if it fails here,
# every check rebuilds what it needs and reports a failing build as inconclusive
python3-vt "$HERE/lib/warm.py" || true
