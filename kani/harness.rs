// Kani proof harnesses for OpenBangla/riti (engine K of /verif/DESIGN.md).
//
// This file is compiled *inside* the riti crate (cfg(kani) hook at the end of
// /repo/src/lib.rs) so that it reaches pub(crate) items. It is staged into
// /verif/.build/kani_src together with files generated at check time from
// /repo/include/riti.h and /verif/spec (gen_keys.rs, gen_domain.rs).
//
// Every harness carries a kani::cover!() reachability witness; the runner treats an
// unreachable cover, an unwinding-assertion failure, a time-out or an ERROR status as
// inconclusive, never as a pass.


use crate::config::Config;
use crate::keycodes::keycode_to_char;
use crate::suggestion::{Rank, Suggestion};
use crate::utility::get_modifiers;
use std::cmp::Ordering;

include!(concat!(env!("RITI_VERIF_KANI"), "/gen_keys.rs"));
include!(concat!(env!("RITI_VERIF_KANI"), "/gen_domain.rs"));

// ---------------------------------------------------------------- stubs

/// Stub for config::get_user_data_dir (reads the process environment).
fn stub_user_data_dir() -> std::path::PathBuf {
    std::path::PathBuf::new()
}

/// Stub for poriborton::bijoy2000::unicode_to_bijoy: an injective tagging function
/// (prefix '#'), so that "read-out == bijoy(candidate)" is checkable without executing
/// the phf/siphash internals of the encoder.
fn stub_bijoy(s: &str) -> String {
    let mut out = String::from("#");
    out.push_str(s);
    out
}

// ---------------------------------------------------------------- C01 / C03: key table

/// C01: the key table is total on all 2^16 key codes (no panic arm), and whatever character it
/// yields is printable ASCII (the byte slicing in the phonetic engine relies on it).
#[kani::proof]
fn k_keycode_total() {
    let k: u16 = kani::any();
    let c = keycode_to_char(k);
    kani::cover!(c.is_some(), "a key with a character is reachable");
    kani::cover!(c.is_none(), "a key without a character is reachable");
    if let Some(c) = c {
        assert!((c as u32) >= 0x20 && (c as u32) < 0x7f, "key character is printable ASCII");
    }
}

/// C03: the key -> character table equals the table transcribed from the key *names*.
#[kani::proof]
fn k_keycode_table() {
    let k: u16 = kani::any();
    kani::assume(is_published_key(k));
    let want = spec_key_char(k);
    kani::assume(want != '\0'); // keys whose name denotes no character are C01's business
    let c = keycode_to_char(k);
    kani::cover!(true, "reached");
    assert!(c == Some(want), "keycode_to_char agrees with the key-name table");
}

// ---------------------------------------------------------------- C04: modifier bits

#[kani::proof]
fn k_get_modifiers() {
    let m: u8 = kani::any();
    let (_shift, altgr) = get_modifiers(m);
    kani::cover!(altgr, "altgr reachable");
    // Only the AltGr bit is observable (it selects the layout plane); Shift is part of the key code.
    assert!(altgr == ((m & 2) != 0));
}

// ---------------------------------------------------------------- C16: English masked by ANSI

/// One setter call chosen by the solver: which of the 11 boolean options, and the value.
fn any_setter_call(c: &mut Config, e: &mut bool, a: &mut bool) {
    let which: u8 = kani::any();
    let v: bool = kani::any();
    kani::assume(which < 11);
    match which {
        0 => {
            c.set_suggestion_include_english(v);
            *e = v;
        }
        1 => {
            c.set_ansi_encoding(v);
            *a = v;
        }
        2 => c.set_phonetic_suggestion(v),
        3 => c.set_fixed_suggestion(v),
        4 => c.set_fixed_automatic_vowel(v),
        5 => c.set_fixed_automatic_chandra(v),
        6 => c.set_fixed_traditional_kar(v),
        7 => c.set_fixed_old_reph(v),
        8 => c.set_fixed_numpad(v),
        9 => c.set_fixed_old_kar_order(v),
        _ => c.set_smart_quote(v),
    }
}

/// C16: whatever order the front end calls the option setters in (4 calls chosen by the solver after the two options have been set
/// once), the English candidate is reported enabled exactly when it was last switched on and ANSI was last switched off.
#[kani::proof]
#[kani::stub(crate::config::get_user_data_dir, stub_user_data_dir)]
fn k_english_mask() {
    let mut c = Config::default();
    let mut e: bool = kani::any();
    let mut a: bool = kani::any();
    let first_english: bool = kani::any();
    if first_english {
        c.set_suggestion_include_english(e);
        c.set_ansi_encoding(a);
    } else {
        c.set_ansi_encoding(a);
        c.set_suggestion_include_english(e);
    }
    any_setter_call(&mut c, &mut e, &mut a);
    any_setter_call(&mut c, &mut e, &mut a);
    any_setter_call(&mut c, &mut e, &mut a);
    any_setter_call(&mut c, &mut e, &mut a);
    kani::cover!(e && a, "both on reachable");
    kani::cover!(e && !a && !first_english, "English on, ANSI off, ANSI set first");
    assert!(c.get_suggestion_include_english() == (e && !a));
    assert!(c.get_ansi_encoding() == a);
    std::mem::forget(c);
}

// ---------------------------------------------------------------- C07 / C15: comparator + real sort

fn any_rank(tag: u8) -> Rank {
    let kind: u8 = kani::any();
    let n: u8 = kani::any();
    let s = String::new();
    let _ = tag;
    match kind {
        0 => Rank::First(s),
        1 => {
            kani::assume(n >= 1 && n <= MAX_EMOJI_RANK);
            Rank::Emoji(s, n)
        }
        2 => {
            kani::assume(n % 10 == 0 && n <= MAX_DISTANCE);
            Rank::Other(s, n)
        }
        _ => {
            kani::assume(kind == 3);
            kani::assume(n >= 1 && n <= 3);
            Rank::Last(s, n)
        }
    }
}

fn class_of(r: &Rank) -> (u8, u8) {
    match r {
        Rank::First(_) => (0, 0),
        Rank::Emoji(_, n) => (1, *n),
        Rank::Other(_, n) => (2, *n),
        Rank::Last(_, n) => (3, *n),
    }
}

/// The ordering clauses of C07/C15 on a sorted slice (only what the property states).
fn order_clauses_hold(v: &[(u8, u8)], n: usize) -> bool {
    let mut ok = true;
    let mut i = 0;
    while i < n {
        let mut j = i + 1;
        while j < n {
            let (ci, ni) = v[i];
            let (cj, nj) = v[j];
            // First before everything that is not First
            if cj == 0 && ci != 0 {
                ok = false;
            }
            // Other non-decreasing
            if ci == 2 && cj == 2 && ni > nj {
                ok = false;
            }
            // Last(n) after every Other / Emoji, and Last ordered by number
            if ci == 3 && (cj == 1 || cj == 2) {
                ok = false;
            }
            if ci == 3 && cj == 3 && ni > nj {
                ok = false;
            }
            // an emoji never precedes a dictionary word at distance 0
            if ci == 1 && cj == 2 && nj == 0 {
                ok = false;
            }
            j += 1;
        }
        i += 1;
    }
    ok
}

/// Antisymmetry and Equal-consistency of the hand-written comparator, all u8 payloads.
#[kani::proof]
fn k_rank_cmp_antisym() {
    let a = {
        let kind: u8 = kani::any();
        let n: u8 = kani::any();
        kani::assume(kind < 4);
        match kind {
            0 => Rank::First(String::new()),
            1 => Rank::Emoji(String::new(), n),
            2 => Rank::Other(String::new(), n),
            _ => Rank::Last(String::new(), n),
        }
    };
    let b = {
        let kind: u8 = kani::any();
        let n: u8 = kani::any();
        kani::assume(kind < 4);
        match kind {
            0 => Rank::First(String::new()),
            1 => Rank::Emoji(String::new(), n),
            2 => Rank::Other(String::new(), n),
            _ => Rank::Last(String::new(), n),
        }
    };
    let ab = a.cmp(&b);
    let ba = b.cmp(&a);
    kani::cover!(ab == Ordering::Less, "less reachable");
    assert!(ab == ba.reverse(), "cmp is antisymmetric");
    assert!(a.partial_cmp(&b) == Some(ab), "partial_cmp agrees with cmp");
    // class order stated by the property
    let (ca, _) = class_of(&a);
    let (cb, _) = class_of(&b);
    if ca == 0 && cb != 0 {
        assert!(ab == Ordering::Less);
    }
    if ca == 3 && cb != 3 {
        assert!(ab == Ordering::Greater);
    }
    std::mem::forget(a);
    std::mem::forget(b);
}

/// The comparator looks at class and number only: two auto-correct items tie (the stable sort then keeps the typed word's own entry
/// in front of suffix-built ones); two emoji are never put against their table numbers, whatever their text (table order is kept by
/// a stable sort when they tie and by any sort when they compare by number).
#[kani::proof]
fn k_rank_cmp_ignores_text() {
    let n1: u8 = kani::any();
    let n2: u8 = kani::any();
    let a = Rank::First(String::from("b"));
    let b = Rank::First(String::from("a"));
    assert!(a.cmp(&b) == Ordering::Equal, "two First items tie whatever their text");
    let e1 = Rank::Emoji(String::from("b"), n1);
    let e2 = Rank::Emoji(String::from("a"), n2);
    let ce = e1.cmp(&e2);
    assert!(ce == Ordering::Equal || ce == n1.cmp(&n2), "two emoji tie or follow their table numbers, whatever their text");
    assert!(n1 != n2 || ce == Ordering::Equal, "two emoji with the same number tie");
    let o1 = Rank::Other(String::from("b"), n1);
    let o2 = Rank::Other(String::from("a"), n1);
    assert!(o1.cmp(&o2) == Ordering::Equal, "equal distances tie whatever the text");
    kani::cover!(n1 > n2, "reachable");
    std::mem::forget(a);
    std::mem::forget(b);
    std::mem::forget(e1);
    std::mem::forget(e2);
    std::mem::forget(o1);
    std::mem::forget(o2);
}

macro_rules! sort_harness {
    ($name:ident, $n:expr, $stable:expr) => {
        #[kani::proof]
        #[kani::unwind(12)]
        fn $name() {
            const N: usize = $n;
            let mut v: Vec<Rank> = Vec::with_capacity(N);
            let mut before = [(0u8, 0u8); N];
            let mut i = 0;
            while i < N {
                let r = any_rank(i as u8);
                before[i] = class_of(&r);
                v.push(r);
                i += 1;
            }
            if $stable {
                v.sort();
            } else {
                v.sort_unstable();
            }
            let mut after = [(0u8, 0u8); N];
            let mut i = 0;
            while i < N {
                after[i] = class_of(&v[i]);
                i += 1;
            }
            kani::cover!(before[0].0 == 3 && before[N - 1].0 == 0, "a Last before a First is reachable");
            assert!(order_clauses_hold(&after, N), "sorted list satisfies the ranking clauses");
            // permutation: every class/number pair occurs equally often before and after
            let mut i = 0;
            while i < N {
                let mut cb = 0;
                let mut ca = 0;
                let mut j = 0;
                while j < N {
                    if before[j] == before[i] {
                        cb += 1;
                    }
                    if after[j] == before[i] {
                        ca += 1;
                    }
                    j += 1;
                }
                assert!(ca == cb, "sort permutes");
                i += 1;
            }
            std::mem::forget(v);
        }
    };
}

sort_harness!(k_rank_sort_stable_4, 4, true);
sort_harness!(k_rank_sort_unstable_4, 4, false);
sort_harness!(k_rank_sort_stable_6, 6, true);
sort_harness!(k_rank_sort_unstable_6, 6, false);

/// Stability of the real `sort` for the clause "suffix-built words inherit the distance of
/// their base" / "transliteration after every dictionary word": equal keys keep their
/// relative insertion order. Identity is carried by the payload position (tag in the string).
#[kani::proof]
#[kani::unwind(12)]
fn k_rank_sort_stability() {
    const N: usize = 4;
    let mut v: Vec<Rank> = Vec::with_capacity(N);
    let tags = ["a", "b", "c", "d"];
    let mut ds = [0u8; N];
    let mut i = 0;
    while i < N {
        let d: u8 = kani::any();
        kani::assume(d % 10 == 0 && d <= MAX_DISTANCE);
        ds[i] = d;
        v.push(Rank::Other(String::from(tags[i]), d));
        i += 1;
    }
    v.sort();
    kani::cover!(ds[0] == ds[1] && ds[1] == ds[2], "ties reachable");
    let mut i = 0;
    while i + 1 < N {
        let (_, di) = class_of(&v[i]);
        let (_, dj) = class_of(&v[i + 1]);
        assert!(di <= dj);
        if di == dj {
            let ti = v[i].to_string().as_bytes()[0];
            let tj = v[i + 1].to_string().as_bytes()[0];
            assert!(ti < tj, "equal distances keep insertion order");
        }
        i += 1;
    }
    std::mem::forget(v);
}

// ---------------------------------------------------------------- C02 / C16: accessors and read-out

#[kani::proof]
#[kani::unwind(8)]
#[kani::stub(poriborton::bijoy2000::unicode_to_bijoy, stub_bijoy)]
fn k_suggestion_full_accessors() {
    let ansi: bool = kani::any();
    let sel: usize = kani::any();
    let ranks = [Rank::First(String::from("ab")), Rank::Last(String::from("c"), 2)];
    let s = Suggestion::new(String::from("xy"), &ranks, sel, ansi);
    kani::cover!(ansi, "ansi list reachable");
    assert!(!s.is_lonely());
    assert!(s.len() == 2);
    assert!(!s.is_empty());
    assert!(s.previously_selected_index() == sel);
    assert!(s.get_auxiliary_text().len() == 2);
    assert!(s.get_suggestions().len() == 2);
    let second: bool = kani::any();
    let i: usize = if second { 1 } else { 0 };
    let want_len: usize = if second { 1 } else { 2 };
    let want_b0: u8 = if second { b'c' } else { b'a' };
    let pre = s.get_pre_edit_text(i);
    assert!(s.get_suggestions()[i].len() == want_len);
    if ansi {
        assert!(pre.len() == want_len + 1 && pre.as_bytes()[0] == b'#' && pre.as_bytes()[1] == want_b0, "read-out is bijoy(candidate)");
    } else {
        assert!(pre.len() == want_len && pre.as_bytes()[0] == want_b0, "read-out is the candidate");
    }
    std::mem::forget(pre);
    std::mem::forget(s);
    std::mem::forget(ranks);
}

/// The phonetic method moves the preselection of a finished list (a punctuation key keeps the caller's choice): whatever the selection
/// field says afterwards, the pre-edit text of candidate i is (the encoding of) candidate i.
#[kani::proof]
#[kani::unwind(8)]
#[kani::stub(poriborton::bijoy2000::unicode_to_bijoy, stub_bijoy)]
fn k_suggestion_selection_moved() {
    let ansi: bool = kani::any();
    let first_sel: bool = kani::any();
    let moved_sel: bool = kani::any();
    let ranks = [Rank::First(String::from("ab")), Rank::Last(String::from("c"), 2)];
    let mut s = Suggestion::new(String::from("xy"), &ranks, if first_sel { 1 } else { 0 }, ansi);
    if let Suggestion::Full { selection: ref mut sel, .. } = s {
        *sel = if moved_sel { 1 } else { 0 };
    }
    kani::cover!(ansi && first_sel != moved_sel, "ansi list with a moved selection reachable");
    assert!(s.previously_selected_index() == if moved_sel { 1 } else { 0 });
    let second: bool = kani::any();
    let i: usize = if second { 1 } else { 0 };
    let want_len: usize = if second { 1 } else { 2 };
    let want_b0: u8 = if second { b'c' } else { b'a' };
    let pre = s.get_pre_edit_text(i);
    if ansi {
        assert!(pre.len() == want_len + 1 && pre.as_bytes()[0] == b'#' && pre.as_bytes()[1] == want_b0, "read-out is bijoy(candidate) after the selection moved");
    } else {
        assert!(pre.len() == want_len && pre.as_bytes()[0] == want_b0, "read-out is the candidate after the selection moved");
    }
    std::mem::forget(pre);
    std::mem::forget(s);
    std::mem::forget(ranks);
}

#[kani::proof]
#[kani::unwind(8)]
#[kani::stub(poriborton::bijoy2000::unicode_to_bijoy, stub_bijoy)]
fn k_suggestion_single_accessors() {
    let ansi: bool = kani::any();
    let nonempty: bool = kani::any();
    let text = if nonempty { String::from("ab") } else { String::new() };
    let s = Suggestion::new_lonely(text, ansi);
    kani::cover!(ansi && nonempty, "ansi single reachable");
    assert!(s.is_lonely());
    assert!(s.is_empty() == !nonempty);
    assert!(s.get_lonely_suggestion().len() == if nonempty { 2 } else { 0 });
    let pre = s.get_pre_edit_text(0);
    if ansi {
        assert!(pre.len() == s.get_lonely_suggestion().len() + 1);
    } else {
        assert!(pre.len() == s.get_lonely_suggestion().len());
    }
    let e = Suggestion::empty();
    assert!(e.is_lonely() && e.is_empty());
    let pe = e.get_pre_edit_text(0);
    assert!(pe.is_empty(), "empty suggestion reads as empty pre-edit text (never encoded)");
    std::mem::forget(pe);
    std::mem::forget(pre);
    std::mem::forget(s);
    std::mem::forget(e);
}

// ---------------------------------------------------------------- C19: C interface objects

use crate::ffi::*;

/// Stub for std::ffi::CString::from_raw: Kani cannot call the foreign `strlen`; this is the same
/// ownership transfer with the length found by a loop (the native playback runs the real one).
unsafe fn stub_cstring_from_raw(ptr: *mut std::os::raw::c_char) -> std::ffi::CString {
    let mut len = 0usize;
    while *ptr.add(len) != 0 {
        len += 1;
    }
    std::ffi::CString::from_vec_with_nul_unchecked(Vec::from_raw_parts(ptr as *mut u8, len + 1, len + 1))
}

/// Compare a returned C string with the expected bytes, byte by byte, including the NUL.
unsafe fn c_is(p: *const std::os::raw::c_char, want: &[u8]) -> bool {
    let mut ok = true;
    let mut i = 0;
    while i < want.len() {
        if *p.add(i) as u8 != want[i] {
            ok = false;
        }
        i += 1;
    }
    ok && *p.add(want.len()) == 0
}

#[kani::proof]
#[kani::unwind(6)]
#[kani::stub(std::ffi::CString::from_raw, stub_cstring_from_raw)]
#[kani::stub(poriborton::bijoy2000::unicode_to_bijoy, stub_bijoy)]
fn k_ffi_suggestion_full() {
    let sel: usize = kani::any();
    let ranks = [Rank::First(String::from("ab")), Rank::Last(String::from("z"), 2)];
    let s = Suggestion::new(String::from("q"), &ranks, sel, false);
    let p = Box::into_raw(Box::new(s));
    // read-outs
    assert!(!riti_suggestion_is_lonely(p));
    assert!(!riti_suggestion_is_empty(p));
    assert!(riti_suggestion_get_length(p) == 2);
    assert!(riti_suggestion_previously_selected_index(p) == sel);
    let c0 = riti_suggestion_get_suggestion(p, 0);
    let c1 = riti_suggestion_get_suggestion(p, 1);
    let aux = riti_suggestion_get_auxiliary_text(p);
    let pre = riti_suggestion_get_pre_edit_text(p, 1);
    // the strings must stay valid after the suggestion they came from is freed
    riti_suggestion_free(p);
    unsafe {
        assert!(c_is(c0, b"ab"), "candidate 0 bytes + NUL");
        assert!(c_is(c1, b"z"), "candidate 1 bytes + NUL");
        assert!(c_is(aux, b"q"), "auxiliary bytes + NUL");
        assert!(c_is(pre, b"z"), "pre-edit bytes + NUL");
    }
    kani::cover!(sel > 1, "reachable");
    riti_string_free(c0);
    riti_string_free(c1);
    riti_string_free(aux);
    riti_string_free(pre);
    riti_string_free(std::ptr::null_mut());
    std::mem::forget(ranks);
}

#[kani::proof]
#[kani::unwind(6)]
#[kani::stub(std::ffi::CString::from_raw, stub_cstring_from_raw)]
#[kani::stub(poriborton::bijoy2000::unicode_to_bijoy, stub_bijoy)]
fn k_ffi_suggestion_single() {
    let empty: bool = kani::any();
    let t = if empty { String::new() } else { String::from("k") };
    let s = Suggestion::new_lonely(t, false);
    let p = Box::into_raw(Box::new(s));
    assert!(riti_suggestion_is_lonely(p));
    assert!(riti_suggestion_is_empty(p) == empty);
    let l = riti_suggestion_get_lonely_suggestion(p);
    let pre = riti_suggestion_get_pre_edit_text(p, 0);
    riti_suggestion_free(p);
    unsafe {
        if empty {
            assert!(c_is(l, b"") && c_is(pre, b""));
        } else {
            assert!(c_is(l, b"k") && c_is(pre, b"k"));
        }
    }
    kani::cover!(!empty, "reachable");
    riti_string_free(l);
    riti_string_free(pre);
    riti_suggestion_free(std::ptr::null_mut());
}

/// Counts the strings whose ownership riti_string_free takes back (every call of CString::from_raw).
static mut RECLAIMED: usize = 0;

unsafe fn stub_cstring_from_raw_counting(ptr: *mut std::os::raw::c_char) -> std::ffi::CString {
    RECLAIMED += 1;
    stub_cstring_from_raw(ptr)
}

/// C19: every string the C interface returns for a list suggestion equals what the Rust API of the same value reports
/// (candidate, pre-edit text, auxiliary text; ANSI on or off; an empty candidate included), and riti_string_free takes
/// every non-null string back exactly once (nothing is left to leak), a null string being a no-op.
#[kani::proof]
#[kani::unwind(6)]
#[kani::stub(std::ffi::CString::from_raw, stub_cstring_from_raw_counting)]
#[kani::stub(poriborton::bijoy2000::unicode_to_bijoy, stub_bijoy)]
fn k_ffi_strings_match_and_are_reclaimed() {
    let ansi: bool = kani::any();
    let empty_candidate: bool = kani::any();
    let first = if empty_candidate { String::new() } else { String::from("ab") };
    let ranks = [Rank::First(first), Rank::Last(String::from("z"), 2)];
    let s = Suggestion::new(String::from("q"), &ranks, 0, ansi);
    let p = Box::into_raw(Box::new(s));
    let i: usize = kani::any();
    kani::assume(i < 2);
    let c = riti_suggestion_get_suggestion(p, i);
    let pre = riti_suggestion_get_pre_edit_text(p, i);
    let aux = riti_suggestion_get_auxiliary_text(p);
    unsafe {
        let rs: &Suggestion = &*p;
        assert!(c_is(c, rs.get_suggestions()[i].as_bytes()), "candidate read-out equals the Rust value");
        let want = rs.get_pre_edit_text(i);
        assert!(c_is(pre, want.as_bytes()), "pre-edit read-out equals the Rust value");
        assert!(c_is(aux, rs.get_auxiliary_text().as_bytes()), "auxiliary read-out equals the Rust value");
    }
    riti_suggestion_free(p);
    kani::cover!(ansi && empty_candidate && i == 0, "reachable: ANSI, empty candidate");
    kani::cover!(!ansi && i == 1, "reachable: plain");
    riti_string_free(c);
    riti_string_free(pre);
    riti_string_free(aux);
    unsafe {
        assert!(RECLAIMED == 3, "every returned string is taken back by riti_string_free");
    }
    riti_string_free(std::ptr::null_mut());
    unsafe {
        assert!(RECLAIMED == 3, "freeing a null string is a no-op");
    }
    std::mem::forget(ranks);
}

/// C19: the same for the single-text suggestion (empty or not, ANSI on or off).
#[kani::proof]
#[kani::unwind(6)]
#[kani::stub(std::ffi::CString::from_raw, stub_cstring_from_raw_counting)]
#[kani::stub(poriborton::bijoy2000::unicode_to_bijoy, stub_bijoy)]
fn k_ffi_single_strings_match_and_are_reclaimed() {
    let ansi: bool = kani::any();
    let empty: bool = kani::any();
    let t = if empty { String::new() } else { String::from("k") };
    let p = Box::into_raw(Box::new(Suggestion::new_lonely(t, ansi)));
    let l = riti_suggestion_get_lonely_suggestion(p);
    let pre = riti_suggestion_get_pre_edit_text(p, 0);
    unsafe {
        let rs: &Suggestion = &*p;
        assert!(c_is(l, rs.get_lonely_suggestion().as_bytes()), "lonely read-out equals the Rust value");
        let want = rs.get_pre_edit_text(0);
        assert!(c_is(pre, want.as_bytes()), "pre-edit read-out equals the Rust value");
    }
    riti_suggestion_free(p);
    kani::cover!(ansi && empty, "reachable: ANSI, empty");
    kani::cover!(!ansi && !empty, "reachable: plain");
    riti_string_free(l);
    riti_string_free(pre);
    unsafe {
        assert!(RECLAIMED == 2, "every returned string is taken back by riti_string_free");
    }
}

#[kani::proof]
#[kani::unwind(4)]
#[kani::stub(crate::config::get_user_data_dir, stub_user_data_dir)]
fn k_ffi_config() {
    let p = riti_config_new();
    assert!(!p.is_null());
    let v: bool = kani::any();
    let w: bool = kani::any();
    riti_config_set_suggestion_include_english(p, v);
    riti_config_set_phonetic_suggestion(p, v);
    riti_config_set_fixed_suggestion(p, w);
    riti_config_set_fixed_auto_vowel(p, v);
    riti_config_set_fixed_auto_chandra(p, w);
    riti_config_set_fixed_traditional_kar(p, v);
    riti_config_set_fixed_old_reph(p, w);
    riti_config_set_fixed_numpad(p, v);
    riti_config_set_fixed_old_kar_order(p, w);
    riti_config_set_ansi_encoding(p, w);
    riti_config_set_smart_quote(p, v);
    unsafe {
        let c = &*p;
        assert!(c.get_phonetic_suggestion() == v);
        assert!(c.get_fixed_suggestion() == w);
        assert!(c.get_fixed_automatic_vowel() == v);
        assert!(c.get_fixed_automatic_chandra() == w);
        assert!(c.get_fixed_traditional_kar() == v);
        assert!(c.get_fixed_old_reph() == w);
        assert!(c.get_fixed_numpad() == v);
        assert!(c.get_fixed_old_kar_order() == w);
        assert!(c.get_ansi_encoding() == w);
        assert!(c.get_smart_quote() == v);
        assert!(c.get_suggestion_include_english() == (v && !w));
    }
    kani::cover!(v && !w, "reachable");
    riti_config_free(p);
    riti_config_free(std::ptr::null_mut());
}
