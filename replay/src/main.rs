// Native replay driver: plays scenarios (JSON lines) against the real riti library
// through what a front-end can use (exported riti_config_* C functions for building
// a Config, the public Rust API of RitiContext / Suggestion for everything else) and
// prints one JSON line of observations per scenario.
//
// Used by /verif/check to (a) confirm solver counterexamples before they are reported,
// (b) validate the symbolic models on the witnesses of explored paths, (c) tabulate
// third-party oracles (okkhor / poriborton / emojicon) on concrete arguments.

use std::collections::HashMap;
use std::ffi::CString;
use std::io::{BufRead, Write};
use std::os::raw::c_char;
use std::panic::{catch_unwind, AssertUnwindSafe};
use std::sync::Mutex;

use riti::config::Config;
use riti::context::RitiContext;
use riti::suggestion::Suggestion;
use serde_json::{json, Map, Value};

#[allow(improper_ctypes)]
extern "C" {
    fn riti_config_new() -> *mut Config;
    fn riti_config_free(ptr: *mut Config);
    fn riti_config_set_layout_file(ptr: *mut Config, path: *const c_char) -> bool;
    fn riti_config_set_database_dir(ptr: *mut Config, path: *const c_char) -> bool;
    fn riti_config_set_suggestion_include_english(ptr: *mut Config, option: bool);
    fn riti_config_set_phonetic_suggestion(ptr: *mut Config, option: bool);
    fn riti_config_set_fixed_suggestion(ptr: *mut Config, option: bool);
    fn riti_config_set_fixed_auto_vowel(ptr: *mut Config, option: bool);
    fn riti_config_set_fixed_auto_chandra(ptr: *mut Config, option: bool);
    fn riti_config_set_fixed_traditional_kar(ptr: *mut Config, option: bool);
    fn riti_config_set_fixed_old_reph(ptr: *mut Config, option: bool);
    fn riti_config_set_fixed_numpad(ptr: *mut Config, option: bool);
    fn riti_config_set_fixed_old_kar_order(ptr: *mut Config, option: bool);
    fn riti_config_set_ansi_encoding(ptr: *mut Config, option: bool);
    fn riti_config_set_smart_quote(ptr: *mut Config, option: bool);
    fn riti_context_new_with_config(ptr: *const Config) -> *mut RitiContext;
    fn riti_context_free(ptr: *mut RitiContext);
    fn riti_get_suggestion_for_key(ptr: *mut RitiContext, key: u16, modifier: u8, selection: u8) -> *mut Suggestion;
    fn riti_context_candidate_committed(ptr: *mut RitiContext, index: usize);
    fn riti_context_update_engine(ptr: *mut RitiContext, config: *const Config);
    fn riti_context_ongoing_input_session(ptr: *mut RitiContext) -> bool;
    fn riti_context_finish_input_session(ptr: *mut RitiContext);
    fn riti_context_backspace_event(ptr: *mut RitiContext, ctrl: bool) -> *mut Suggestion;
    fn riti_suggestion_free(ptr: *mut Suggestion);
    fn riti_suggestion_get_suggestion(ptr: *const Suggestion, index: usize) -> *mut c_char;
    fn riti_suggestion_get_lonely_suggestion(ptr: *const Suggestion) -> *mut c_char;
    fn riti_suggestion_get_auxiliary_text(ptr: *const Suggestion) -> *mut c_char;
    fn riti_suggestion_get_pre_edit_text(ptr: *const Suggestion, index: usize) -> *mut c_char;
    fn riti_string_free(ptr: *mut c_char);
    fn riti_suggestion_previously_selected_index(ptr: *const Suggestion) -> usize;
    fn riti_suggestion_get_length(ptr: *const Suggestion) -> usize;
    fn riti_suggestion_is_lonely(ptr: *const Suggestion) -> bool;
    fn riti_suggestion_is_empty(ptr: *const Suggestion) -> bool;
}

// ---- allocation accounting (for the C-interface life-cycle op): live blocks and bytes of this process
struct Counting;
static LIVE_BLOCKS: std::sync::atomic::AtomicIsize = std::sync::atomic::AtomicIsize::new(0);
static LIVE_BYTES: std::sync::atomic::AtomicIsize = std::sync::atomic::AtomicIsize::new(0);

unsafe impl std::alloc::GlobalAlloc for Counting {
    unsafe fn alloc(&self, l: std::alloc::Layout) -> *mut u8 {
        let p = std::alloc::System.alloc(l);
        if !p.is_null() {
            LIVE_BLOCKS.fetch_add(1, std::sync::atomic::Ordering::Relaxed);
            LIVE_BYTES.fetch_add(l.size() as isize, std::sync::atomic::Ordering::Relaxed);
        }
        p
    }
    unsafe fn dealloc(&self, p: *mut u8, l: std::alloc::Layout) {
        LIVE_BLOCKS.fetch_sub(1, std::sync::atomic::Ordering::Relaxed);
        LIVE_BYTES.fetch_sub(l.size() as isize, std::sync::atomic::Ordering::Relaxed);
        // a freed block is overwritten, so that whoever still reads through a dangling pointer sees it (0xDD is neither NUL nor valid UTF-8 on its own)
        std::ptr::write_bytes(p, 0xDD, l.size());
        std::alloc::System.dealloc(p, l)
    }
    unsafe fn realloc(&self, p: *mut u8, l: std::alloc::Layout, n: usize) -> *mut u8 {
        let q = std::alloc::System.realloc(p, l, n);
        if !q.is_null() {
            LIVE_BYTES.fetch_add(n as isize - l.size() as isize, std::sync::atomic::Ordering::Relaxed);
        }
        q
    }
}

#[global_allocator]
static ALLOC: Counting = Counting;

/// One full life cycle through the C interface only: config -> context -> events -> read-outs -> frees.
/// Every returned string is compared with what the Rust API of the same Suggestion reports, is checked again after the
/// context has moved on (`late_free`), and is then given to riti_string_free. Returns the mismatches.
unsafe fn ffi_cycle_once(cfg: &Config, desc: &Value, env: &mut Env, mism: &mut Vec<String>, nstrings: &mut usize) -> Result<(), String> {
    let late = b(desc, "late_free", false);
    // early_config_free: the caller frees its Config as soon as the call it was passed to has returned, and the freed block is reused
    // (zero-filled blocks of the same size); every suggestion is then compared with a Rust-API context made from the same configuration
    let early = b(desc, "early_config_free", false);
    let mut refctx = if early { Some(RitiContext::new_with_config(cfg)) } else { None };
    let mut junk: Vec<Vec<u64>> = Vec::new();
    let cfgp = Box::into_raw(Box::new(cfg.clone()));
    let ctx = riti_context_new_with_config(cfgp);
    if early {
        riti_config_free(cfgp);
        for _ in 0..8 {
            junk.push(vec![0u64; std::mem::size_of::<Config>() / 8]);
        }
    }
    let mut held: Vec<(*mut c_char, Vec<u8>, String)> = Vec::new();
    let mut held_sugs: Vec<*mut Suggestion> = Vec::new();
    let empty = Vec::new();
    for (n, ev) in desc["events"].as_array().unwrap_or(&empty).iter().enumerate() {
        let mut sug: *mut Suggestion = std::ptr::null_mut();
        if let Some(k) = ev.get("key").and_then(|x| x.as_u64()) {
            let m = ev.get("mod").and_then(|x| x.as_u64()).unwrap_or(0) as u8;
            let sel = ev.get("sel").and_then(|x| x.as_u64()).unwrap_or(0) as u8;
            sug = riti_get_suggestion_for_key(ctx, k as u16, m, sel);
        } else if let Some(c) = ev.get("backspace").and_then(|x| x.as_bool()) {
            sug = riti_context_backspace_event(ctx, c);
        } else if let Some(i) = ev.get("commit").and_then(|x| x.as_u64()) {
            riti_context_candidate_committed(ctx, i as usize);
        } else if ev.get("finish").is_some() {
            riti_context_finish_input_session(ctx);
        } else if let Some(c2) = ev.get("update") {
            let c2 = build_config(c2, env)?;
            if let Some(r) = refctx.as_mut() {
                r.update_engine(&c2);
            }
            let p2 = Box::into_raw(Box::new(c2));
            riti_context_update_engine(ctx, p2);
            riti_config_free(p2);
            if early {
                for _ in 0..8 {
                    junk.push(vec![0u64; std::mem::size_of::<Config>() / 8]);
                }
            }
        }
        let _ = riti_context_ongoing_input_session(ctx);
        if let Some(r) = refctx.as_ref() {
            // the same event on the Rust-API context
            let mut want: Option<Suggestion> = None;
            if let Some(k) = ev.get("key").and_then(|x| x.as_u64()) {
                let m = ev.get("mod").and_then(|x| x.as_u64()).unwrap_or(0) as u8;
                let sel = ev.get("sel").and_then(|x| x.as_u64()).unwrap_or(0) as u8;
                want = Some(r.get_suggestion_for_key(k as u16, m, sel));
            } else if let Some(c) = ev.get("backspace").and_then(|x| x.as_bool()) {
                want = Some(r.backspace_event(c));
            } else if let Some(i) = ev.get("commit").and_then(|x| x.as_u64()) {
                r.candidate_committed(i as usize);
            } else if ev.get("finish").is_some() {
                r.finish_input_session();
            }
            if let (Some(w), false) = (want, sug.is_null()) {
                let got: &Suggestion = &*sug;
                let same = w.is_lonely() == got.is_lonely()
                    && (if w.is_lonely() { w.get_lonely_suggestion() == got.get_lonely_suggestion() && w.get_pre_edit_text(0) == got.get_pre_edit_text(0) }
                        else { w.get_suggestions() == got.get_suggestions() && w.previously_selected_index() == got.previously_selected_index()
                               && w.get_auxiliary_text() == got.get_auxiliary_text()
                               && (0..w.len()).all(|i| w.get_pre_edit_text(i) == got.get_pre_edit_text(i)) });
                if !same {
                    mism.push(format!("event {}: the context made through the C interface returns {:?}, a Rust-API context with the same configuration and history returns {:?}", n, got, w));
                }
            }
        }
        if sug.is_null() {
            continue;
        }
        let rs: &Suggestion = &*sug;
        let mut got: Vec<(*mut c_char, Vec<u8>, String)> = Vec::new();
        if riti_suggestion_is_lonely(sug) != rs.is_lonely() || riti_suggestion_is_empty(sug) != rs.is_empty() {
            mism.push(format!("event {}: is_lonely / is_empty differ from the Rust value", n));
        }
        if rs.is_lonely() {
            got.push((riti_suggestion_get_lonely_suggestion(sug), rs.get_lonely_suggestion().as_bytes().to_vec(), format!("event {} lonely suggestion", n)));
            got.push((riti_suggestion_get_pre_edit_text(sug, 0), rs.get_pre_edit_text(0).into_bytes(), format!("event {} pre-edit text", n)));
        } else {
            let len = riti_suggestion_get_length(sug);
            if len != rs.len() {
                mism.push(format!("event {}: length {} but the Rust value has {}", n, len, rs.len()));
            }
            if riti_suggestion_previously_selected_index(sug) != rs.previously_selected_index() {
                mism.push(format!("event {}: preselected index differs from the Rust value", n));
            }
            got.push((riti_suggestion_get_auxiliary_text(sug), rs.get_auxiliary_text().as_bytes().to_vec(), format!("event {} auxiliary text", n)));
            for i in 0..rs.len() {
                got.push((riti_suggestion_get_suggestion(sug, i), rs.get_suggestions()[i].as_bytes().to_vec(), format!("event {} candidate {}", n, i)));
                got.push((riti_suggestion_get_pre_edit_text(sug, i), rs.get_pre_edit_text(i).into_bytes(), format!("event {} pre-edit text {}", n, i)));
            }
        }
        for g in got.iter() {
            check_cstr(g, mism);
        }
        *nstrings += got.len();
        if late {
            held.extend(got);
            held_sugs.push(sug);
        } else {
            for g in got {
                riti_string_free(g.0);
            }
            riti_suggestion_free(sug);
        }
    }
    // read-outs of earlier suggestions after the context has moved on
    for sp in held_sugs.iter() {
        let rs: &Suggestion = &**sp;
        if !rs.is_lonely() && rs.len() > 0 {
            let p = riti_suggestion_get_suggestion(*sp, rs.len() - 1);
            let g = (p, rs.get_suggestions()[rs.len() - 1].as_bytes().to_vec(), "late read-out".to_string());
            check_cstr(&g, mism);
            riti_string_free(p);
        }
    }
    riti_context_free(ctx);
    if !early {
        riti_config_free(cfgp);
    }
    drop(junk);
    // strings and suggestions outlive the context they came from
    for g in held.iter() {
        check_cstr(g, mism);
    }
    if b(desc, "suggestions_freed_first", false) {
        // a string is its own object: it stays valid after the suggestion it was read from is freed, until riti_string_free takes it back
        for sp in held_sugs.drain(..) {
            riti_suggestion_free(sp);
        }
        for g in held.iter() {
            check_cstr(g, mism);
        }
    }
    for g in held {
        riti_string_free(g.0);
    }
    for sp in held_sugs {
        riti_suggestion_free(sp);
    }
    riti_string_free(std::ptr::null_mut());
    riti_suggestion_free(std::ptr::null_mut());
    Ok(())
}

unsafe fn check_cstr(g: &(*mut c_char, Vec<u8>, String), mism: &mut Vec<String>) {
    if g.0.is_null() {
        mism.push(format!("{}: null pointer", g.2));
        return;
    }
    let got = std::ffi::CStr::from_ptr(g.0).to_bytes();
    if got != &g.1[..] {
        mism.push(format!("{}: C read-out {:?} but the Rust API reports {:?}", g.2, String::from_utf8_lossy(got), String::from_utf8_lossy(&g.1)));
    }
}

static LAST_PANIC: Mutex<Option<String>> = Mutex::new(None);

// Watchdog: a step of a scenario normally takes milliseconds. A step that does not return within STEP_LIMIT_MS (an endless loop in the
// library) ends the process with a message, so that the caller sees "did not return" after seconds, not after its own long timeout.
static HEARTBEAT: std::sync::atomic::AtomicU64 = std::sync::atomic::AtomicU64::new(0);
const STEP_LIMIT_MS: u64 = 20_000;

fn now_ms() -> u64 {
    std::time::SystemTime::now().duration_since(std::time::UNIX_EPOCH).map(|d| d.as_millis() as u64).unwrap_or(0)
}

fn start_watchdog() {
    HEARTBEAT.store(now_ms(), std::sync::atomic::Ordering::SeqCst);
    std::thread::spawn(|| loop {
        std::thread::sleep(std::time::Duration::from_millis(500));
        let last = HEARTBEAT.load(std::sync::atomic::Ordering::SeqCst);
        if last != 0 && now_ms().saturating_sub(last) > STEP_LIMIT_MS {
            eprintln!("WATCHDOG: a step did not return within {} ms (endless loop?)", STEP_LIMIT_MS);
            std::process::abort();
        }
    });
}

fn take_panic() -> String {
    LAST_PANIC
        .lock()
        .map(|mut g| g.take())
        .ok()
        .flatten()
        .unwrap_or_else(|| "panic".to_string())
}

struct Env {
    xdg: String,
    user_dir: String,
    tmp_files: Vec<String>,
    counter: usize,
    last_layout: String,
}

fn b(v: &Value, key: &str, default: bool) -> bool {
    v.get(key).and_then(|x| x.as_bool()).unwrap_or(default)
}

/// Build a Config from a JSON description, through the exported C functions.
fn build_config(desc: &Value, env: &mut Env) -> Result<Config, String> {
    std::env::set_var("XDG_DATA_HOME", &env.xdg);
    let ptr = unsafe { riti_config_new() };
    let mut layout_path = desc
        .get("layout")
        .and_then(|x| x.as_str())
        .unwrap_or("avro_phonetic")
        .to_string();
    if let Some(map) = desc.get("layout_json") {
        // Synthetic layout: {"info":{}, "layout": {...}} written to a scratch file.
        // the file name is a function of the content, so that two configs with the same synthetic
        // layout name the same file (update_engine then keeps the method object)
        env.counter += 1;
        let doc = json!({ "info": {"layout": {"name": "verif"}}, "layout": map });
        let bytes = serde_json::to_vec(&doc).unwrap();
        let mut h: u64 = 0xcbf29ce484222325;
        for b in &bytes {
            h ^= *b as u64;
            h = h.wrapping_mul(0x100000001b3);
        }
        let p = format!("{}/layout-{:016x}.json", env.xdg, h);
        std::fs::write(&p, bytes).map_err(|e| e.to_string())?;
        if !env.tmp_files.contains(&p) {
            env.tmp_files.push(p.clone());
        }
        layout_path = p;
    }
    env.last_layout = layout_path.clone();
    let c = CString::new(layout_path.clone()).map_err(|e| e.to_string())?;
    let ok = unsafe { riti_config_set_layout_file(ptr, c.as_ptr()) };
    if !ok {
        unsafe { riti_config_free(ptr) };
        return Err(format!("layout rejected: {}", layout_path));
    }
    if let Some(db) = desc.get("database").and_then(|x| x.as_str()) {
        let c = CString::new(db).map_err(|e| e.to_string())?;
        let ok = unsafe { riti_config_set_database_dir(ptr, c.as_ptr()) };
        if !ok {
            unsafe { riti_config_free(ptr) };
            return Err(format!("database dir rejected: {}", db));
        }
    }
    let o = desc.get("opts").cloned().unwrap_or(json!({}));
    // the order of the setter calls is the front end's choice: "_ansi_first" calls the ANSI setter before the others
    unsafe {
        if b(&o, "_ansi_first", false) {
            riti_config_set_ansi_encoding(ptr, b(&o, "ansi", false));
        }
        riti_config_set_suggestion_include_english(ptr, b(&o, "english", false));
        riti_config_set_phonetic_suggestion(ptr, b(&o, "phonetic_suggestion", false));
        riti_config_set_fixed_suggestion(ptr, b(&o, "fixed_suggestion", false));
        riti_config_set_fixed_auto_vowel(ptr, b(&o, "vowel", false));
        riti_config_set_fixed_auto_chandra(ptr, b(&o, "chandra", false));
        riti_config_set_fixed_traditional_kar(ptr, b(&o, "kar", false));
        riti_config_set_fixed_old_reph(ptr, b(&o, "old_reph", false));
        riti_config_set_fixed_numpad(ptr, b(&o, "numpad", false));
        riti_config_set_fixed_old_kar_order(ptr, b(&o, "kar_order", false));
        if !b(&o, "_ansi_first", false) {
            riti_config_set_ansi_encoding(ptr, b(&o, "ansi", false));
        }
        riti_config_set_smart_quote(ptr, b(&o, "smart_quote", true));
        // "_then": further setter calls on the same object, in the order given: [["english", true], ["ansi", false], ...]
        if let Some(h) = o.get("_then").and_then(|x| x.as_array()) {
            for call in h {
                let v = call[1].as_bool().unwrap_or(false);
                match call[0].as_str().unwrap_or("") {
                    "english" => riti_config_set_suggestion_include_english(ptr, v),
                    "ansi" => riti_config_set_ansi_encoding(ptr, v),
                    _ => {}
                }
            }
        }
    }
    let cfg = unsafe { (*ptr).clone() };
    unsafe { riti_config_free(ptr) };
    Ok(cfg)
}

fn guarded<T>(f: impl FnOnce() -> T) -> Result<T, String> {
    match catch_unwind(AssertUnwindSafe(f)) {
        Ok(v) => Ok(v),
        Err(_) => Err(take_panic()),
    }
}

fn render(s: &Suggestion) -> Value {
    let mut m = Map::new();
    let lonely = s.is_lonely();
    m.insert("empty".into(), json!(guarded(|| s.is_empty()).unwrap_or(false)));
    if lonely {
        m.insert("kind".into(), json!("single"));
        match guarded(|| s.get_lonely_suggestion().to_string()) {
            Ok(t) => m.insert("text".into(), json!(t)),
            Err(p) => m.insert("text_panic".into(), json!(p)),
        };
        match guarded(|| s.get_pre_edit_text(0)) {
            Ok(t) => m.insert("preedit0".into(), json!(t)),
            Err(p) => m.insert("preedit0_panic".into(), json!(p)),
        };
    } else {
        m.insert("kind".into(), json!("full"));
        let len = s.len();
        m.insert("len".into(), json!(len));
        m.insert("sel".into(), json!(s.previously_selected_index()));
        m.insert("aux".into(), json!(s.get_auxiliary_text()));
        m.insert("list".into(), json!(s.get_suggestions()));
        let mut pre = Vec::new();
        for i in 0..len {
            match guarded(|| s.get_pre_edit_text(i)) {
                Ok(t) => pre.push(json!(t)),
                Err(p) => pre.push(json!({ "panic": p })),
            }
        }
        m.insert("preedit".into(), Value::Array(pre));
    }
    Value::Object(m)
}

fn run_scenario(sc: &Value) -> Value {
    HEARTBEAT.store(now_ms(), std::sync::atomic::Ordering::SeqCst);
    let id = sc.get("id").cloned().unwrap_or(Value::Null);
    let xdg = match sc.get("xdg").and_then(|x| x.as_str()) {
        Some(x) => x.to_string(),
        None => return json!({"id": id, "error": "scenario has no xdg directory"}),
    };
    let user_dir = format!("{}/openbangla-keyboard", xdg);
    let _ = std::fs::create_dir_all(&xdg);
    if sc.get("mkdir_user_dir").and_then(|x| x.as_bool()).unwrap_or(true) {
        let _ = std::fs::create_dir_all(&user_dir);
    }
    let mut env = Env { xdg, user_dir, tmp_files: Vec::new(), counter: 0, last_layout: String::new() };
    let mut ctxs: HashMap<i64, RitiContext> = HashMap::new();
    let mut out = Vec::new();
    let empty = Vec::new();
    let steps = sc.get("steps").and_then(|x| x.as_array()).unwrap_or(&empty);
    for st in steps {
        HEARTBEAT.store(now_ms(), std::sync::atomic::Ordering::SeqCst);
        let op = st.get("op").and_then(|x| x.as_str()).unwrap_or("");
        let cid = st.get("ctx").and_then(|x| x.as_i64()).unwrap_or(0);
        let mut r = Map::new();
        r.insert("op".into(), json!(op));
        match op {
            "write_user_file" => {
                let name = st["name"].as_str().unwrap_or("x");
                let p = format!("{}/{}", env.user_dir, name);
                let res = if let Some(bytes) = st.get("bytes").and_then(|x| x.as_array()) {
                    let v: Vec<u8> = bytes.iter().map(|x| x.as_u64().unwrap_or(0) as u8).collect();
                    std::fs::write(&p, v)
                } else {
                    std::fs::write(&p, st["content"].as_str().unwrap_or(""))
                };
                if let Err(e) = res {
                    r.insert("error".into(), json!(e.to_string()));
                }
                if let Some(secs) = st.get("mtime_at").and_then(|x| x.as_u64()) {
                    // an absolute modification time (seconds since the epoch)
                    if let Ok(f) = std::fs::OpenOptions::new().write(true).open(&p) {
                        let _ = f.set_modified(std::time::UNIX_EPOCH + std::time::Duration::from_secs(secs));
                    }
                }
                if let Some(secs) = st.get("mtime_plus").and_then(|x| x.as_u64()) {
                    // make the edit visible to an mtime comparison without sleeping
                    if let Ok(f) = std::fs::OpenOptions::new().write(true).open(&p) {
                        let t = std::time::SystemTime::now() + std::time::Duration::from_secs(secs);
                        let _ = f.set_modified(t);
                    }
                }
            }
            "remove_user_file" => {
                let name = st["name"].as_str().unwrap_or("x");
                let _ = std::fs::remove_file(format!("{}/{}", env.user_dir, name));
            }
            "read_user_file" => {
                let name = st["name"].as_str().unwrap_or("x");
                match std::fs::read(format!("{}/{}", env.user_dir, name)) {
                    Ok(v) => {
                        r.insert("content".into(), json!(String::from_utf8_lossy(&v)));
                    }
                    Err(e) => {
                        r.insert("error".into(), json!(e.to_string()));
                    }
                }
            }
            "remove_user_dir" => {
                let _ = std::fs::remove_dir_all(&env.user_dir);
            }
            "create_user_dir" => {
                let _ = std::fs::remove_file(&env.user_dir);
                let _ = std::fs::create_dir_all(&env.user_dir);
            }
            "chmod_user_dir" => {
                use std::os::unix::fs::PermissionsExt;
                let mode = st["mode"].as_u64().unwrap_or(0o755) as u32;
                let _ = std::fs::set_permissions(&env.user_dir, std::fs::Permissions::from_mode(mode));
            }
            "user_dir_as_file" => {
                // make the user-data directory path unusable as a directory
                let _ = std::fs::remove_dir_all(&env.user_dir);
                let _ = std::fs::write(&env.user_dir, b"");
            }
            "new" => match build_config(&st["config"], &mut env) {
                Ok(cfg) => match guarded(|| RitiContext::new_with_config(&cfg)) {
                    Ok(c) => {
                        ctxs.insert(cid, c);
                    }
                    Err(p) => {
                        r.insert("panic".into(), json!(p));
                    }
                },
                Err(e) => {
                    r.insert("error".into(), json!(e));
                }
            },
            "update" => match build_config(&st["config"], &mut env) {
                Ok(cfg) => {
                    if let Some(c) = ctxs.get_mut(&cid) {
                        // "layout_unreadable": the layout file is half written while the update runs (an editor is saving it) and whole again afterwards
                        let saved = if b(st, "layout_unreadable", false) {
                            let bytes = std::fs::read(&env.last_layout).ok();
                            if bytes.is_some() {
                                let _ = std::fs::write(&env.last_layout, b"{\"info\": {");
                            }
                            bytes
                        } else {
                            None
                        };
                        if let Err(p) = guarded(|| c.update_engine(&cfg)) {
                            r.insert("panic".into(), json!(p));
                        }
                        if let Some(bytes) = saved {
                            let _ = std::fs::write(&env.last_layout, bytes);
                        }
                    } else {
                        r.insert("error".into(), json!("no such context"));
                    }
                }
                Err(e) => {
                    r.insert("error".into(), json!(e));
                }
            },
            "free" => {
                ctxs.remove(&cid);
            }
            "get_state" | "set_state" => {
                if let Some(c) = ctxs.get(&cid) {
                    if op == "set_state" {
                        let text = st["state"].to_string();
                        if let Err(p) = guarded(|| c.verif_set_state(&text)) {
                            r.insert("panic".into(), json!(p));
                        }
                    }
                    match guarded(|| c.verif_get_state()) {
                        Ok(t) => {
                            r.insert("state".into(), serde_json::from_str(&t).unwrap_or(Value::Null));
                        }
                        Err(p) => {
                            r.insert("panic".into(), json!(p));
                        }
                    }
                } else {
                    r.insert("error".into(), json!("no such context"));
                }
            }
            "key" | "backspace" | "commit" | "finish" | "ongoing" => {
                if let Some(c) = ctxs.get(&cid) {
                    match op {
                        "key" => {
                            let key = st["key"].as_u64().unwrap_or(0) as u16;
                            let m = st.get("mod").and_then(|x| x.as_u64()).unwrap_or(0) as u8;
                            let sel = st.get("sel").and_then(|x| x.as_u64()).unwrap_or(0) as u8;
                            match guarded(|| c.get_suggestion_for_key(key, m, sel)) {
                                Ok(s) => {
                                    r.insert("suggestion".into(), render(&s));
                                }
                                Err(p) => {
                                    r.insert("panic".into(), json!(p));
                                }
                            }
                        }
                        "backspace" => {
                            let ctrl = b(st, "ctrl", false);
                            match guarded(|| c.backspace_event(ctrl)) {
                                Ok(s) => {
                                    r.insert("suggestion".into(), render(&s));
                                }
                                Err(p) => {
                                    r.insert("panic".into(), json!(p));
                                }
                            }
                        }
                        "commit" => {
                            let idx = st["index"].as_u64().unwrap_or(0) as usize;
                            if let Err(p) = guarded(|| c.candidate_committed(idx)) {
                                r.insert("panic".into(), json!(p));
                            }
                        }
                        "finish" => {
                            if let Err(p) = guarded(|| c.finish_input_session()) {
                                r.insert("panic".into(), json!(p));
                            }
                        }
                        _ => {}
                    }
                    match guarded(|| c.ongoing_input_session()) {
                        Ok(v) => {
                            r.insert("ongoing".into(), json!(v));
                        }
                        Err(p) => {
                            r.insert("ongoing_panic".into(), json!(p));
                        }
                    }
                } else {
                    r.insert("error".into(), json!("no such context"));
                }
            }
            "split" => {
                let t = st["text"].as_str().unwrap_or("").to_string();
                let colon = b(st, "colon", false);
                let quote = b(st, "smart_quote", false);
                match guarded(|| riti::context::verif_split(&t, colon, quote)) {
                    Ok((a, w, c)) => {
                        r.insert("parts".into(), json!([a, w, c]));
                    }
                    Err(p) => {
                        r.insert("panic".into(), json!(p));
                    }
                }
            }
            "suggestion_new" => {
                // Build a Suggestion value directly through the public constructors.
                use riti::suggestion::Rank;
                let ansi = b(st, "ansi", false);
                let res = if let Some(t) = st.get("single").and_then(|x| x.as_str()) {
                    guarded(|| Suggestion::new_lonely(t.to_string(), ansi))
                } else if st.get("empty").is_some() {
                    guarded(Suggestion::empty)
                } else {
                    let items: Vec<Rank> = st["items"]
                        .as_array()
                        .unwrap_or(&Vec::new())
                        .iter()
                        .map(|it| {
                            let kind = it[0].as_u64().unwrap_or(0);
                            let text = it[1].as_str().unwrap_or("").to_string();
                            let n = it[2].as_u64().unwrap_or(0) as u8;
                            match kind {
                                0 => Rank::First(text),
                                1 => Rank::Emoji(text, n),
                                2 => Rank::Other(text, n),
                                _ => Rank::Last(text, n),
                            }
                        })
                        .collect();
                    let aux = st["aux"].as_str().unwrap_or("").to_string();
                    let sel = st["sel"].as_u64().unwrap_or(0) as usize;
                    guarded(|| Suggestion::new(aux, &items, sel, ansi))
                };
                match res {
                    Ok(s) => {
                        r.insert("suggestion".into(), render(&s));
                    }
                    Err(p) => {
                        r.insert("panic".into(), json!(p));
                    }
                }
            }
            // ---- third-party oracles on concrete arguments ----
            "okkhor" => {
                let t = st["text"].as_str().unwrap_or("").to_string();
                match guarded(|| okkhor::parser::Parser::new_phonetic().convert(&t)) {
                    Ok(s) => {
                        r.insert("text".into(), json!(s));
                    }
                    Err(p) => {
                        r.insert("panic".into(), json!(p));
                    }
                }
            }
            "bijoy" => {
                let t = st["text"].as_str().unwrap_or("").to_string();
                match guarded(|| poriborton::bijoy2000::unicode_to_bijoy(&t)) {
                    Ok(s) => {
                        r.insert("text".into(), json!(s));
                    }
                    Err(p) => {
                        r.insert("panic".into(), json!(p));
                    }
                }
            }
            "emoticon" => {
                let t = st["text"].as_str().unwrap_or("");
                let e = emojicon::Emojicon::new();
                r.insert("emoji".into(), json!(e.get_by_emoticon(t)));
            }
            "emoji_tables" => {
                let to_map = |m: std::collections::HashMap<&'static str, &'static [&'static str]>| -> Value {
                    let mut o = Map::new();
                    for (k, v) in m.iter() {
                        o.insert(k.to_string(), json!(v));
                    }
                    Value::Object(o)
                };
                let mut o = Map::new();
                for (k, v) in emojicon::internal::emoticons().iter() {
                    o.insert(k.to_string(), json!(v));
                }
                r.insert("emoticons".into(), Value::Object(o));
                r.insert("names".into(), to_map(emojicon::internal::emojis()));
                r.insert("bengali".into(), to_map(emojicon::internal::bn_emojis()));
            }
            "emoji_name" => {
                let t = st["text"].as_str().unwrap_or("");
                let e = emojicon::Emojicon::new();
                let v: Option<Vec<String>> = e.get_by_name(t).map(|i| i.map(|s| s.to_string()).collect());
                r.insert("emoji".into(), json!(v));
            }
            "ffi_cycle" => {
                // warm-up run(s) first so that lazily initialised statics do not count, then one measured run
                match build_config(&st["config"], &mut env) {
                    Err(e) => {
                        r.insert("error".into(), json!(e));
                    }
                    Ok(cfg) => {
                        let mut mism: Vec<String> = Vec::new();
                        let mut nstrings = 0usize;
                        let warm = st.get("warmups").and_then(|x| x.as_u64()).unwrap_or(2);
                        let mut failed = None;
                        for _ in 0..warm {
                            let mut m2 = Vec::new();
                            let mut n2 = 0usize;
                            if let Err(p) = guarded(|| unsafe { ffi_cycle_once(&cfg, st, &mut env, &mut m2, &mut n2) }) {
                                failed = Some(p);
                            }
                        }
                        mism.reserve(64);
                        let b0 = LIVE_BLOCKS.load(std::sync::atomic::Ordering::SeqCst);
                        let y0 = LIVE_BYTES.load(std::sync::atomic::Ordering::SeqCst);
                        let res = guarded(|| unsafe { ffi_cycle_once(&cfg, st, &mut env, &mut mism, &mut nstrings) });
                        let b1 = LIVE_BLOCKS.load(std::sync::atomic::Ordering::SeqCst);
                        let y1 = LIVE_BYTES.load(std::sync::atomic::Ordering::SeqCst);
                        if let Err(p) = res {
                            failed = Some(p);
                        }
                        if let Some(p) = failed {
                            r.insert("panic".into(), json!(p));
                        }
                        // the mismatch messages themselves are allocations of this driver: subtract them
                        let own: isize = mism.iter().map(|m| m.capacity() as isize).sum();
                        r.insert("net_blocks".into(), json!(b1 - b0 - mism.len() as isize));
                        r.insert("net_bytes".into(), json!(y1 - y0 - own));
                        r.insert("strings".into(), json!(nstrings));
                        r.insert("mismatches".into(), json!(mism));
                    }
                }
            }
            "emoji_bengali" => {
                let t = st["text"].as_str().unwrap_or("");
                let e = emojicon::BengaliEmoji::new();
                let v: Option<Vec<String>> = e.get(t).map(|i| i.map(|s| s.to_string()).collect());
                r.insert("emoji".into(), json!(v));
            }
            _ => {
                r.insert("error".into(), json!(format!("unknown op {}", op)));
            }
        }
        out.push(Value::Object(r));
    }
    drop(ctxs);
    // restore permissions so that the scratch directory can be removed
    {
        use std::os::unix::fs::PermissionsExt;
        let _ = std::fs::set_permissions(&env.user_dir, std::fs::Permissions::from_mode(0o755));
    }
    for f in &env.tmp_files {
        let _ = std::fs::remove_file(f);
    }
    json!({"id": id, "results": out})
}

fn main() {
    std::panic::set_hook(Box::new(|info| {
        let msg = if let Some(s) = info.payload().downcast_ref::<&str>() {
            s.to_string()
        } else if let Some(s) = info.payload().downcast_ref::<String>() {
            s.clone()
        } else {
            "panic".to_string()
        };
        let loc = info
            .location()
            .map(|l| format!("{}:{}", l.file(), l.line()))
            .unwrap_or_default();
        if let Ok(mut g) = LAST_PANIC.lock() {
            *g = Some(format!("{} @ {}", msg, loc));
        }
    }));
    start_watchdog();
    let args: Vec<String> = std::env::args().collect();
    let input: Box<dyn BufRead> = if args.len() > 1 {
        Box::new(std::io::BufReader::new(std::fs::File::open(&args[1]).expect("open scenario file")))
    } else {
        Box::new(std::io::BufReader::new(std::io::stdin()))
    };
    let stdout = std::io::stdout();
    let mut w = std::io::BufWriter::new(stdout.lock());
    for line in input.lines() {
        let line = match line {
            Ok(l) => l,
            Err(_) => break,
        };
        if line.trim().is_empty() {
            continue;
        }
        let res = match serde_json::from_str::<Value>(&line) {
            Ok(sc) => run_scenario(&sc),
            Err(e) => json!({"error": format!("bad scenario json: {}", e)}),
        };
        let _ = writeln!(w, "{}", res);
        let _ = w.flush();
    }
}
