#!/usr/bin/env python3
"""Run checks against seeded changes WITHOUT touching /repo: every seed gets a scratch worktree of /repo (patch applied) and a scratch
copy of /verif (replay driver re-pointed at the worktree, VERIF_REPO set), so several seeds can be tried at once.
The verdicts registered in MANIFEST.json never come from here; this is test tooling for the machinery itself.

usage: par_seed.py [-j N] [--tier quick|thorough] [--update-meta] <seed>[:<check>,<check>...] ...
       par_seed.py --all [-j N]          (every directory under /verif/seeded, its own property's quick check)
"""
import json
import os
import shutil
import subprocess
import sys
import time
from concurrent.futures import ThreadPoolExecutor

REPO = "/repo"
VERIF = "/verif"
ROOT = "/tmp/parseed"
KEEP = "--keep" in sys.argv      # leave the scratch worktree + copy in place (debugging); remove with --clean <seed>


def sh(cmd, cwd=None, timeout=7200, env=None):
    e = dict(os.environ)
    e["CARGO_NET_OFFLINE"] = "true"
    if env:
        e.update(env)
    try:
        p = subprocess.run(cmd, cwd=cwd, shell=True, stdout=subprocess.PIPE, stderr=subprocess.STDOUT, text=True, timeout=timeout, env=e)
        return p.returncode, p.stdout
    except subprocess.TimeoutExpired as ex:
        return 124, (ex.stdout or b"").decode("utf-8", "replace") if isinstance(ex.stdout, bytes) else (ex.stdout or "")


def patch_of(seed):
    d = os.path.join(VERIF, "seeded", seed)
    for n in ("patch_ported.diff", "patch.diff"):
        if os.path.exists(os.path.join(d, n)):
            return os.path.join(d, n)
    return None


def one(job):
    seed, checks, tier, ncpu = job
    base = os.path.join(ROOT, seed if KEEP else "%s.%d" % (seed, os.getpid()))
    wt = os.path.join(base, "repo")
    vc = os.path.join(base, "verif")
    sh("git -C %s worktree remove --force %s" % (REPO, wt))
    shutil.rmtree(base, ignore_errors=True)
    os.makedirs(base)
    res = {}
    try:
        rc, out = sh("git -C %s worktree add -q --detach %s HEAD" % (REPO, wt))
        if rc != 0:
            return seed, {"error": "worktree: " + out[-300:]}
        if seed != "CLEAN":
            p = patch_of(seed)
            rc, out = sh("git apply %s" % p, cwd=wt)
            if rc != 0:
                return seed, {"error": "patch does not apply: " + out[-300:]}
        rc, out = sh("rsync -a --exclude .git --exclude seeded --exclude replays --exclude __pycache__ --exclude 'riti.*.mir' %s/ %s/" % (VERIF, vc))
        sh("sed -i 's#path = \"/repo\"#path = \"%s\"#' %s/replay/Cargo.toml" % (wt, vc))
        env = {"VERIF_REPO": wt, "VERIF_NCPU": str(ncpu)}
        for c in checks:
            t0 = time.time()
            rc, out = sh("./check %s --tier %s" % (c, tier), cwd=vc, env=env)
            lines = [l for l in out.splitlines() if l.startswith(("VIOLATION", "  what:", "INCONCLUSIVE", "KNOWN-FINDING"))]
            res[c] = dict(exit=rc, seconds=round(time.time() - t0), lines=[l[:600] for l in lines[:8]])
            with open(os.path.join(ROOT, "%s.%s.log" % (seed, c)), "w") as f:
                f.write(out)
    finally:
        if not KEEP:
            sh("git -C %s worktree remove --force %s" % (REPO, wt))
            shutil.rmtree(base, ignore_errors=True)
    return seed, res


def main():
    argv = sys.argv[1:]
    j = 3
    tier = "quick"
    if "-j" in argv:
        i = argv.index("-j")
        j = int(argv[i + 1])
        del argv[i:i + 2]
    if "--tier" in argv:
        i = argv.index("--tier")
        tier = argv[i + 1]
        del argv[i:i + 2]
    if "--clean" in argv:
        for a in argv[argv.index("--clean") + 1:]:
            sh("git -C %s worktree remove --force %s" % (REPO, os.path.join(ROOT, a, "repo")))
            shutil.rmtree(os.path.join(ROOT, a), ignore_errors=True)
        return 0
    update = "--update-meta" in argv
    allseeds = "--all" in argv
    argv = [a for a in argv if not a.startswith("--")]
    jobs = []
    ncpu = max(2, 16 // j)
    if allseeds:
        for s in sorted(os.listdir(os.path.join(VERIF, "seeded"))):
            if os.path.isdir(os.path.join(VERIF, "seeded", s)):
                jobs.append((s, [s.split("-")[0]], tier, ncpu))
    for a in argv:
        s, _, cs = a.partition(":")
        jobs.append((s, cs.split(",") if cs else [s.split("-")[0]], tier, ncpu))
    os.makedirs(ROOT, exist_ok=True)
    with ThreadPoolExecutor(max_workers=j) as ex:
        for seed, res in ex.map(one, jobs):
            print(seed, json.dumps(res, ensure_ascii=False)[:1200], flush=True)
            if update and seed != "CLEAN" and "error" not in res:
                mp = os.path.join(VERIF, "seeded", seed, "meta.json")
                meta = json.load(open(mp))
                meta.setdefault("checks_run", {}).update({k + ":" + tier: v for k, v in res.items()})
                det = set(meta.get("detected_by", []))
                for k, v in res.items():
                    if v.get("exit") == 1:
                        det.add(k)
                    else:
                        det.discard(k)
                meta["detected_by"] = sorted(det)
                json.dump(meta, open(mp, "w"), ensure_ascii=False, indent=1)
    return 0


if __name__ == "__main__":
    sys.exit(main())
