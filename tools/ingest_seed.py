#!/usr/bin/env python3
"""Re-verify a seeded change delivered in <dir> (patch.diff demo.diff meta.json) in a scratch worktree and keep it as
/verif/seeded/<name>/ when all three facts hold (suite 43/43 with it, demo passes without / fails with it). /repo is not touched.
usage: ingest_seed.py <dir> <name>"""
import json
import os
import shutil
import sys

sys.path.insert(0, os.path.dirname(os.path.abspath(__file__)))
import try_seed


def main():
    src, name = sys.argv[1], sys.argv[2]
    dst = os.path.join("/verif/seeded", name)
    os.makedirs(dst, exist_ok=True)
    for f in ("patch.diff", "demo.diff", "meta.json"):
        shutil.copyfile(os.path.join(src, f), os.path.join(dst, f))
    meta = json.load(open(os.path.join(dst, "meta.json")))
    v = try_seed.verify(dst, name)
    meta["verified_by_me"] = v
    json.dump(meta, open(os.path.join(dst, "meta.json"), "w"), ensure_ascii=False, indent=1)
    print(name, "verify:", json.dumps(v))
    if not v.get("ok"):
        print("NOT KEPT as confirmed")
        return 1
    return 0


if __name__ == "__main__":
    sys.exit(main())
