#!/bin/bash
# usage: fix_commit.sh <message-file>   -- commits /repo's working tree only if the unedited suite passes (43 tests)
set -e
cd /repo
out=$(cargo test --offline 2>&1 || true)
if echo "$out" | grep -q "test result: ok. 43 passed; 0 failed"; then
  git commit -qa -F "$1"
  git log --oneline | head -1
else
  echo "$out" | grep -E "FAILED|failed|panicked|^error" | head -10
  echo "NOT COMMITTED: test suite does not pass"
  exit 1
fi
