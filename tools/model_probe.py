#!/usr/bin/env python3
"""Validation of the executor's std models that the pinned tree does not exercise: a probe module (tools/probe/verif_probe.rs) is added to a
scratch worktree of /repo, compiled, run natively (cargo test) and executed from its MIR on the same concrete inputs; every result must
agree. Development tool (not a registered check): run it after touching lib/mirsym/models.py.   usage: python3-vt tools/model_probe.py"""
import os
import re
import shutil
import subprocess
import sys

sys.path.insert(0, "/verif/lib")
sys.path.insert(0, "/verif/spec")
from common import NIGHTLY, REPO, VERIF  # noqa: E402
from mirsym.interp import Explorer, PanicPath  # noqa: E402
from mirsym.models import Models  # noqa: E402
from mirsym.program import Program  # noqa: E402
from mirsym.values import Agg, SString, Str, is_sym  # noqa: E402

WT = "/tmp/riti-probe"
TARGET = "/tmp/riti-probe-target"
INPUTS = ["", "a", "ab", "abz", "xxaxbx", "12ab3", "a,bb,a,ccc", "AbC", "abc", "k:v:w", " \t pad \n", "aab", "bab", "ঁকab", "zz"]


def sh(cmd, cwd, env=None):
    e = dict(os.environ, CARGO_NET_OFFLINE="true")
    e.update(env or {})
    p = subprocess.run(cmd, cwd=cwd, env=e, stdout=subprocess.PIPE, stderr=subprocess.STDOUT)
    return p.returncode, p.stdout.decode("utf-8", "replace")


def unescape(s):
    out, i = [], 0
    while i < len(s):
        if s[i] != "\\":
            out.append(s[i])
            i += 1
            continue
        c = s[i + 1]
        if c == "u":
            j = s.index("}", i)
            out.append(chr(int(s[i + 3:j], 16)))
            i = j + 1
            continue
        out.append({"n": "\n", "t": "\t", "r": "\r", "0": "\0", "\\": "\\", "\"": "\"", "'": "'"}[c])
        i += 2
    return "".join(out)


def parse_debug(t):
    t = t.strip()
    if t == "None":
        return None
    if t.startswith("Some(") and t.endswith(")"):
        return ("Some", parse_debug(t[5:-1]))
    if t in ("true", "false"):
        return t == "true"
    if t.startswith('"') and t.endswith('"'):
        return unescape(t[1:-1])
    if t.startswith("'") and t.endswith("'"):
        return ("char", unescape(t[1:-1]))
    return int(t)


def to_py(v):
    from mirsym.models import deref
    v = deref(v)
    if isinstance(v, (Str, SString)):
        return "".join(chr(to_py(c)) for c in v.elems)
    if isinstance(v, Agg) and v.kind == "adt:Option":
        return None if v.variant == 0 else ("Some", to_py(v.fields[0]))
    if isinstance(v, bool):
        return v
    if is_sym(v):
        import z3
        r = z3.simplify(v)
        if z3.is_true(r) or z3.is_false(r):
            return z3.is_true(r)
        return r.as_long()
    return v


def main():
    subprocess.run(["git", "-C", REPO, "worktree", "remove", "--force", WT], stdout=subprocess.DEVNULL, stderr=subprocess.DEVNULL)
    shutil.rmtree(WT, ignore_errors=True)
    rc, out = sh(["git", "-C", REPO, "worktree", "add", "--detach", WT, "HEAD"], cwd="/")
    assert rc == 0, out
    try:
        if os.path.exists(os.path.join(REPO, "Cargo.lock")):
            shutil.copy(os.path.join(REPO, "Cargo.lock"), WT)
        shutil.copy(os.path.join(VERIF, "tools", "probe", "verif_probe.rs"), os.path.join(WT, "src", "verif_probe.rs"))
        with open(os.path.join(WT, "src", "lib.rs"), "a") as f:
            f.write("\npub mod verif_probe;\n")
        rc, out = sh(["cargo", "test", "--offline", "--lib", "probe_native", "--", "--nocapture"], cwd=WT, env={"CARGO_TARGET_DIR": TARGET})
        native = {}
        for line in out.split("\n"):
            if line.startswith("PROBE\t"):
                _, name, arg, res = line.split("\t", 3)
                native[(name, arg)] = parse_debug(res)
        assert native, out[-3000:]
        rc, out = sh(["cargo", "+" + NIGHTLY, "rustc", "--offline", "--lib", "--", "-Zunpretty=mir", "-C", "debug-assertions=off", "-C", "overflow-checks=on", "-Awarnings"],
                     cwd=WT, env={"CARGO_TARGET_DIR": TARGET + "-mir"})
        assert rc == 0, out[-3000:]
        text = out[out.find("// WARNING: This output format"):]
        prog = Program(text, WT)
        models = Models()
        bad, good, unsupported = [], 0, {}
        for (name, arg), want in sorted(native.items()):
            try:
                fn = prog.find_fn(name)
            except Exception:
                fn = None
            if fn is None:
                bad.append((name, arg, "function not found in the MIR dump"))
                continue
            parts = arg.split(",")
            if name in ("p_saturating", "q_wrapping", "r_int_ops", "r_int_map"):
                args = [int(parts[0])]
            else:
                args = [Str([ord(c) for c in INPUTS[int(parts[0])]])] + [int(x) for x in parts[1:]]
            ex = Explorer(prog, models)
            got = []

            def build(st, it, fn=fn, args=args):
                return lambda: it.call_function(fn, list(args))

            def on_path(st, it, out):
                got.append(("panic", out[1].message) if out[0] == "panic" else to_py(out[1]))
                return []
            ex.explore(build, on_path)
            if ex.errors:
                unsupported.setdefault(name, ex.errors[0])
                continue
            g = got[0] if len(got) == 1 else got
            w = want
            if isinstance(w, tuple) and w[0] == "Some" and isinstance(w[1], tuple) and w[1][0] == "char":
                w = ("Some", ord(w[1][1]))
            if g != w:
                bad.append((name, arg, "native %r executor %r" % (w, g)))
            else:
                good += 1
        print("agree: %d   disagree: %d   refused: %d functions" % (good, len(bad), len(unsupported)))
        for b in bad[:40]:
            print("  DISAGREE", b)
        for k, v in sorted(unsupported.items()):
            print("  REFUSED", k, v[:200])
        return 1 if bad else 0
    finally:
        subprocess.run(["git", "-C", REPO, "worktree", "remove", "--force", WT], stdout=subprocess.DEVNULL, stderr=subprocess.DEVNULL)
        shutil.rmtree(WT, ignore_errors=True)
        shutil.rmtree(TARGET, ignore_errors=True)
        shutil.rmtree(TARGET + "-mir", ignore_errors=True)


if __name__ == "__main__":
    sys.exit(main())
