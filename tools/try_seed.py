#!/usr/bin/env python3
"""Verify a seeded change (compiles, suite passes, demo fails with it / passes without) in a scratch worktree, keep it under
/verif/seeded/<name>/, then run the named checks against /repo with the patch applied and undo it straight afterwards.

usage: try_seed.py <dir with patch.diff demo.diff meta.json> <name> <check id> [<check id> ...] [--skip-verify]
"""
import json
import os
import shutil
import subprocess
import sys
import time

REPO = "/repo"
VERIF = "/verif"


def sh(cmd, cwd=None, timeout=3600, env=None):
    e = dict(os.environ)
    e["CARGO_NET_OFFLINE"] = "true"
    if env:
        e.update(env)
    p = subprocess.run(cmd, cwd=cwd, shell=True, stdout=subprocess.PIPE, stderr=subprocess.STDOUT, text=True, timeout=timeout, env=e)
    return p.returncode, p.stdout


def verify(src, name):
    wt = "/tmp/seedverify-%s" % name
    sh("git -C %s worktree remove --force %s" % (REPO, wt))
    rc, out = sh("git -C %s worktree add -q --detach %s HEAD" % (REPO, wt))
    if rc != 0:
        return dict(ok=False, why="worktree: " + out[-300:])
    env = {"CARGO_TARGET_DIR": os.path.join(wt, "target")}
    res = dict(ok=False)
    try:
        rc, out = sh("git apply %s/demo.diff" % src, cwd=wt)
        if rc != 0:
            return dict(ok=False, why="demo.diff does not apply: " + out[-300:])
        rc, out = sh("cargo test --offline seed_demo 2>&1 | grep -E 'test result' | head -1", cwd=wt, env=env)
        res["demo_without_patch"] = out.strip()
        sh("git checkout -- . && git clean -fdq -e target", cwd=wt)
        rc, out = sh("git apply %s/patch.diff" % src, cwd=wt)
        if rc != 0:
            return dict(ok=False, why="patch.diff does not apply: " + out[-300:])
        rc, out = sh("cargo test --offline 2>&1 | grep -E 'test result' | head -1", cwd=wt, env=env)
        res["suite_with_patch"] = out.strip()
        rc, out = sh("git apply %s/demo.diff" % src, cwd=wt)
        rc, out = sh("cargo test --offline seed_demo 2>&1 | grep -E 'test result|stack overflow|SIGABRT|signal: ' | head -2 | tr '\\n' ' '", cwd=wt, env=env)
        res["demo_with_patch"] = out.strip()
        if "test result" not in res["demo_with_patch"] and ("stack overflow" in res["demo_with_patch"] or "SIGABRT" in res["demo_with_patch"] or "signal: " in res["demo_with_patch"]):
            res["demo_with_patch"] = "FAILED (the test process aborted): " + res["demo_with_patch"]
        res["ok"] = ("ok." in res["demo_without_patch"] and " 0 failed" in res["demo_without_patch"]
                     and "43 passed; 0 failed" in res["suite_with_patch"] and "FAILED" in res["demo_with_patch"])
        return res
    finally:
        sh("git -C %s worktree remove --force %s" % (REPO, wt))
        shutil.rmtree(wt, ignore_errors=True)


def run_checks(patch, checks, tier="quick"):
    rc, out = sh("git -C %s status --porcelain" % REPO)
    if out.strip():
        return dict(error="/repo is not clean: " + out[:200])
    rc, out = sh("git -C %s apply %s" % (REPO, patch))
    if rc != 0:
        return dict(error="patch does not apply to /repo: " + out[-300:])
    results = {}
    try:
        for c in checks:
            t0 = time.time()
            rc, out = sh("./check %s --tier %s" % (c, tier), cwd=VERIF, timeout=5400)
            lines = [l for l in out.splitlines() if l.startswith(("VIOLATION", "  what:", "INCONCLUSIVE", "KNOWN-FINDING"))]
            results[c] = dict(exit=rc, seconds=round(time.time() - t0), lines=[l[:600] for l in lines[:8]])
    finally:
        sh("git -C %s checkout -- ." % REPO)
    return results


def main():
    args = [a for a in sys.argv[1:] if not a.startswith("--")]
    src, name, checks = args[0], args[1], args[2:]
    dst = os.path.join(VERIF, "seeded", name)
    os.makedirs(dst, exist_ok=True)
    for f in ("patch.diff", "demo.diff", "meta.json"):
        if os.path.abspath(src) != os.path.abspath(dst):
            shutil.copyfile(os.path.join(src, f), os.path.join(dst, f))
    meta = json.load(open(os.path.join(dst, "meta.json")))
    if "--skip-verify" not in sys.argv:
        v = verify(dst, name)
        meta["verified_by_me"] = v
        print("verify:", json.dumps(v))
        if not v.get("ok"):
            json.dump(meta, open(os.path.join(dst, "meta.json"), "w"), ensure_ascii=False, indent=1)
            print("NOT KEPT as confirmed")
            return 1
    tier = "thorough" if "--thorough" in sys.argv else "quick"
    r = run_checks(os.path.join(dst, "patch.diff"), checks, tier)
    meta.setdefault("checks_run", {}).update({k + ":" + tier: v for k, v in r.items()} if "error" not in r else {"error": r["error"]})
    meta["detected_by"] = sorted(set(meta.get("detected_by", []) + [k for k, v in r.items() if isinstance(v, dict) and v.get("exit") == 1]))
    json.dump(meta, open(os.path.join(dst, "meta.json"), "w"), ensure_ascii=False, indent=1)
    for k, v in r.items():
        print(k, json.dumps(v, ensure_ascii=False)[:900])
    return 0


if __name__ == "__main__":
    sys.exit(main())
