//! Probe functions for validating the executor's std models (tools/model_probe.py): each is run natively and from MIR on the same inputs.
use std::collections::HashMap;

pub fn p_find_digit(s: &str) -> Option<char> {
    s.chars().find(|c| c.is_ascii_digit())
}
pub fn p_filter_map_sum(s: &str) -> usize {
    s.chars().filter_map(|c| if c.is_ascii_digit() { Some(c as usize - 48) } else { None }).sum()
}
pub fn p_chain(s: &str) -> String {
    s.chars().chain("xy".chars()).collect()
}
pub fn p_take_while(s: &str) -> String {
    s.chars().take_while(|c| c.is_ascii_alphabetic()).collect()
}
pub fn p_skip_while(s: &str) -> String {
    s.chars().skip_while(|c| c.is_ascii_alphabetic()).collect()
}
pub fn p_all_alpha(s: &str) -> bool {
    s.chars().all(|c| c.is_ascii_alphabetic())
}
pub fn p_rposition(s: &str) -> Option<usize> {
    let v: Vec<char> = s.chars().collect();
    v.iter().rposition(|c| *c == 'a')
}
pub fn p_trim_char(s: &str) -> String {
    s.trim_matches('x').to_string()
}
pub fn p_trim_pred(s: &str) -> String {
    s.trim_start_matches(|c: char| c.is_ascii_digit()).to_string()
}
pub fn p_trim_slice(s: &str) -> String {
    s.trim_end_matches(&['a', 'b'][..]).to_string()
}
pub fn p_trim_str(s: &str) -> String {
    let mut o = s.trim_end_matches("ab").to_string();
    o.push('|');
    o.push_str(s.trim_start_matches("a"));
    o
}
pub fn p_trim_ws(s: &str) -> String {
    s.trim().to_string()
}
pub fn p_strip_prefix(s: &str) -> Option<String> {
    s.strip_prefix("ab").map(|x| x.to_string())
}
pub fn p_strip_suffix(s: &str) -> Option<String> {
    s.strip_suffix('z').map(|x| x.to_string())
}
pub fn p_rfind_char(s: &str) -> Option<usize> {
    s.rfind('a')
}
pub fn p_rfind_str(s: &str) -> Option<usize> {
    s.rfind("ab")
}
pub fn p_split_once(s: &str) -> String {
    match s.split_once(':') {
        Some((a, b)) => {
            let mut o = a.to_string();
            o.push('|');
            o.push_str(b);
            o
        }
        None => String::from("-"),
    }
}
pub fn p_split_join(s: &str) -> String {
    let mut o = String::new();
    for w in s.split(',') {
        o.push_str(w);
        o.push('|');
    }
    o
}
pub fn p_lower(s: &str) -> String {
    s.to_ascii_lowercase()
}
pub fn p_eq_ic(s: &str) -> bool {
    s.eq_ignore_ascii_case("AbC")
}
pub fn p_mem_take(s: &str) -> usize {
    let mut a = s.to_string();
    let b = std::mem::take(&mut a);
    b.len() + a.len() * 100
}
pub fn p_mem_replace(s: &str) -> String {
    let mut a = s.to_string();
    let old = std::mem::replace(&mut a, String::from("new"));
    a.push_str(&old);
    a
}
pub fn p_entry(s: &str) -> usize {
    let mut m: HashMap<String, usize> = HashMap::new();
    for w in s.split(',') {
        *m.entry(w.to_string()).or_insert(0) += 1;
    }
    m.get("a").copied().unwrap_or(99)
}
pub fn p_vec_ops(s: &str) -> usize {
    let mut v: Vec<usize> = s.chars().map(|c| c as usize).collect();
    v.reverse();
    if v.len() >= 2 {
        v.swap(0, 1);
    }
    let first = v.first().copied().unwrap_or(0);
    let rest = if v.is_empty() { 0 } else { v.drain(1..).count() };
    first * 1000 + rest * 10 + v.len()
}
pub fn p_saturating(n: usize) -> usize {
    n.saturating_sub(3) + n.checked_sub(5).unwrap_or(1000) + n.abs_diff(7) * 10000
}
pub fn p_peekable(s: &str) -> usize {
    let mut it = s.chars().peekable();
    let mut cnt = 0;
    while let Some(c) = it.next() {
        if let Some(&d) = it.peek() {
            if d == c {
                cnt += 1;
            }
        }
    }
    cnt
}
pub fn p_option_combos(s: &str) -> usize {
    let first = s.chars().next();
    let a = first.or(Some('z')).map_or(0, |c| c as usize);
    let b = first.xor(None).map_or_else(|| 7, |c| c as usize % 10);
    let c = first.zip(s.chars().last()).map_or(0, |(x, y)| (x == y) as usize);
    a * 100 + b * 10 + c
}
pub fn p_max_by_key(s: &str) -> Option<String> {
    s.split(',').max_by_key(|w| w.len()).map(|w| w.to_string())
}
pub fn p_min_by_key(s: &str) -> Option<String> {
    s.split(',').min_by_key(|w| w.len()).map(|w| w.to_string())
}
pub fn p_retain(s: &str) -> String {
    let mut t = s.to_string();
    t.retain(|c| c != 'a');
    t
}
pub fn p_char_boundary(s: &str, n: usize) -> bool {
    s.is_char_boundary(n)
}
pub fn p_vec_retain_contains(s: &str) -> usize {
    let mut v: Vec<char> = s.chars().collect();
    let had = v.contains(&'b') as usize;
    v.retain(|c| *c != 'b');
    let mut w: Vec<char> = Vec::new();
    w.push('q');
    w.append(&mut v);
    had * 100 + w.len() * 10 + v.len()
}
pub fn p_cow(s: &str) -> String {
    let c: std::borrow::Cow<str> = if s.contains('A') { s.chars().map(|c| c.to_ascii_lowercase()).collect() } else { std::borrow::Cow::Borrowed(s) };
    let mut o = c.to_string();
    o.push_str(c.as_ref());
    o
}
pub fn p_flatten(s: &str) -> usize {
    let v: Vec<char> = s.chars().collect();
    let o: Option<&Vec<char>> = if v.is_empty() { None } else { Some(&v) };
    o.into_iter().flatten().count()
}
pub fn p_find_map(s: &str) -> Option<usize> {
    s.chars().find_map(|c| if c.is_ascii_digit() { Some(c as usize - 48) } else { None })
}
pub fn p_ends_with_pred(s: &str) -> bool {
    s.ends_with(|c: char| c.is_ascii_digit())
}

fn res_of(s: &str) -> Result<usize, String> {
    if s.is_empty() {
        Err(String::from("e"))
    } else {
        Ok(s.len())
    }
}
pub fn q_result_combos(s: &str) -> usize {
    let a = res_of(s).map_err(|e| e.len()).unwrap_or_else(|n| n + 50);
    let b = res_of(s).or_else(|e| if e == "e" { Ok::<usize, String>(77) } else { Err(e) }).unwrap_or(0);
    let c = res_of(s).err().map_or(0, |e| e.len());
    let d = res_of(s).map_or(5, |n| n * 2);
    let e = res_of(s).is_ok_and(|n| n > 2) as usize;
    a + b * 100 + c * 10000 + d * 100000 + e * 10000000
}
pub fn q_option_more(s: &str) -> usize {
    let first = s.chars().next();
    let a = first.and(Some(3usize)).unwrap_or(4);
    let b = first.ok_or_else(|| 9usize).unwrap_or_else(|e| e as u32 as u8 as char) as usize % 100;
    let c = first.is_none_or(|c| c == 'a') as usize;
    let mut slot: Option<usize> = None;
    *slot.get_or_insert_with(|| s.len()) += 1;
    let old = slot.replace(40);
    let e = *slot.insert(2) + old.unwrap_or(0);
    let owned: Option<String> = first.map(|c| c.to_string());
    let f = owned.as_deref().map_or(0, |t| t.len());
    a + b * 10 + c * 1000 + e * 10000 + f * 1000000
}
pub fn q_mem_swap(s: &str) -> String {
    let mut a = s.to_string();
    let mut b = String::from("other");
    std::mem::swap(&mut a, &mut b);
    a.push('|');
    a.push_str(&b);
    a
}
pub fn q_map_more(s: &str) -> usize {
    let mut m: HashMap<String, Vec<usize>> = HashMap::new();
    for (i, w) in s.split(',').enumerate() {
        m.entry(w.to_string()).or_default().push(i);
    }
    let mut n: HashMap<String, usize> = HashMap::new();
    for w in s.split(',') {
        n.entry(w.to_string()).and_modify(|x| *x += 10).or_insert_with(|| 1);
    }
    if let Some(v) = n.get_mut("a") {
        *v += 100;
    }
    let removed = n.remove_entry("bb").map_or(0, |(k, v)| k.len() + v);
    let mut extra: HashMap<String, usize> = HashMap::new();
    extra.insert(String::from("zz9"), 5);
    n.extend(extra);
    m.get("a").map_or(0, |v| v.len()) + n.get("a").copied().unwrap_or(0) * 10 + removed * 10000 + n.len() * 100000
}
pub fn q_str_more(s: &str) -> String {
    let mut o = String::new();
    for w in s.rsplit(',') {
        o.push_str(w);
        o.push('<');
    }
    for w in s.split_terminator('a') {
        o.push_str(w);
        o.push('>');
    }
    for w in s.split_whitespace() {
        o.push_str(w);
        o.push('_');
    }
    for w in s.lines() {
        o.push_str(w);
        o.push('/');
    }
    o.push_str(&"ab".repeat(s.len() % 3));
    if let Some((a, b)) = s.rsplit_once(':') {
        o.push_str(b);
        o.push_str(a);
    }
    if s.is_ascii() {
        o.push_str(&s.to_lowercase());
        o.push_str(&s.to_uppercase());
    }
    o
}
pub fn q_string_more(s: &str) -> String {
    let mut a = s.to_string();
    let tail = if a.len() >= 2 && a.is_char_boundary(1) { a.split_off(1) } else { String::new() };
    a.extend(tail.chars().rev());
    a.extend(["x", "y"].iter().copied());
    a
}
pub fn q_vec_more(s: &str) -> usize {
    let mut v: Vec<usize> = s.chars().map(|c| c as usize % 7).collect();
    if let Some(x) = v.first_mut() {
        *x += 1;
    }
    if let Some(x) = v.last_mut() {
        *x += 2;
    }
    if let Some(x) = v.get_mut(1) {
        *x += 3;
    }
    v.resize(4, 9);
    let tail = v.split_off(2);
    let y = v.swap_remove(0);
    v.extend_from_slice(&tail);
    let mut acc = y;
    v.iter().copied().for_each(|x| acc = acc * 10 + x);
    acc
}
pub fn q_wrapping(n: usize) -> usize {
    (n.wrapping_sub(5) % 1000) + ((n as u8).wrapping_sub(9) as usize) * 1000
}
pub fn q_cell(s: &str) -> usize {
    let c = std::cell::Cell::new(s.len());
    c.set(c.get() + 1);
    let old = c.replace(7);
    old * 10 + c.take() + c.get()
}
pub fn q_iter_more(s: &str) -> usize {
    let v: Vec<char> = s.chars().collect();
    let a = v.iter().cloned().filter(|c| c.is_ascii_lowercase()).count();
    let b = v.iter().map(|c| *c as usize).max().unwrap_or(0) % 100;
    let c = v.iter().map(|c| *c as usize).min().unwrap_or(0) % 100;
    let d = v.iter().rev().skip(1).take(2).map(|c| *c as usize % 10).fold(0, |x, y| x * 10 + y);
    a + b * 10 + c * 1000 + d * 100000
}

pub fn r_int_ops(n: usize) -> usize {
    let b = (n % 256) as u8;
    let a = b.saturating_add(200) as usize;
    let c = b.checked_add(100).map(|x| x as usize).unwrap_or(999);
    let d = b.wrapping_add(250) as usize;
    let e = b.saturating_mul(3) as usize;
    let f = b.checked_mul(40).map(|x| x as usize).unwrap_or(777);
    let g = b.wrapping_mul(7) as usize;
    let h = n.saturating_add(5) % 13;
    a + c * 7 + d * 31 + e * 101 + f * 1009 + g * 10007 + h
}
pub fn r_int_map(n: usize) -> usize {
    let table: [(u16, &str); 4] = [(2, "two"), (5, "five"), (9, "nine"), (5, "cinq")];
    let m: HashMap<u16, String> = table.iter().filter_map(|&(c, t)| if c != 9 { Some((c, t.to_string())) } else { None }).collect();
    let mut m2: HashMap<u16, usize> = HashMap::new();
    m2.insert(7, 70);
    m2.insert(n as u16, 1);
    m.get(&(n as u16)).map(|s| s.len()).unwrap_or(0) + m.len() * 10 + m2.len() * 100 + m2.get(&7).copied().unwrap_or(0) * 1000
}
pub fn r_opt_iter_bytes(s: &str) -> usize {
    let o = s.chars().next();
    let a = o.iter().count();
    let b: usize = s.bytes().map(|b| b as usize).sum();
    let c = s.chars().nth(1).map(|c| c as usize).unwrap_or(7);
    a * 1000000 + b * 7 + c
}
pub fn r_u8_class(s: &str) -> usize {
    s.bytes().map(|b| (b.is_ascii_uppercase() as usize) + 2 * (b.is_ascii_digit() as usize) + 4 * (b.is_ascii_punctuation() as usize) + 8 * (b.is_ascii_whitespace() as usize)
        + (b.to_ascii_lowercase() as usize) * 16 + (b.to_ascii_uppercase() as usize)).sum()
}
pub fn r_try_from(s: &str) -> usize {
    let mut acc = 0usize;
    for c in s.chars() {
        acc += match u8::try_from(c) { Ok(b) => b as usize, Err(_) => 1000 };
        acc += u32::from(c) as usize % 7;
        acc += char::from_u32(c as u32 + 1).map(|x| x as usize % 5).unwrap_or(3);
    }
    acc + u8::try_from(s.len() * 40).map(|b| b as usize).unwrap_or(9999) + char::from(65u8) as usize
}
pub fn r_nested_closure(s: &str) -> String {
    let keep = |b: u8| b.is_ascii_uppercase() && !b"XY".contains(&b);
    if s.bytes().any(keep) {
        s.chars().map(|c| match u8::try_from(c) { Ok(b) if keep(b) => c.to_ascii_lowercase(), _ => c }).collect::<String>()
    } else {
        s.to_string()
    }
}
pub fn r_replace(s: &str) -> String {
    let a = s.replace(['a', 'b'], " ");
    let b = s.replace('x', "yy");
    let c = s.replacen(|c: char| c.is_ascii_digit(), "#", 1);
    format!("{}|{}|{}|{}", a, b, c, s.replace("ab", "-"))
}
pub fn r_find_pats(s: &str) -> usize {
    s.find(['a', 'z']).unwrap_or(90) + 100 * s.find('b').unwrap_or(80) + 10000 * s.find(|c: char| c.is_ascii_digit()).unwrap_or(70)
}
pub fn r_clone_from(s: &str) -> String {
    let mut a = String::from("old");
    let b = s.to_string();
    a.clone_from(&b);
    a.push('!');
    a
}
pub fn r_ends_with_slice(s: &str) -> usize {
    (s.ends_with(&['a', 'b'][..]) as usize) + 2 * (s.starts_with(&['x', 'a'][..]) as usize) + 4 * (s.ends_with(['z', 'c']) as usize)
}
pub fn r_default(s: &str) -> usize {
    let m: HashMap<String, String> = Default::default();
    let t: String = Default::default();
    let v: Vec<u8> = Default::default();
    let o: Option<u8> = Default::default();
    m.len() + t.len() + v.len() + o.is_some() as usize + s.len()
}
#[cfg(test)]
mod probe_native {
    use super::*;
    #[test]
    fn probe_native() {
        let inputs = ["", "a", "ab", "abz", "xxaxbx", "12ab3", "a,bb,a,ccc", "AbC", "abc", "k:v:w", " \t pad \n", "aab", "bab", "ঁকab", "zz"];
        for (i, s) in inputs.iter().enumerate() {
            let s: &str = s;
            println!("PROBE\tp_find_digit\t{}\t{:?}", i, p_find_digit(s));
            println!("PROBE\tr_clone_from\t{}\t{:?}", i, r_clone_from(s));
            println!("PROBE\tr_find_pats\t{}\t{:?}", i, r_find_pats(s));
            println!("PROBE\tr_replace\t{}\t{:?}", i, r_replace(s));
            println!("PROBE\tr_nested_closure\t{}\t{:?}", i, r_nested_closure(s));
            println!("PROBE\tr_try_from\t{}\t{:?}", i, r_try_from(s));
            println!("PROBE\tr_u8_class\t{}\t{:?}", i, r_u8_class(s));
            println!("PROBE\tr_opt_iter_bytes\t{}\t{:?}", i, r_opt_iter_bytes(s));
            println!("PROBE\tr_ends_with_slice\t{}\t{:?}", i, r_ends_with_slice(s));
            println!("PROBE\tr_default\t{}\t{:?}", i, r_default(s));
            println!("PROBE\tp_filter_map_sum\t{}\t{:?}", i, p_filter_map_sum(s));
            println!("PROBE\tp_chain\t{}\t{:?}", i, p_chain(s));
            println!("PROBE\tp_take_while\t{}\t{:?}", i, p_take_while(s));
            println!("PROBE\tp_skip_while\t{}\t{:?}", i, p_skip_while(s));
            println!("PROBE\tp_all_alpha\t{}\t{:?}", i, p_all_alpha(s));
            println!("PROBE\tp_rposition\t{}\t{:?}", i, p_rposition(s));
            println!("PROBE\tp_trim_char\t{}\t{:?}", i, p_trim_char(s));
            println!("PROBE\tp_trim_pred\t{}\t{:?}", i, p_trim_pred(s));
            println!("PROBE\tp_trim_slice\t{}\t{:?}", i, p_trim_slice(s));
            println!("PROBE\tp_trim_ws\t{}\t{:?}", i, p_trim_ws(s));
            println!("PROBE\tp_trim_str\t{}\t{:?}", i, p_trim_str(s));
            println!("PROBE\tp_strip_prefix\t{}\t{:?}", i, p_strip_prefix(s));
            println!("PROBE\tp_strip_suffix\t{}\t{:?}", i, p_strip_suffix(s));
            println!("PROBE\tp_rfind_char\t{}\t{:?}", i, p_rfind_char(s));
            println!("PROBE\tp_rfind_str\t{}\t{:?}", i, p_rfind_str(s));
            println!("PROBE\tp_split_once\t{}\t{:?}", i, p_split_once(s));
            println!("PROBE\tp_split_join\t{}\t{:?}", i, p_split_join(s));
            println!("PROBE\tp_lower\t{}\t{:?}", i, p_lower(s));
            println!("PROBE\tp_eq_ic\t{}\t{:?}", i, p_eq_ic(s));
            println!("PROBE\tp_mem_take\t{}\t{:?}", i, p_mem_take(s));
            println!("PROBE\tp_mem_replace\t{}\t{:?}", i, p_mem_replace(s));
            println!("PROBE\tp_entry\t{}\t{:?}", i, p_entry(s));
            println!("PROBE\tp_vec_ops\t{}\t{:?}", i, p_vec_ops(s));
            println!("PROBE\tp_peekable\t{}\t{:?}", i, p_peekable(s));
            println!("PROBE\tp_option_combos\t{}\t{:?}", i, p_option_combos(s));
            println!("PROBE\tp_max_by_key\t{}\t{:?}", i, p_max_by_key(s));
            println!("PROBE\tp_min_by_key\t{}\t{:?}", i, p_min_by_key(s));
            println!("PROBE\tp_retain\t{}\t{:?}", i, p_retain(s));
            println!("PROBE\tp_vec_retain_contains\t{}\t{:?}", i, p_vec_retain_contains(s));
            println!("PROBE\tp_cow\t{}\t{:?}", i, p_cow(s));
            println!("PROBE\tp_flatten\t{}\t{:?}", i, p_flatten(s));
            println!("PROBE\tp_find_map\t{}\t{:?}", i, p_find_map(s));
            println!("PROBE\tp_ends_with_pred\t{}\t{:?}", i, p_ends_with_pred(s));
            println!("PROBE\tq_result_combos\t{}\t{:?}", i, q_result_combos(s));
            println!("PROBE\tq_option_more\t{}\t{:?}", i, q_option_more(s));
            println!("PROBE\tq_mem_swap\t{}\t{:?}", i, q_mem_swap(s));
            println!("PROBE\tq_map_more\t{}\t{:?}", i, q_map_more(s));
            println!("PROBE\tq_str_more\t{}\t{:?}", i, q_str_more(s));
            println!("PROBE\tq_string_more\t{}\t{:?}", i, q_string_more(s));
            println!("PROBE\tq_vec_more\t{}\t{:?}", i, q_vec_more(s));
            println!("PROBE\tq_cell\t{}\t{:?}", i, q_cell(s));
            println!("PROBE\tq_iter_more\t{}\t{:?}", i, q_iter_more(s));
            for n in [0usize, 1, 3, 4] {
                println!("PROBE\tp_char_boundary\t{},{}\t{:?}", i, n, p_char_boundary(s, n));
            }
        }
        for n in [0usize, 2, 3, 5, 7, 9, 100, 56, 86, 156, 255, 300] {
            println!("PROBE\tp_saturating\t{}\t{:?}", n, p_saturating(n));
            println!("PROBE\tq_wrapping\t{}\t{:?}", n, q_wrapping(n));
            println!("PROBE\tr_int_ops\t{}\t{:?}", n, r_int_ops(n));
            println!("PROBE\tr_int_map\t{}\t{:?}", n, r_int_map(n));
        }
    }
}
