#!/usr/bin/env python3
"""Write /verif/seeded/README.md from the meta.json files."""
import glob
import json
import os

rows = []
for d in sorted(glob.glob("/verif/seeded/*/")):
    mp = os.path.join(d, "meta.json")
    if not os.path.exists(mp):
        continue
    m = json.load(open(mp))
    name = os.path.basename(d.rstrip("/"))
    runs = m.get("checks_run", {})
    det = m.get("detected_by", [])
    last = {}
    for k, v in runs.items():
        if isinstance(v, dict):
            last[k] = v
    outcome = []
    for k, v in sorted(last.items()):
        outcome.append("%s: exit %s (%ss)" % (k, v.get("exit"), v.get("seconds")))
    verified = m.get("verified_by_me", {}).get("ok")
    rows.append((name, m.get("property"), (m.get("summary") or "")[:220].replace("\n", " "), (m.get("needs_to_manifest") or "")[:200].replace("\n", " ") if isinstance(m.get("needs_to_manifest"), str) else json.dumps(m.get("needs_to_manifest"))[:200],
                 "yes" if verified else ("n/a" if verified is None else "NO"), ", ".join(det) or "-", "; ".join(outcome), m.get("note", "")))
with open("/verif/seeded/README.md", "w") as f:
    f.write("# Seeded changes\n\nEach directory holds `patch.diff` (the change), `demo.diff` (an in-crate test module that passes without and fails with the change) and `meta.json` "
            "(what it breaks, what it needs to manifest, what was run). All were written by independent sub-agents that saw only the property text and a scratch worktree; "
            "`tools/try_seed.py` re-verified them (suite 43/43 with the patch, demo fails with / passes without) and ran the checks against `/repo` with the patch applied.\n\n"
            "Exit 1 = reported as VIOLATION (caught); exit 2 = the check refused to give a verdict (inconclusive: e.g. the change introduced a std call the executor has no model for); "
            "exit 0 = missed.\n\n")
    f.write("| seed | property | change | needs | re-verified | caught by | last runs | note |\n|---|---|---|---|---|---|---|---|\n")
    for r in rows:
        f.write("| " + " | ".join(str(x).replace("|", "\\|") for x in r) + " |\n")
print("rows", len(rows))
