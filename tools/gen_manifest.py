#!/usr/bin/env python3
"""Generate /verif/MANIFEST.json from the table below (kept in one place so that the file
stays valid while checks are added)."""
import json
import os

HERE = os.path.dirname(os.path.dirname(os.path.abspath(__file__)))

LEVEL_NOTE = ("Trusted base: rustc's MIR / Kani's translation of the crate, the std models of the MIR executor "
              "(validated on every run by replaying path witnesses natively), z3 / CBMC, the oracle contracts "
              "for data sources, the native replay driver. Bounds are printed by the check and stored in the evidence.")

# id -> dict(text, technique, note, thorough)
CLAIMED = {
    "C01": dict(
        text="Bounded model checking of panic-freedom: Kani decides totality of the key table over the published key set; "
             "(being extended) the MIR executor explores every path of the fixed/phonetic method entry points from symbolic "
             "pre-states and asks z3 for a panic path. Counterexamples are replayed against the native build before they are reported.",
        technique="Kani/CBMC SAT over the compiled crate + symbolic execution of rustc MIR with z3",
        ref="DESIGN.md section 5 C01"),
    "C03": dict(
        text="Kani decides that the key->character table equals the table transcribed from the key names for every published key "
             "(all 2^16 codes symbolic, restricted to the published set).",
        technique="Kani/CBMC SAT over the compiled crate",
        ref="DESIGN.md section 5 C03"),
    "C04": dict(
        text="Symbolic execution of the fixed method's key entry point from rustc MIR with key code (2^16), modifier byte (2^8) and "
             "the number-pad option symbolic and the layout file an oracle (consulted entry absent / empty / any 1-2 code points): z3 "
             "decides on every path that exactly the entry named by the key-name table is consulted and exactly its text is composed; "
             "Kani cross-checks the modifier decoding. Every path witness is replayed natively.",
        technique="symbolic execution of rustc MIR with z3 (bounded model checking) + Kani/CBMC kernel",
        ref="DESIGN.md section 5 C04"),
    "C06": dict(
        text="One inductive step per event (key, key without value, backspace with symbolic ctrl, commit, finish) of the fixed method from "
             "an arbitrary pre-state satisfying a stated reachable-state invariant, executed symbolically from MIR; z3 decides that "
             "terminating events leave the freshly-constructed composition state, the flag equals the state, backspace makes progress, "
             "stale scratch candidates are unobservable, and the invariant is preserved. Counterexamples are re-found on API-reachable states.",
        technique="symbolic execution of rustc MIR with z3, inductive invariant step",
        ref="DESIGN.md section 5 C06"),
    "C12": dict(
        text="One key from any composed text (all Unicode scalar values symbolic) with any key value under all 16 helper settings, executed "
             "symbolically from MIR; z3 decides equality with an ordered rule list written from the property text (numeric Unicode classes).",
        technique="symbolic execution of rustc MIR with z3 against a reference rule table",
        ref="DESIGN.md section 5 C12"),
    "C13": dict(
        text="Reph key from any composed text (all scalar values symbolic): z3 decides conservation for every text within the length bound and "
             "placement for every text matching the syllable grammar; option off appends.",
        technique="symbolic execution of rustc MIR with z3 against a syllable-grammar reference",
        ref="DESIGN.md section 5 C13"),
    "C14": dict(
        text="Paired key histories from idle (typewriter order with the option on vs Unicode order with it off) over complete syllable "
             "templates with class-constrained symbolic letters and all 16 settings of the other helpers; z3 decides equality of the final texts "
             "and the pending-sign clauses.",
        technique="symbolic execution of rustc MIR with z3 (paired histories)",
        ref="DESIGN.md section 5 C14"),
    "C07": dict(
        text="Kani runs the real slice::sort over symbolic Rank values from the producible domain and decides the ordering clauses "
             "(First first, dictionary distances non-decreasing, transliteration/English last, no emoji before a distance-0 word, stability).",
        technique="Kani/CBMC SAT over the compiled crate (real std sort, symbolic ranks)",
        ref="DESIGN.md section 5 C07"),
    "C16": dict(
        text="Kani decides the English-masked-by-ANSI switch for all flag values and the read-out law pre-edit = encode(candidate) "
             "iff ANSI for list and single suggestions (encoder replaced by a tagging stub).",
        technique="Kani/CBMC SAT over the compiled crate",
        ref="DESIGN.md section 5 C16"),
    "C19": dict(
        text="Kani with CBMC pointer checks decides the ownership protocol of the config object through the exported functions.",
        technique="Kani/CBMC SAT with pointer checks over the compiled crate",
        ref="DESIGN.md section 5 C19"),
}

NOT_YET = {
    "C02": "check under construction (MIR executor obligations phonetic_key_consistent / fixed_list_consistent); not claimed until it runs",
    "C05": "check under construction (memo transparency step on the MIR executor); not claimed until it runs",
    "C08": "check under construction (suffix join completeness on the MIR executor); not claimed until it runs",
    "C09": "check under construction (learned-choice round trip on the MIR executor); not claimed until it runs",
    "C10": "check under construction (fault oracles for user files on the MIR executor); not claimed until it runs",
    "C11": "check under construction (reload equivalence on the MIR executor); not claimed until it runs",
    "C15": "check under construction (fixed suggestion assembly on the MIR executor); not claimed until it runs",
    "C17": "check under construction (smart-quote kernel and pairing on the MIR executor); not claimed until it runs",
    "C18": "check under construction (emoji assembly on the MIR executor); not claimed until it runs",
}


def main():
    checks = []
    for pid in sorted(CLAIMED):
        c = CLAIMED[pid]
        checks.append(dict(
            property_id=pid,
            quick_cmd="./check %s --tier quick" % pid,
            thorough_cmd="./check %s --tier thorough" % pid,
            evidence_file="evidence/%s.json" % pid,
            replay_cmd_template="./check %s --replay {path}" % pid,
            engine="riti-solver-checks",
            level_claimed=dict(category="model_checking", text=c["text"], design_ref=c["ref"]),
            level_note=c.get("note", LEVEL_NOTE),
            technique=c["technique"],
        ))
    m = dict(
        version=1,
        setup_cmd="./setup.sh",
        hooks=dict(
            guard="cfg(kani) for the Kani harness include; cfg(riti_verif) for the state dump/plant methods used by the native replay driver",
            enable="cargo kani sets cfg(kani), RITI_VERIF_KANI=<staging dir> names the directory of the included harness file; the replay driver is built with RUSTFLAGS=--cfg riti_verif",
            baseline_off_cmd="cd /repo && cargo test --workspace --no-fail-fast --offline",
            source_commits=["8aaf6ef", "b3ec2e9"],
            add_only=True,
        ),
        engines=[
            dict(name="riti-solver-checks", path="check",
                 serves_properties=sorted(CLAIMED),
                 kind_free_text="Kani 0.68/CBMC harnesses compiled into the crate (engine K) and a symbolic executor for rustc MIR "
                                "with z3 (engine M); native replay driver confirms every counterexample"),
        ],
        checks=checks,
        not_applicable=[dict(property_id=k, reason=v) for k, v in sorted(NOT_YET.items()) if k not in CLAIMED],
        notes="Exit codes: 0 held within the printed bounds; 1 + VIOLATION line only for a solver counterexample that reproduced "
              "natively and is not listed in known_findings.json; 2 inconclusive (never a silent pass).",
    )
    with open(os.path.join(HERE, "MANIFEST.json"), "w") as f:
        json.dump(m, f, indent=1)
    print("MANIFEST.json written: %d checks, %d not applicable" % (len(checks), len(m["not_applicable"])))


if __name__ == "__main__":
    main()
