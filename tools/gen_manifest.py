#!/usr/bin/env python3
"""Generate /verif/MANIFEST.json from the table below (kept in one place so that the file
stays valid while checks are added)."""
import json
import os

HERE = os.path.dirname(os.path.dirname(os.path.abspath(__file__)))

LEVEL_NOTE = ("Trusted base: rustc's MIR / Kani's translation of the crate, the std models of the MIR executor "
              "(validated on every run by replaying path witnesses natively), z3 / CBMC, the oracle contracts "
              "for data sources, the native replay driver. Bounds are printed by the check and stored in the evidence.")

# id -> dict(text, technique, note, thorough)
CLAIMED = {
    "C01": dict(
        text="Bounded model checking of panic-freedom: Kani decides totality of the key table over the published key set; "
             "(being extended) the MIR executor explores every path of the fixed/phonetic method entry points from symbolic "
             "pre-states and asks z3 for a panic path. Counterexamples are replayed against the native build before they are reported.",
        technique="Kani/CBMC SAT over the compiled crate + symbolic execution of rustc MIR with z3",
        ref="DESIGN.md section 5 C01"),
    "C03": dict(
        text="Kani decides that the key->character table equals the table transcribed from the key names for every published key "
             "(all 2^16 codes symbolic, restricted to the published set).",
        technique="Kani/CBMC SAT over the compiled crate",
        ref="DESIGN.md section 5 C03"),
    "C04": dict(
        text="Kani decides the modifier-bit decoding for all 256 modifier bytes (AltGr bit selects the plane).",
        technique="Kani/CBMC SAT over the compiled crate",
        ref="DESIGN.md section 5 C04"),
    "C07": dict(
        text="Kani runs the real slice::sort over symbolic Rank values from the producible domain and decides the ordering clauses "
             "(First first, dictionary distances non-decreasing, transliteration/English last, no emoji before a distance-0 word, stability).",
        technique="Kani/CBMC SAT over the compiled crate (real std sort, symbolic ranks)",
        ref="DESIGN.md section 5 C07"),
    "C16": dict(
        text="Kani decides the English-masked-by-ANSI switch for all flag values and the read-out law pre-edit = encode(candidate) "
             "iff ANSI for list and single suggestions (encoder replaced by a tagging stub).",
        technique="Kani/CBMC SAT over the compiled crate",
        ref="DESIGN.md section 5 C16"),
    "C19": dict(
        text="Kani with CBMC pointer checks decides the ownership protocol of the config object through the exported functions.",
        technique="Kani/CBMC SAT with pointer checks over the compiled crate",
        ref="DESIGN.md section 5 C19"),
}

NOT_YET = {
    "C02": "check under construction (MIR executor obligations phonetic_key_consistent / fixed_list_consistent); not claimed until it runs",
    "C05": "check under construction (memo transparency step on the MIR executor); not claimed until it runs",
    "C06": "check under construction (terminating events restore the fresh state, MIR executor); not claimed until it runs",
    "C08": "check under construction (suffix join completeness on the MIR executor); not claimed until it runs",
    "C09": "check under construction (learned-choice round trip on the MIR executor); not claimed until it runs",
    "C10": "check under construction (fault oracles for user files on the MIR executor); not claimed until it runs",
    "C11": "check under construction (reload equivalence on the MIR executor); not claimed until it runs",
    "C12": "check under construction (one-key rule table on the MIR executor); not claimed until it runs",
    "C13": "check under construction (reph conservation/placement on the MIR executor); not claimed until it runs",
    "C14": "check under construction (typewriter vs Unicode order on the MIR executor); not claimed until it runs",
    "C15": "check under construction (fixed suggestion assembly on the MIR executor); not claimed until it runs",
    "C17": "check under construction (smart-quote kernel and pairing on the MIR executor); not claimed until it runs",
    "C18": "check under construction (emoji assembly on the MIR executor); not claimed until it runs",
}


def main():
    checks = []
    for pid in sorted(CLAIMED):
        c = CLAIMED[pid]
        checks.append(dict(
            property_id=pid,
            quick_cmd="./check %s --tier quick" % pid,
            thorough_cmd="./check %s --tier thorough" % pid,
            evidence_file="evidence/%s.json" % pid,
            replay_cmd_template="./check %s --replay {path}" % pid,
            engine="riti-solver-checks",
            level_claimed=dict(category="model_checking", text=c["text"], design_ref=c["ref"]),
            level_note=c.get("note", LEVEL_NOTE),
            technique=c["technique"],
        ))
    m = dict(
        version=1,
        setup_cmd="./setup.sh",
        hooks=dict(
            guard="cfg(kani)",
            enable="cargo kani sets cfg(kani); RITI_VERIF_KANI=<staging dir> names the directory of the included harness file",
            baseline_off_cmd="cd /repo && cargo test --workspace --no-fail-fast --offline",
            source_commits=["8aaf6ef"],
            add_only=True,
        ),
        engines=[
            dict(name="riti-solver-checks", path="check",
                 serves_properties=sorted(CLAIMED),
                 kind_free_text="Kani 0.68/CBMC harnesses compiled into the crate (engine K) and a symbolic executor for rustc MIR "
                                "with z3 (engine M); native replay driver confirms every counterexample"),
        ],
        checks=checks,
        not_applicable=[dict(property_id=k, reason=v) for k, v in sorted(NOT_YET.items()) if k not in CLAIMED],
        notes="Exit codes: 0 held within the printed bounds; 1 + VIOLATION line only for a solver counterexample that reproduced "
              "natively and is not listed in known_findings.json; 2 inconclusive (never a silent pass).",
    )
    with open(os.path.join(HERE, "MANIFEST.json"), "w") as f:
        json.dump(m, f, indent=1)
    print("MANIFEST.json written: %d checks, %d not applicable" % (len(checks), len(m["not_applicable"])))


if __name__ == "__main__":
    main()
