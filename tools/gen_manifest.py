#!/usr/bin/env python3
"""Generate /verif/MANIFEST.json from the table below (kept in one place so that the file
stays valid while checks are added)."""
import json
import os

HERE = os.path.dirname(os.path.dirname(os.path.abspath(__file__)))

LEVEL_NOTE = ("Trusted base: rustc's MIR / Kani's translation of the crate, the std models of the MIR executor "
              "(validated on every run by replaying path witnesses natively), z3 / CBMC, the oracle contracts "
              "for data sources, the native replay driver. Bounds are printed by the check and stored in the evidence.")

# id -> dict(text, technique, note, thorough)
CLAIMED = {
    "C01": dict(
        text="Union of panic-freedom obligations, each a bounded model check: Kani decides totality of the key table over all 2^16 codes; the MIR "
             "executor runs every Method entry point of the fixed and the phonetic method (key, backspace, commit, finish), the splitter, the "
             "user-file loading/saving code under a failing environment, the candidate assembly with data oracles (incl. empty stored strings) and "
             "the regex construction from symbolic pre-states satisfying stated invariants, and z3 is asked for a panic path on every path.",
        technique="Kani/CBMC SAT + symbolic execution of rustc MIR with z3 (one inductive step per event)"),
    "C02": dict(
        text="Phonetic method entry points executed from MIR with the candidate assembly replaced by its contract (non-empty list, preselection "
             "inside it): z3 decides list non-empty, preselection < length for a caller byte valid for the previous list, auxiliary text = typed "
             "text; the assembly obligations decide the contract itself; Kani decides the accessor/read-out laws. The list shown after an option change on a warm object is decided non-empty with its preselection inside it.",
        technique="symbolic execution of rustc MIR with z3 + Kani/CBMC kernels"),
    "C03": dict(
        text="Kani: key->character table equals the key-name table. MIR executor: splitter equals the punctuation/word/punctuation reference for "
             "all strings over letters, digits and the 27 punctuation characters within the bound; suggestions-off result is conv(P1)++conv(W)++conv(P2) "
             "with okkhor an uninterpreted function; with suggestions on the transliteration is a candidate on every path of the assembly.",
        technique="Kani/CBMC SAT + symbolic execution of rustc MIR with z3 (okkhor as uninterpreted function)"),
    "C04": dict(
        text="Fixed method key entry point from MIR with key code (2^16), modifier byte (2^8) and number-pad option symbolic and the layout file an "
             "oracle: z3 decides on every path that exactly the entry named by the key-name table is consulted and exactly its text composed; "
             "Kani cross-checks modifier decoding. Every path witness is replayed natively. The same is decided on the layout object the crate's own Layout::parse builds from MIR (one shape per layout key, its two planes absent / empty / any text). A layout change of a live context (new_with_config, key, finish, update_engine to another layout file, key) is executed from MIR with the real constructors and two layout files as oracles, there and back. A key without a value from every session state (idle with the scratch list of an erased word included) changes and shows nothing.",
        technique="symbolic execution of rustc MIR with z3 over the full key space + Kani/CBMC kernel"),
    "C05": dict(
        text="Memo transparency step: suggest() executed twice from MIR on the same object with shared data oracles (first with the memo holding the "
             "proper prefixes only and arbitrary scratch buffers, then warm): z3 decides equal lists and preselection. Every key / backspace of the method returns the assembly's answer for the text as it stands (list and preselection), nothing remembered from an earlier event.",
        technique="symbolic execution of rustc MIR with z3 (paired runs, data oracles)"),
    "C06": dict(
        text="One inductive step per event of the fixed method (and of the phonetic method under the assembly contract) from an arbitrary pre-state "
             "satisfying a stated reachable-state invariant: z3 decides that terminating events leave the freshly-constructed composition state, the "
             "flag equals the state, backspace makes progress, stale scratch candidates are unobservable, and the invariant is preserved.",
        technique="symbolic execution of rustc MIR with z3, inductive invariant step"),
    "C07": dict(
        text="Kani runs the real slice::sort over symbolic Rank values of the producible domain and decides the ordering clauses and stability; the MIR "
             "executor runs the whole phonetic assembly with auto-correct, dictionary, emoji and selection oracles and symbolic distances and z3 decides "
             "the ranking clauses, English-last and no-duplicates on every path; executor and native build agree on concrete typed texts. Every dictionary-derived candidate carries the distance of its dictionary word / of its base. Two re-loads of the user's auto-correct file in a row under a free environment: a file newer than the last successful load is read; after a re-load the entries in force (added, changed, deleted) decide what is first also for memoised words. Rank::new_suggestion from MIR with the edit-distance crate an uninterpreted recording function: a dictionary word carries ten times that function's answer for (transliteration, word).",
        technique="Kani/CBMC SAT (real std sort) + symbolic execution of rustc MIR with z3 (data oracles)"),
    "C08": dict(
        text="Suffix half: add_suffix_to_suggestions/suggest from MIR for a symbolic word with every split point, suffix and memo oracles: z3 decides that "
             "every base candidate of every known base|suffix split appears joined by the reference rules (completeness) on every path. The base alone is run first and every auto-correct / dictionary candidate it was offered must come back joined; every dictionary-class candidate of the whole word must be justified by the table's answer for the tail exactly as typed. Two candidates per base, the first possibly empty.",
        technique="symbolic execution of rustc MIR with z3 against reference joining rules"),
    "C09": dict(
        text="Learn round trip from MIR: suggest -> candidate_committed(any index other than the preselected one) -> suggest again, with data oracles and "
             "concrete punctuation wrappers converted by the real okkhor: z3 decides that the committed text is preselected. The constructor reads the store under every option setting. Words of 2-3 symbolic letters read as learned word + known suffix (table answers and learned choices of every prefix fixed up front): the joined form is preselected whenever offered.",
        technique="symbolic execution of rustc MIR with z3 (multi-step, data oracles)"),
    "C10": dict(
        text="PhoneticMethod::new, update_engine and candidate_committed from MIR with every file-system and serde_json call a nondeterministic oracle "
             "that may fail: z3/path enumeration decides no panic path and the state clauses (unreadable = absent, failed save loses one choice). The candidate assembly is run with empty stored strings as a damaged file can hold them (loaded at start-up or by a re-load). Two re-loads in a row; the map the method holds after a commit keeps every earlier choice.",
        technique="symbolic execution of rustc MIR with fault oracles (bounded model checking of all environment behaviours)"),
    "C11": dict(
        text="Reload step from MIR: type a word, update_engine under a later modification time with a different user auto-correct list (entry present/"
             "absent before and after), type again, and compare with a context created after the edit: z3 decides equal candidate lists. Data::new from MIR gives the same tables for every layout / option setting over one data directory; suggest() on one object under two configurations in a row equals a pristine object under the second; RitiContext from MIR through its own constructor over update histories.",
        technique="symbolic execution of rustc MIR with z3 (paired runs)"),
    "C12": dict(
        text="One key from any composed text (all Unicode scalar values symbolic) with any key value under all 16 helper settings: z3 decides equality "
             "with an ordered rule list written from the property text; where the text is silent the outcome must still be a rule outcome. A plain backspace removes exactly the last code point from any text of any scalar values. "
             "The setting in force: RitiContext::new_with_config, update_engine with every option symbolic (layout file readable or not during the update) and a key, from MIR - the context holds the configuration it was last given.",
        technique="symbolic execution of rustc MIR with z3 against a reference rule table"),
    "C13": dict(
        text="Reph key from any composed text (all scalar values symbolic): z3 decides conservation for every text within the length bound and placement "
             "for every text matching the syllable grammar; option off appends.",
        technique="symbolic execution of rustc MIR with z3 against a syllable-grammar reference"),
    "C14": dict(
        text="Paired key histories from idle (typewriter order with the option on vs Unicode order with it off) over complete syllable templates with "
             "class-constrained symbolic letters and all 16 settings of the other helpers: z3 decides equal final texts and the pending-sign clauses. The suggestion switch is symbolic: every key shows the text composed so far. Independent vowels typed as hasanta + sign after a sign-first syllable.",
        technique="symbolic execution of rustc MIR with z3 (paired histories)"),
    "C15": dict(
        text="Fixed candidate assembly from MIR with the regex search, emoji tables as oracles: z3 decides first candidate = composed text (curled), cap of "
             "nine, English slot, distance order, no duplicates, dictionary candidates are wrapped search answers; the regex pattern built from any word "
             "is anchored with a meta-free literal; Kani runs the real sort_unstable; the dictionary order contract is validated on the data. Arbitrary table entries with the regex engine modelled on the one pattern shape the search builds: whatever is offered begins with the typed word. sort_unstable leaves ties to the environment.",
        technique="symbolic execution of rustc MIR with z3 (data oracles) + Kani/CBMC (real sort_unstable)"),
    "C16": dict(
        text="Kani decides the English-masked-by-ANSI switch and the read-out law pre-edit = encode(candidate) iff ANSI (encoder = tagging stub); the MIR "
             "executor decides for both assemblies that with ANSI on no emoji, emoticon text or raw English reaches the list for any English setting. The ANSI clause is also decided for the list shown after an option change on a warm object. Under ANSI no candidate IS the typed text or an emoji of the tables, whatever rank class it carries (auto-correct oracles included). Kani: after the selection field of a list is moved (as a punctuation key does) the pre-edit text of candidate i is still the encoding of candidate i.",
        technique="Kani/CBMC SAT + symbolic execution of rustc MIR with z3"),
    "C17": dict(
        text="Quoter kernel for all strings within the bound, and paired assembly runs (smart quotes on vs off, same oracles) for both methods: z3 decides "
             "same length, order, preselection and candidate-wise equality after un-curling (raw typed text identical). Learn round trip of quoted words with the switch symbolic. Wrappers in which converted punctuation (escaped colon, explicit hasanta) follows the closing quote.",
        technique="symbolic execution of rustc MIR with z3 (paired runs)"),
    "C18": dict(
        text="Assembly from MIR with emoticon / emoji-name oracles: z3 decides that the emoji of an emoticon is offered and the literal text kept once, "
             "all emoji of a name are offered wrapped and in table order, in both methods; ANSI excludes them. The same after an option change on a warm object. The fixed method's sort_unstable is modelled with every tie the environment's choice: table order of the emoji must not depend on it. Emoticons with a hyphen inside, the table's answer for the text as typed fixed up front.",
        technique="symbolic execution of rustc MIR with z3 (data oracles)"),
    "C19": dict(
        text="Kani with CBMC pointer checks decides the ownership protocol of suggestion, string and config objects through the exported functions "
             "(strings stay valid after the suggestion is freed, bytes + NUL equal the Rust value, null frees are no-ops). The MIR executor runs the context functions of the C interface with the method objects as recording oracles and decides that a context uses its own copy of the caller's Config.",
        technique="Kani/CBMC SAT with pointer checks over the compiled crate + symbolic execution of rustc MIR with z3 (context functions)"),
}

NOT_YET = {}


def main():
    checks = []
    for pid in sorted(CLAIMED):
        c = CLAIMED[pid]
        checks.append(dict(
            property_id=pid,
            quick_cmd="./check %s --tier quick" % pid,
            thorough_cmd="./check %s --tier thorough" % pid,
            evidence_file="evidence/%s.json" % pid,
            replay_cmd_template="./check %s --replay {path}" % pid,
            engine="riti-solver-checks",
            level_claimed=dict(category="model_checking", text=c["text"], design_ref="DESIGN.md section 5 " + pid),
            level_note=c.get("note", LEVEL_NOTE),
            technique=c["technique"],
        ))
    m = dict(
        version=1,
        setup_cmd="./setup.sh",
        hooks=dict(
            guard="cfg(kani) for the Kani harness include; cfg(riti_verif) for the state dump/plant methods used by the native replay driver",
            enable="cargo kani sets cfg(kani), RITI_VERIF_KANI=<staging dir> names the directory of the included harness file; the replay driver is built with RUSTFLAGS=--cfg riti_verif",
            baseline_off_cmd="cd /repo && cargo test --workspace --no-fail-fast --offline",
            source_commits=["8aaf6ef", "b3ec2e9", "2e53133"],
            add_only=True,
        ),
        engines=[
            dict(name="riti-solver-checks", path="check",
                 serves_properties=sorted(CLAIMED),
                 kind_free_text="Kani 0.68/CBMC harnesses compiled into the crate (engine K) and a symbolic executor for rustc MIR "
                                "with z3 (engine M); native replay driver confirms every counterexample"),
        ],
        checks=checks,
        not_applicable=[dict(property_id=k, reason=v) for k, v in sorted(NOT_YET.items()) if k not in CLAIMED],
        notes="Exit codes: 0 held within the printed bounds; 1 + VIOLATION line only for a solver counterexample that reproduced "
              "natively and is not listed in known_findings.json; 2 inconclusive (never a silent pass).",
    )
    with open(os.path.join(HERE, "MANIFEST.json"), "w") as f:
        json.dump(m, f, indent=1)
    print("MANIFEST.json written: %d checks, %d not applicable" % (len(checks), len(m["not_applicable"])))


if __name__ == "__main__":
    main()
