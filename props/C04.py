"""C04: a fixed-layout key emits exactly the text the layout file assigns to it."""
import obl_fixed
import obl_kani


def run(c):
    obl_kani.run(c, ["k_get_modifiers"])
    obl_fixed.obl_layout_key(c, budget_s=1200)
    # the same property on the layout object the crate's own Layout::parse builds from the file content (whatever the representation)
    obl_fixed.obl_layout_table(c, thorough=(c.tier == "thorough"), budget_s=1200 if c.tier == "quick" else 3000)
    # "keys with an empty or missing assignment and keys outside the layout change nothing": from every state, idle ones that still hold the
    # candidate list of an erased word included, with the suggestion list on or off
    c.only_clauses = {"key_without_value_changes_nothing", "stale_scratch_candidates_not_observable", "nonempty_return_means_ongoing"}
    obl_fixed.obl_session_fixed(c, 2, 1, 1, budget_s=600, events=("nokey",))
    c.only_clauses = None
    # "the loaded layout file": also the file loaded by a re-configuration of a live context (fixed layout -> another fixed layout)
    import obl_context
    obl_context.obl_layout_switch(c, budget_s=600)
    c.outside("serde_json's conversion of the layout file into a name -> text map and the content of the bundled Probhat.json; "
              "multi-code-point entries that start with a vowel sign (the helper chain keeps only the sign: recorded, not judged)")
