"""C14: old vowel-sign order typing yields the same text as Unicode-order typing."""
import obl_fixed


def run(c):
    if c.tier == "quick":
        obl_fixed.obl_kar_order(c, False, budget_s=900)
    else:
        obl_fixed.obl_kar_order(c, True, budget_s=3400)
