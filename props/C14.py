"""C14: old vowel-sign order typing yields the same text as Unicode-order typing."""
import obl_fixed


def run(c):
    # "a sign waiting for its consonant ... is discarded by one backspace" / "counts as an ongoing session": one-step obligations
    # ... and no event that ends a word (commit, finish, ctrl-backspace, a backspace that returns nothing) leaves a sign waiting for the next word
    c.only_clauses = {"backspace_discards_only_the_waiting_sign", "flag_matches_state", "nonempty_return_means_ongoing",
                      "ctrl_backspace_clears", "terminating_event_leaves_fresh_state", "empty_return_means_fresh_state"}
    if c.tier == "quick":
        obl_fixed.obl_session_fixed(c, 2, 0, 1, budget_s=900)
    else:
        obl_fixed.obl_session_fixed(c, 3, 1, 2, budget_s=2400)
    c.only_clauses = None
    if c.tier == "quick":
        obl_fixed.obl_kar_order(c, False, budget_s=900)
    else:
        obl_fixed.obl_kar_order(c, True, budget_s=3400)
