"""C03: phonetic output is the Avro transliteration of exactly what was typed."""
import obl_assembly as A
import obl_kani
import obl_phonetic


def run(c):
    import clauses
    c.only_clauses = clauses.OWN["C03"]
    obl_kani.run(c, ["k_keycode_table"])
    obl_phonetic.obl_split(c, 4 if c.tier == "quick" else 5, budget_s=900)
    A.obl_only_phonetic(c, 3 if c.tier == "quick" else 4, budget_s=900)
    A.validate_assembly_concrete(c)     # a mismatch makes the run inconclusive; the obligations still run, and what they find is reported only after native confirmation
    ct = A.conv_table_for([p for w in A.WRAPPERS_QUICK for p in w])
    A.obl_emoji(c, ct, thorough=(c.tier == "thorough"), budget_s=1500)   # carries the clause `transliteration_is_a_candidate` for every wrapper
    # "of exactly what was typed": every event that ends a word leaves nothing of it in the text the next word is converted from
    c.only_clauses = {"terminating_event_clears_composition"}
    obl_phonetic.obl_phonetic_glue(c, 2 if c.tier == "quick" else 3, budget_s=900)
    c.only_clauses = clauses.OWN["C03"]
    c.outside("whether okkhor implements Avro phonetic (okkhor is the oracle by definition); texts longer than the bounds")
