"""C03 (first version: Kani kernels only)."""
import obl_kani


def run(c):
    names = ['k_keycode_table']
    if c.tier == "thorough":
        names = names + THOROUGH
    obl_kani.run(c, names)


THOROUGH = []
