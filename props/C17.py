"""C17: smart quotes curl only the quotes that wrap a word, and nothing else."""
import obl_assembly as A
import obl_phonetic


def run(c):
    import clauses
    c.only_clauses = clauses.OWN["C17"]
    obl_phonetic.obl_split(c, 4 if c.tier == "quick" else 5, budget_s=900)
    A.validate_assembly_concrete(c)     # a mismatch makes the run inconclusive; the obligations still run, and what they find is reported only after native confirmation
    ct = A.conv_table_for([p for w in A.WRAPPERS_QUICK + A.QUOTE_THEN_CONVERTED for p in w])
    A.obl_quote_pair(c, ct, thorough=(c.tier == "thorough"), budget_s=1500)
    A.obl_fixed_assembly(c, thorough=(c.tier == "thorough"), budget_s=1200, mode="quote_pair")
    # "same length, order and preselection": also after a choice was learned for a quoted word
    c.only_clauses = {"learned_choice_is_preselected_next_time"}
    A.obl_learn(c, ct, thorough=(c.tier == "thorough"), budget_s=900, quoted_only=True)
    c.only_clauses = clauses.OWN["C17"]
