"""C17: smart quotes curl only the quotes that wrap a word, and nothing else."""
import obl_phonetic


def run(c):
    obl_phonetic.obl_split(c, 4 if c.tier == "quick" else 5, budget_s=900)
