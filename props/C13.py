"""C13: old-style reph is moved in front of the final conjunct and loses nothing."""
import obl_fixed


def run(c):
    n = 4 if c.tier == "quick" else 6
    obl_fixed.obl_reph(c, n, budget_s=(600 if c.tier == "quick" else 3000))
    c.outside("texts longer than %d code points; key values other than U+09B0 U+09CD for the reph key" % n)
    c.assume("placement clause asserted only for texts matching the syllable grammar of /verif/lib/obl_fixed.py:wellformed "
             "and containing none of the rare letters in spec/classes.py:RARE")
