"""C05: suggestions depend only on the surviving typed text, not on typing history."""
import obl_assembly as A
import obl_phonetic


def run(c):
    import clauses
    c.only_clauses = clauses.OWN["C05"]
    A.validate_assembly_concrete(c)     # a mismatch makes the run inconclusive; the obligations still run, and what they find is reported only after native confirmation
    ct = A.conv_table_for([p for w in A.WRAPPERS_QUICK for p in w])
    A.obl_warm(c, ct, thorough=(c.tier == "thorough"), budget_s=1500)
    q = c.tier == "quick"
    obl_phonetic.obl_phonetic_glue(c, 2 if q else 3, budget_s=900)      # carries `memo_entries_survive_the_event`: no key / backspace / commit / finish drops a memo entry, whatever the memo's size
    A.obl_reload(c, ct, thorough=(c.tier == "thorough"), budget_s=900)       # the user auto-correct list is one of the data files: warm context after a re-load = new context
    c.assume("every proper prefix of the word part that ends in a letter or digit was the word part earlier (typed text only changes at its end) and "
             "no event drops a memo entry (glue clause), so the memo holds the prefixes in a warm and in a fresh context alike")
    c.outside("isolation between two contexts in one process (absence of shared statics in riti and its dependencies is a whole-program "
              "fact, not a bounded input-output property); purity of the regex/dictionary search (oracle contract)")
