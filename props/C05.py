"""C05: suggestions depend only on the surviving typed text, not on typing history."""
import obl_assembly as A


def run(c):
    import clauses
    c.only_clauses = clauses.OWN["C05"]
    if A.validate_assembly_concrete(c):
        ct = A.conv_table_for([p for w in A.WRAPPERS_QUICK for p in w])
        A.obl_warm(c, ct, thorough=(c.tier == "thorough"), budget_s=1500)
    c.assume("every proper prefix of the word part was the word part earlier (typed text only changes at its end), so the memo holds "
             "the prefixes in a warm and in a fresh context alike: argued from the push/pop discipline of the buffer, not solver-checked")
    c.outside("isolation between two contexts in one process (absence of shared statics in riti and its dependencies is a whole-program "
              "fact, not a bounded input-output property); purity of the regex/dictionary search (oracle contract)")
