"""C07: phonetic candidates are ranked best-first by a fixed, explainable order."""
import obl_assembly as A
import obl_kani


def run(c):
    import clauses
    c.only_clauses = clauses.OWN["C07"]
    names = ["k_rank_cmp_antisym", "k_rank_cmp_ignores_text", "k_rank_sort_stable_4", "k_rank_sort_stability"]
    if c.tier == "thorough":
        names += ["k_rank_sort_stable_6"]
    obl_kani.run(c, names, timeout=3000)
    A.validate_assembly_concrete(c)     # a mismatch makes the run inconclusive; the obligations still run, and what they find is reported only after native confirmation
    ct = A.conv_table_for([p for w in A.WRAPPERS_QUICK for p in w])
    A.obl_order(c, ct, thorough=(c.tier == "thorough"), budget_s=1500)
    # "by edit distance from the plain transliteration": the number a dictionary word is ranked by is what the edit-distance function
    # answers for (transliteration, word) - the dictionary search itself is an oracle in the assembly shapes, this is the piece behind it
    A.obl_dictionary_rank(c, budget_s=300)
    # "user entry before bundled entry": the user's list the assembly consults is the file as it can be read now - a file that could not be
    # read earlier is read again as soon as it can be
    import obl_phonetic
    obl_phonetic.obl_userfiles(c, budget_s=600)
    # ... and after an edit of that file picked up by update_engine, the entry in force (added, changed or deleted) is the one that decides
    # what comes first, also for words whose list was memoised before the edit
    A.obl_reload(c, ct, thorough=(c.tier == "thorough"), budget_s=900)
    c.outside("that edit_distance is the edit distance; the content of the dictionary; words longer than the bound; "
              "Rank numbers outside the producible domain (the comparator is not a total order there)")
