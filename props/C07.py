"""C07 (first version: Kani kernels only)."""
import obl_kani


def run(c):
    names = ['k_rank_cmp_antisym', 'k_rank_sort_stable_4', 'k_rank_sort_stability']
    if c.tier == "thorough":
        names = names + THOROUGH
    obl_kani.run(c, names)


THOROUGH = []
