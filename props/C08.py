"""C08: dictionary-derived candidates are justified, and suffix forms are complete."""
import obl_assembly as A


def run(c):
    import clauses
    c.only_clauses = clauses.OWN["C08"]
    A.validate_assembly_concrete(c)     # a mismatch makes the run inconclusive; the obligations still run, and what they find is reported only after native confirmation
    ct = A.conv_table_for([p for w in A.WRAPPERS_QUICK for p in w])
    A.obl_suffix(c, ct, thorough=(c.tier == "thorough"), budget_s=2400)
    c.assume("reference joining rules are silent when the base ends in / the suffix starts with a rare Sanskrit letter (spec/classes.py:RARE)")
    c.outside("'a dictionary word whose spelling matches the Avro pattern of the typed word': the regex engine over 159k words is an oracle")
