"""C12: fixed-layout composition helpers rewrite the text exactly as documented."""
import obl_fixed


def run(c):
    if c.tier == "quick":
        obl_fixed.obl_helpers(c, 3, 2, budget_s=900)
    else:
        obl_fixed.obl_helpers(c, 4, 3, budget_s=3000)
    # "Backspace removes exactly the last code point": the backspace event of the session obligation, text of any scalar values
    # (joiners included), from every invariant-satisfying state
    c.only_clauses = {"backspace_pops_one_code_point"}
    if c.tier == "quick":
        obl_fixed.obl_session_fixed(c, 3, 1, 1, budget_s=600, events=("backspace",))
    else:
        obl_fixed.obl_session_fixed(c, 4, 2, 1, budget_s=1500, events=("backspace",))
    # "... for all 16 settings ...": the setting in force is the one the idle context was last given
    import obl_context
    c.only_clauses = {"configuration_is_replaced", "later_events_see_the_new_configuration"}
    obl_context.obl_context(c, budget_s=300, updates_only=True)
    c.only_clauses = None
    c.assume("reference silent on: rare Sanskrit letters (spec/classes.py:RARE), automatic vowel forming after & ' and danda, "
             "multi-code-point key values whose first character triggers a rule (other than zo-fola)")
