"""C12: fixed-layout composition helpers rewrite the text exactly as documented."""
import obl_fixed


def run(c):
    if c.tier == "quick":
        obl_fixed.obl_helpers(c, 3, 2, budget_s=900)
    else:
        obl_fixed.obl_helpers(c, 4, 3, budget_s=3000)
    c.assume("reference silent on: rare Sanskrit letters (spec/classes.py:RARE), automatic vowel forming after & ' and danda, "
             "multi-code-point key values whose first character triggers a rule (other than zo-fola)")
