"""C10: damaged or missing user files never stop the keyboard from working."""
import obl_phonetic


def run(c):
    import clauses
    c.only_clauses = clauses.OWN["C10"]
    obl_phonetic.obl_userfiles(c, budget_s=900)
    # "entries with empty strings": whatever the loading code lets through reaches the candidate assembly - at start-up or by a re-load
    import obl_assembly as A
    A.obl_empty_strings(c, A.conv_table_for([]), budget_s=600)
    c.outside("serde_json's own behaviour on malformed bytes (contract: it returns Err or a map); Data::new (bundled files, not per-user files)")
