"""C11: re-configuring a live context is equivalent to creating a new one."""
import obl_assembly as A


def run(c):
    import clauses
    c.only_clauses = clauses.OWN["C11"]
    if A.validate_assembly_concrete(c):
        ct = A.conv_table_for([])
        A.obl_reload(c, ct, thorough=(c.tier == "thorough"), budget_s=1200)
    c.outside("equivalence of all later events for arbitrary pairs of layouts needs constructor determinism (file I/O of Method::new / Data::new), "
              "which is outside a bounded input-output query; the context-level switch (layout_changed -> new method object, else update_engine, "
              "config replaced) is read from context.rs and exercised natively by the replay driver only")
