"""C11: re-configuring a live context is equivalent to creating a new one."""
import obl_assembly as A
import obl_context
import obl_phonetic


def run(c):
    import clauses
    c.only_clauses = clauses.OWN["C11"]
    A.validate_assembly_concrete(c)     # a mismatch makes the run inconclusive; the obligations still run, and what they find is reported only after native confirmation
    ct = A.conv_table_for([])
    A.obl_reload(c, ct, thorough=(c.tier == "thorough"), budget_s=1200)
    obl_context.obl_context(c, thorough=(c.tier == "thorough"), budget_s=600)
    obl_context.obl_data(c, budget_s=300)
    # fixed method: the layout object survives an option change with the same layout file; a key pressed after it obeys the new options
    import obl_fixed
    obl_fixed.obl_layout_table(c, thorough=(c.tier == "thorough"), budget_s=900 if c.tier == "quick" else 3000, numpad_rows_only=(c.tier != "thorough"))
    obl_context.obl_layout_switch(c, budget_s=600)
    # phonetic method object kept across an option change: what the next key shows is the assembly's answer under the options now in force
    # (nothing the method itself remembers of an earlier list)
    obl_phonetic.obl_phonetic_glue(c, 2 if c.tier == "quick" else 3, budget_s=900)      # "a changed layout switches method and layout": the real constructors from MIR, two layout files as oracles
    # the method object and its memo survive an option change (update_engine, same layout): the switches are read when a word is shown
    A.obl_reconfig(c, ct, thorough=(c.tier == "thorough"), budget_s=900)
    # the refresh (update_engine) only re-reads the auto-correct list: everything else the constructor loads must not depend on the options
    obl_phonetic.obl_userfiles(c, budget_s=600)
    c.assume("context layer: a method object made by the constructor for a configuration, or told to refresh with it (update_engine), stands for "
             "'what a new context would have'; that the phonetic refresh really brings the object up to date is the reload obligation")
    c.outside("determinism of the constructors themselves (file I/O of PhoneticMethod::new / FixedMethod::new / Data::new); a changed data directory")
