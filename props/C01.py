"""C01: no in-contract sequence of API calls can crash the engine (union of the panic-freedom obligations)."""
import obl_assembly as A
import obl_context
import obl_fixed
import obl_kani
import obl_phonetic


def run(c):
    import clauses
    c.only_clauses = clauses.OWN["C01"]         # the other clauses of these obligations belong to the other properties
    obl_kani.run(c, ["k_keycode_total"])
    q = c.tier == "quick"
    obl_fixed.obl_session_fixed(c, 2 if q else 3, 1 if q else 2, 1 if q else 2, budget_s=900)
    obl_fixed.obl_helpers(c, 2 if q else 3, 2 if q else 3, budget_s=900)
    obl_fixed.obl_reph(c, 3 if q else 5, budget_s=900)
    obl_fixed.obl_layout_key(c, budget_s=900)
    obl_phonetic.obl_split(c, 3 if q else 4, budget_s=600)
    obl_phonetic.obl_phonetic_glue(c, 2 if q else 3, budget_s=900)
    obl_phonetic.obl_userfiles(c, budget_s=600)
    obl_context.obl_context(c, thorough=not q, budget_s=600)
    A.validate_assembly_concrete(c)     # a mismatch makes the run inconclusive; the obligations still run, and what they find is reported only after native confirmation
    ct = A.conv_table_for([])
    A.obl_empty_strings(c, ct, budget_s=900 if q else 3600)
    A.obl_assembly_no_panic(c, ct, thorough=not q, budget_s=900 if q else 5400)
    A.obl_regex_hygiene(c, 2 if q else 3, budget_s=600)
    c.assume("panic-freedom is decided per event from an arbitrary pre-state satisfying the stated invariants (one inductive step covers "
             "histories of any length); candidate assembly runs with the data sources as oracles")
    c.outside("panics inside okkhor, regex (size limit on the pattern of a very long word), poriborton, edit-distance, serde_json, emojicon, ahash; "
              "Data::new; allocation failure; running time (a solver bound says nothing about time blow-up)")
