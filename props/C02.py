"""C02: every returned suggestion is self-consistent and fully retrievable."""
import obl_kani
import obl_phonetic


def run(c):
    import clauses
    c.only_clauses = clauses.OWN["C02"]
    obl_kani.run(c, ["k_suggestion_full_accessors", "k_suggestion_selection_moved", "k_suggestion_single_accessors"])
    obl_phonetic.obl_phonetic_glue(c, 2 if c.tier == "quick" else 3, budget_s=900)
    import obl_fixed
    obl_fixed.obl_session_fixed(c, 2, 1, 1, budget_s=900) if c.tier == "quick" else obl_fixed.obl_session_fixed(c, 3, 2, 2, budget_s=2400)
    # a list shown after an option change on a warm object is as self-consistent as any other: non-empty, preselection inside it
    import obl_assembly as A
    A.obl_reconfig(c, A.conv_table_for([]), thorough=(c.tier == "thorough"), budget_s=900)
