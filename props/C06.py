"""C06: ending a word erases every trace of it; the session flag tells the truth."""
import obl_fixed


def run(c):
    if c.tier == "quick":
        obl_fixed.obl_session_fixed(c, 2, 2, 1, budget_s=900)
    else:
        obl_fixed.obl_session_fixed(c, 3, 3, 2, budget_s=3000)
