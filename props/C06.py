"""C06: ending a word erases every trace of it; the session flag tells the truth."""
import clauses
import obl_fixed
import obl_phonetic


def run(c):
    if c.tier == "quick":
        obl_fixed.obl_session_fixed(c, 2, 2, 1, budget_s=900)
    else:
        obl_fixed.obl_session_fixed(c, 3, 3, 2, budget_s=3000)
    c.only_clauses = clauses.GLUE_C06
    obl_phonetic.obl_phonetic_glue(c, 2 if c.tier == "quick" else 3, budget_s=900)
    c.only_clauses = None
