"""C06: ending a word erases every trace of it; the session flag tells the truth."""
import clauses
import obl_fixed
import obl_phonetic


def run(c):
    if c.tier == "quick":
        obl_fixed.obl_session_fixed(c, 2, 2, 1, budget_s=900)
    else:
        obl_fixed.obl_session_fixed(c, 3, 3, 2, budget_s=3000)
    c.only_clauses = clauses.GLUE_C06
    obl_phonetic.obl_phonetic_glue(c, 2 if c.tier == "quick" else 3, budget_s=900)
    # "behaves from then on exactly like a newly created context": the candidate assembly on an object with a history (memo of any size,
    # stale scratch) against a pristine one
    import obl_assembly as A
    c.only_clauses = {"context_with_history_gives_the_list_of_a_new_one", "context_with_history_gives_the_preselection_of_a_new_one"}
    A.obl_warm(c, A.conv_table_for([]), thorough=(c.tier == "thorough"), budget_s=900)
    c.only_clauses = None
