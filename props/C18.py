"""C18: every emoticon and emoji name in the tables produces its emoji."""
import obl_assembly as A


def run(c):
    import clauses
    c.only_clauses = clauses.OWN["C18"]
    A.validate_assembly_concrete(c)     # a mismatch makes the run inconclusive; the obligations still run, and what they find is reported only after native confirmation
    ct = A.conv_table_for([p for w in A.WRAPPERS_QUICK for p in w])
    A.obl_emoji(c, ct, thorough=(c.tier == "thorough"), budget_s=1500)
    A.obl_fixed_assembly(c, thorough=(c.tier == "thorough"), budget_s=1200)
    c.outside("the walk over the 321 emoticons / 1389 English / 1007 Bengali names of the emojicon tables (enumeration of concrete rows is "
              "not a solver query); the fixed-layout method's Bengali-name path is covered by C15's assembly obligation")
