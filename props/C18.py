"""C18: every emoticon and emoji name in the tables produces its emoji."""
import obl_assembly as A
import obl_fixed


def run(c):
    import clauses
    c.only_clauses = clauses.OWN["C18"]
    A.validate_assembly_concrete(c)     # a mismatch makes the run inconclusive; the obligations still run, and what they find is reported only after native confirmation
    ct = A.conv_table_for([p for w in A.WRAPPERS_QUICK for p in w])
    A.obl_emoji(c, ct, thorough=(c.tier == "thorough"), budget_s=1500)
    A.obl_fixed_assembly(c, thorough=(c.tier == "thorough"), budget_s=1200)
    # the method object and its memo survive an option change (update_engine, same layout): the switches are read when a word is shown
    A.obl_reconfig(c, ct, thorough=(c.tier == "thorough"), budget_s=900)
    # the emoji tables live in `Data`, which a re-configuration never rebuilds: what Data::new loads must not depend on the options
    import obl_context
    obl_context.obl_data(c, budget_s=300)
    # the fixed assembly takes the raw keys as given: that they are the keys of the word in progress (empty when nothing is composed) is the
    # session invariant, preserved by every event
    if c.tier == "quick":
        obl_fixed.obl_session_fixed(c, 2, 2, 1, budget_s=900)
    else:
        obl_fixed.obl_session_fixed(c, 3, 3, 2, budget_s=3000)
    c.outside("the walk over the 321 emoticons / 1389 English / 1007 Bengali names of the emojicon tables (enumeration of concrete rows is "
              "not a solver query); the fixed-layout method's Bengali-name path is covered by C15's assembly obligation")
