"""C16 (first version: Kani kernels only)."""
import obl_kani


def run(c):
    names = ['k_english_mask', 'k_suggestion_full_accessors', 'k_suggestion_single_accessors']
    if c.tier == "thorough":
        names = names + THOROUGH
    obl_kani.run(c, names)


THOROUGH = []
