"""C16: ANSI mode yields pure Bijoy text and never offers what it cannot encode."""
import obl_assembly as A
import obl_kani


def run(c):
    import clauses
    c.only_clauses = clauses.OWN["C16"]
    obl_kani.run(c, ["k_english_mask", "k_suggestion_full_accessors", "k_suggestion_selection_moved", "k_suggestion_single_accessors"])
    A.validate_assembly_concrete(c)     # a mismatch makes the run inconclusive; the obligations still run, and what they find is reported only after native confirmation
    ct = A.conv_table_for([])
    A.obl_emoji(c, ct, thorough=(c.tier == "thorough"), budget_s=1200)      # phonetic: emoticon / emoji name / English under symbolic ANSI
    A.obl_fixed_assembly(c, thorough=(c.tier == "thorough"), budget_s=1200)  # fixed: same switches
    # the method object and its memo survive an option change (update_engine, same layout): the switches are read when a word is shown
    A.obl_reconfig(c, ct, thorough=(c.tier == "thorough"), budget_s=900)
    c.outside("'contains no Bengali-block code point for every dictionary word and suffix-joined form': a statement about poriborton on 159k "
              "concrete strings, not a bounded solver query (the encoder is a tagging stub in the read-out harnesses)")
