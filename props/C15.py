"""C15: fixed-layout suggestions are prefix completions of what was typed."""
import obl_assembly as A
import obl_fixed
import obl_kani


def run(c):
    import clauses
    c.only_clauses = clauses.OWN["C15"]
    # "when the English option is on": the option as the front end last set it, through any history of setter calls
    names = ["k_english_mask", "k_rank_sort_unstable_4"] + (["k_rank_sort_unstable_6"] if c.tier == "thorough" else [])
    obl_kani.run(c, names, timeout=3000)
    A.validate_dictionary_order(c)
    A.obl_regex_hygiene(c, 3 if c.tier == "quick" else 4, budget_s=900)
    A.obl_fixed_search(c, thorough=(c.tier == "thorough"), budget_s=900 if c.tier == "quick" else 3600)
    A.obl_fixed_assembly(c, thorough=(c.tier == "thorough"), budget_s=1200 if c.tier == "quick" else 3600)
    # the assembly takes the raw keys as given; that they are the keys of the word in progress is the session invariant
    if c.tier == "quick":
        obl_fixed.obl_session_fixed(c, 2, 2, 1, budget_s=900)
    else:
        obl_fixed.obl_session_fixed(c, 3, 3, 2, budget_s=3000)
    c.outside("that every regex match over the 159k-word dictionary starts with the typed word (regex engine contract given the anchored, "
              "meta-free pattern that `regex_hygiene` establishes); the first-letter table content")
