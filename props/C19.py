"""C19 (first version: Kani kernels only)."""
import obl_kani


def run(c):
    names = ['k_ffi_suggestion_full', 'k_ffi_suggestion_single', 'k_ffi_config']
    if c.tier == "thorough":
        names = names + THOROUGH
    obl_kani.run(c, names)


THOROUGH = []
