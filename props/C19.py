"""C19: the C interface - pointers valid until freed, strings equal to the Rust values, nothing leaked (Kani kernels over the exported functions)."""
import obl_kani


def run(c):
    names = ['k_ffi_suggestion_full', 'k_ffi_suggestion_single', 'k_ffi_config', 'k_ffi_strings_match_and_are_reclaimed',
             'k_ffi_single_strings_match_and_are_reclaimed']
    obl_kani.run(c, names)
    obl_kani.obl_ffi_lifecycle_validation(c)
    # "independently owned": the context functions of the C interface from MIR - what the context uses after the call returned is its own copy
    # of the caller's Config (the caller may free or change its object at once)
    import obl_context
    c.only_clauses = {"context_keeps_its_own_copy_of_the_configuration"}
    obl_context.obl_context(c, thorough=False, budget_s=600)
    # "leaks nothing": the one place the library keeps writing files - the save of a learned choice - forgets no owning value
    import obl_phonetic
    c.only_clauses = {"nothing_owned_is_forgotten"}
    obl_phonetic.obl_userfiles(c, budget_s=600)
    c.only_clauses = None
    c.assume("CString::from_raw is stubbed by the same ownership transfer with the length found by a loop (Kani cannot call the foreign strlen); "
             "the counting variant of the stub is how 'taken back exactly once' is observed; the Bijoy encoder is an injective tagging stub; "
             "both stubs are validated against the real build by the native life cycles")
    c.outside("call sequences over all 33 exported functions with a live context (the context functions need Data::new / file I/O, beyond CBMC's reach here): "
              "the Suggestion / Config / string functions are decided by Kani; of the context functions the solver decides configuration ownership (MIR executor, method objects as recording oracles), the rest is exercised by the native life cycles only")
