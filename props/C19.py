"""C19: the C interface - pointers valid until freed, strings equal to the Rust values, nothing leaked (Kani kernels over the exported functions)."""
import obl_kani


def run(c):
    names = ['k_ffi_suggestion_full', 'k_ffi_suggestion_single', 'k_ffi_config', 'k_ffi_strings_match_and_are_reclaimed',
             'k_ffi_single_strings_match_and_are_reclaimed']
    obl_kani.run(c, names)
    obl_kani.obl_ffi_lifecycle_validation(c)
    c.assume("CString::from_raw is stubbed by the same ownership transfer with the length found by a loop (Kani cannot call the foreign strlen); "
             "the counting variant of the stub is how 'taken back exactly once' is observed; the Bijoy encoder is an injective tagging stub; "
             "both stubs are validated against the real build by the native life cycles")
    c.outside("call sequences over all 33 exported functions with a live context (the context functions need Data::new / file I/O, beyond CBMC's reach here): "
              "only the Suggestion / Config / string functions are decided by the solver; the context functions are exercised by the native life cycles only")
