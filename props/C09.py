"""C09: a learned candidate choice is remembered, also after a restart."""
import obl_assembly as A
import obl_phonetic


def run(c):
    import clauses
    c.only_clauses = clauses.OWN["C09"]
    A.validate_assembly_concrete(c)     # a mismatch makes the run inconclusive; the obligations still run, and what they find is reported only after native confirmation
    ct = A.conv_table_for([p for w in A.WRAPPERS_QUICK for p in w])
    A.obl_learn(c, ct, thorough=(c.tier == "thorough"), budget_s=2400)
    # method level: the commit compares the index with the preselection the method recorded (must be the assembly's answer for the list
    # shown last), stores on a different index, writes nothing on the same one
    obl_phonetic.obl_phonetic_glue(c, 2 if c.tier == "quick" else 3, budget_s=900)
    # "... or in a new context created over the same user-data directory": whatever options the new context is created with (it may be
    # re-configured later, and a re-configuration does not read the store again), its constructor reads the store
    c.only_clauses = {"constructor_consults_the_user_files_whatever_the_options"}
    obl_phonetic.obl_userfiles(c, budget_s=600)
    c.only_clauses = clauses.OWN["C09"]
    c.outside("persistence across processes: the store written by serde_json::to_string is assumed to be read back unchanged by from_slice "
              "(contract of serde_json and the file system); every restart point between two commits")
