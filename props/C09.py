"""C09: a learned candidate choice is remembered, also after a restart."""
import obl_assembly as A


def run(c):
    import clauses
    c.only_clauses = clauses.OWN["C09"]
    A.validate_assembly_concrete(c)     # a mismatch makes the run inconclusive; the obligations still run, and what they find is reported only after native confirmation
    ct = A.conv_table_for([p for w in A.WRAPPERS_QUICK for p in w])
    A.obl_learn(c, ct, thorough=(c.tier == "thorough"), budget_s=2400)
    c.outside("persistence across processes: the store written by serde_json::to_string is assumed to be read back unchanged by from_slice "
              "(contract of serde_json and the file system); every restart point between two commits")
