"""Symbolic values of the MIR executor.

Scalars are Python ints/bools when concrete and z3 terms when symbolic (bit-vectors of the Rust
width for integers and chars, Bool for bool). Strings are code-point sequences of concrete length
per path whose elements are scalar values; byte offsets are sums of the UTF-8 width function."""
import z3

INT_BITS = {"u8": 8, "u16": 16, "u32": 32, "u64": 64, "u128": 128, "usize": 64,
            "i8": 8, "i16": 16, "i32": 32, "i64": 64, "i128": 128, "isize": 64, "char": 32, "bool": 1}
SIGNED = {"i8", "i16", "i32", "i64", "i128", "isize"}


def is_sym(v):
    return isinstance(v, z3.ExprRef)


def simp(v):
    """Simplify a z3 term; return a Python value when it became a literal."""
    if not is_sym(v):
        return v
    v = z3.simplify(v)
    if z3.is_bv_value(v):
        return v.as_long()
    if z3.is_true(v):
        return True
    if z3.is_false(v):
        return False
    return v


def bv(v, bits):
    if isinstance(v, z3.BitVecRef):
        sz = v.size()
        if sz == bits:
            return v
        if sz < bits:
            return z3.ZeroExt(bits - sz, v)
        return z3.Extract(bits - 1, 0, v)
    if is_sym(v):
        if z3.is_bool(v):
            return z3.If(v, z3.BitVecVal(1, bits), z3.BitVecVal(0, bits))
        if v.size() == bits:
            return v
        if v.size() < bits:
            return z3.ZeroExt(bits - v.size(), v)
        return z3.Extract(bits - 1, 0, v)
    if isinstance(v, bool):
        v = int(v)
    return z3.BitVecVal(v & ((1 << bits) - 1), bits)


def to_bool(v):
    """Value used as a branch condition -> Python bool or z3 Bool."""
    if isinstance(v, bool):
        return v
    if isinstance(v, int):
        return v != 0
    if is_sym(v):
        if z3.is_bool(v):
            return v
        return v != 0
    raise TypeError("not a condition: %r" % (v,))


class Unit:
    def __repr__(self):
        return "()"


UNIT = Unit()


class Agg:
    """Tuple / struct / enum variant / closure / array value."""
    __slots__ = ("kind", "variant", "fields")

    def __init__(self, kind, variant, fields):
        self.kind = kind        # 'tuple' | 'array' | 'adt:<Name>' | 'closure:<id>'
        self.variant = variant  # int discriminant for enums, None otherwise
        self.fields = list(fields)

    def __repr__(self):
        return "Agg(%s%s %r)" % (self.kind, "" if self.variant is None else "#%s" % self.variant, self.fields)


def some(v):
    return Agg("adt:Option", 1, [v])


NONE = None  # placeholder; use none() to get a fresh value


def none():
    return Agg("adt:Option", 0, [])


def ok(v):
    return Agg("adt:Result", 0, [v])


def err(v):
    return Agg("adt:Result", 1, [v])


class Ref:
    """Pointer to a slot: container (list or dict) + key."""
    __slots__ = ("container", "key", "mut")

    def __init__(self, container, key, mut=False):
        self.container = container
        self.key = key
        self.mut = mut

    def get(self):
        return self.container[self.key]

    def set(self, v):
        self.container[self.key] = v

    def __repr__(self):
        try:
            return "Ref(->%r)" % (self.get(),)
        except Exception:  # noqa
            return "Ref(?)"


class Box:
    __slots__ = ("cell",)

    def __init__(self, v):
        self.cell = [v]


def width_of(c):
    """UTF-8 width of a code point value (int or BV32) -> int or BV64 term."""
    if not is_sym(c):
        return 1 if c < 0x80 else 2 if c < 0x800 else 3 if c < 0x10000 else 4
    w = KNOWN_WIDTH.get(c.get_id())
    if w is not None:
        return w
    return z3.If(z3.ULT(c, 0x80), z3.BitVecVal(1, 64),
                 z3.If(z3.ULT(c, 0x800), z3.BitVecVal(2, 64),
                       z3.If(z3.ULT(c, 0x10000), z3.BitVecVal(3, 64), z3.BitVecVal(4, 64))))


# symbolic chars whose UTF-8 width is fixed by their declared range (id -> width)
KNOWN_WIDTH = {}


def add_vals(a, b, bits=64):
    if not is_sym(a) and not is_sym(b):
        return (a + b) & ((1 << bits) - 1)
    return simp(bv(a, bits) + bv(b, bits))


def bytelen(elems):
    total = 0
    for c in elems:
        total = add_vals(total, width_of(c))
    return total


class Str:
    """Immutable string slice value (&str): a snapshot of code points."""
    __slots__ = ("elems",)

    def __init__(self, elems):
        self.elems = tuple(elems)

    def __repr__(self):
        return "Str(%s)" % show_elems(self.elems)


class SString:
    """Owned, mutable String."""
    __slots__ = ("elems",)

    def __init__(self, elems=()):
        self.elems = list(elems)

    def __repr__(self):
        return "String(%s)" % show_elems(self.elems)


def show_elems(elems):
    out = []
    for c in elems:
        if is_sym(c):
            out.append("<%s>" % c)
        else:
            out.append(chr(c) if 0x20 <= c < 0x110000 and not (0xD800 <= c < 0xE000) else "\\u{%x}" % c)
    return '"' + "".join(out) + '"'


class SVec:
    """Vec<T> (also the backing store of slices)."""
    __slots__ = ("items",)

    def __init__(self, items=()):
        self.items = list(items)

    def __repr__(self):
        return "Vec%r" % (self.items,)


class Slice:
    """&[T] / &mut [T] view into a list."""
    __slots__ = ("items", "lo", "hi")

    def __init__(self, items, lo=0, hi=None):
        self.items = items
        self.lo = lo
        self.hi = len(items) if hi is None else hi

    def __len__(self):
        return self.hi - self.lo


class FnItem:
    __slots__ = ("name",)

    def __init__(self, name):
        self.name = name

    def __repr__(self):
        return "FnItem(%s)" % self.name


class Opaque:
    """A value the executor carries around without looking inside (Data, Parser, Regex, paths...)."""
    __slots__ = ("tag", "payload")

    def __init__(self, tag, payload=None):
        self.tag = tag
        self.payload = payload

    def __repr__(self):
        return "Opaque(%s)" % self.tag


class SMap:
    """HashMap model: finite association list with structural keys (strings of concrete shape).
    `entries` is a list of [key_elems_tuple, value]. A `default` callback may supply values for
    keys not present (oracle-backed maps)."""
    __slots__ = ("entries", "oracle", "name", "extra")

    def __init__(self, name="map", entries=None, oracle=None, extra=None):
        self.name = name
        self.entries = entries if entries is not None else []
        self.oracle = oracle
        # number of further entries whose keys are none of the keys this run asks for (None: there are none); only `len` sees them
        self.extra = extra


def deep_copy(v):
    """Structural copy used by Clone models and by `copy` of aggregates."""
    if isinstance(v, Agg):
        return Agg(v.kind, v.variant, [deep_copy(f) for f in v.fields])
    if isinstance(v, SString):
        return SString(v.elems)
    if isinstance(v, SVec):
        return SVec([deep_copy(i) for i in v.items])
    if isinstance(v, SMap):
        return SMap(v.name, [[k, deep_copy(x)] for k, x in v.entries], v.oracle, v.extra)
    if isinstance(v, Box):
        return Box(deep_copy(v.cell[0]))
    return v
