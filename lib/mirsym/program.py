"""Program = parsed MIR of the crate + name resolution + type tables read from the sources."""
import glob
import os
import re

from .parser import parse_mir, split_top, find_matching


class ResolveError(Exception):
    pass


STD_ENUMS = {
    "Option": {"None": 0, "Some": 1},
    "Result": {"Ok": 0, "Err": 1},
    "Cow": {"Borrowed": 0, "Owned": 1},
    "Ordering": {"Less": -1, "Equal": 0, "Greater": 1},
    "ControlFlow": {"Continue": 0, "Break": 1},
}


def strip_generics(s):
    """Remove every `::<...>` turbofish group and every `<...>` generic-argument group that follows an
    identifier; keeps a leading `<T as Trait>` / `<impl T>` qualifier intact."""
    out = []
    i = 0
    n = len(s)
    while i < n:
        c = s[i]
        if c == "<":
            prev = s[i - 1] if i > 0 else ""
            j = find_matching(s, i)
            if s.startswith("<impl ", i):
                out.append(s[i:j + 1])
                i = j + 1
                continue
            if prev == ":" or (prev and (prev.isalnum() or prev == "_")):
                # turbofish or generic args -> drop (also drop the '::' before a turbofish)
                if prev == ":" and "".join(out).endswith("::"):
                    del out[-2:]
                i = j + 1
                continue
            out.append(s[i:j + 1])
            i = j + 1
            continue
        out.append(c)
        i += 1
    return "".join(out)


def base_type(t):
    """Coarse base name of a type text: last path segment without generics/lifetimes/refs."""
    t = t.strip()
    t = re.sub(r"'\w+\s*", "", t)
    refs = ""
    while t.startswith("&"):
        refs += "&"
        t = t[1:].strip()
        if t.startswith("mut "):
            t = t[4:].strip()
    if t.startswith("dyn "):
        t = t[4:].strip()
    if t.startswith("(dyn "):
        t = t[5:].split("+")[0].strip().rstrip(")")
    if t.startswith("["):
        return refs + "slice"
    if t.startswith("("):
        return refs + "tuple"
    if t.startswith("*"):
        return refs + "ptr"
    if t.startswith("{closure@"):
        return refs + "closure"
    t = strip_generics(t)
    t = t.split("::")[-1]
    return refs + t


def split_as(inner):
    """'T as Trait<..>' -> (T, Trait) at top level, or (inner, None)."""
    depth = 0
    i = 0
    n = len(inner)
    while i < n:
        c = inner[i]
        if c in "(<[{":
            if c == "<" or c != "<":
                depth += 1
        elif c in ")]}":
            depth -= 1
        elif c == ">" and not (i > 0 and inner[i - 1] in "-="):
            depth -= 1
        elif depth == 0 and inner.startswith(" as ", i):
            return inner[:i].strip(), inner[i + 4:].strip()
        i += 1
    return inner.strip(), None


def split_path(s):
    """Split a path at top-level '::'."""
    parts = []
    depth = 0
    i = 0
    start = 0
    n = len(s)
    while i < n:
        c = s[i]
        if c in "(<[{":
            depth += 1
        elif c in ")]}":
            depth -= 1
        elif c == ">" and not (i > 0 and s[i - 1] in "-="):
            depth -= 1
        elif depth == 0 and s.startswith("::", i):
            parts.append(s[start:i])
            i += 2
            start = i
            continue
        i += 1
    parts.append(s[start:])
    return [p for p in parts if p != ""]


class Program:
    def __init__(self, mir_text, repo):
        self.repo = repo
        self.fns, self.consts = parse_mir(mir_text)
        self.enums = {k: dict(v) for k, v in STD_ENUMS.items()}
        self.enum_fields = {}    # (enum, variant) -> [field names] for struct-like variants
        self.structs = {"Range": ["start", "end"], "RangeFrom": ["start"], "RangeTo": ["end"],
                        "RangeInclusive": ["start", "end"]}
        self.unit_variants = {}  # variant name -> (enum, discr) for bare-identifier aggregates
        self.struct_field_types = {}
        self._read_types()
        self._index_functions()
        self._resolve_cache = {}

    # ------------------------------------------------------------------ types from the sources
    def _read_types(self):
        for path in glob.glob(os.path.join(self.repo, "src", "**", "*.rs"), recursive=True):
            try:
                src = open(path, encoding="utf-8").read()
            except OSError:
                continue
            src = re.sub(r"//[^\n]*", "", src)
            src = re.sub(r"/\*.*?\*/", "", src, flags=re.S)
            for m in re.finditer(r"\benum\s+(\w+)\s*(?:<[^>{]*>)?\s*\{", src):
                name = m.group(1)
                j = find_matching(src, m.end() - 1)
                body = src[m.end():j]
                variants = {}
                d = 0
                for part in split_top(body):
                    part = re.sub(r"#\[[^\]]*\]", "", part).strip()
                    if not part:
                        continue
                    vm = re.match(r"(\w+)", part)
                    vname = vm.group(1)
                    rest = part[vm.end():].strip()
                    em = re.match(r"=\s*(-?\d+)", rest)
                    if em:
                        d = int(em.group(1))
                    variants[vname] = d
                    if rest.startswith("{"):
                        fields = []
                        for f in split_top(rest[1:find_matching(rest, 0)]):
                            f = re.sub(r"#\[[^\]]*\]", "", f).strip()
                            fm = re.match(r"(?:pub(?:\([^)]*\))?\s+)?(\w+)\s*:", f)
                            if fm:
                                fields.append(fm.group(1))
                        self.enum_fields[(name, vname)] = fields
                    d += 1
                self.enums[name] = variants
            for m in re.finditer(r"\bstruct\s+(\w+)\s*(?:<[^>{]*>)?\s*\{", src):
                name = m.group(1)
                j = find_matching(src, m.end() - 1)
                fields = []
                ftypes = {}
                for f in split_top(src[m.end():j]):
                    f = re.sub(r"#\[[^\]]*\]", "", f).strip()
                    fm = re.match(r"(?:pub(?:\([^)]*\))?\s+)?(\w+)\s*:\s*(.*)$", f, re.S)
                    if fm:
                        fields.append(fm.group(1))
                        ftypes[fm.group(1)] = fm.group(2).strip()
                self.structs[name] = fields
                self.struct_field_types[name] = ftypes
        for en, vs in self.enums.items():
            for vn, d in vs.items():
                self.unit_variants.setdefault(vn, (en, d))

    # ------------------------------------------------------------------ function index
    def _impl_info(self, file, line):
        """Read `impl [<..>] [Trait for] Type` from the source line named in a MIR header."""
        try:
            lines = open(os.path.join(self.repo, file), encoding="utf-8").read().split("\n")
            text = lines[line - 1]
            k = line
            while "{" not in text and k < len(lines):
                text += " " + lines[k]
                k += 1
        except (OSError, IndexError):
            return None
        text = text.strip()
        m = re.match(r"(?:unsafe\s+)?impl\s*(<[^>]*>)?\s*(.*?)\s*(?:where\b.*)?\{", text)
        if not m:
            # derive attribute: `#[derive(Clone, Debug)]` -> the impl is for the item that follows
            if "derive" in text:
                k = line
                while k < len(lines) and not re.search(r"\b(struct|enum)\s+(\w+)", lines[k]):
                    k += 1
                if k < len(lines):
                    tm = re.search(r"\b(struct|enum)\s+(\w+)", lines[k])
                    return ("derive", tm.group(2))
            return None
        body = m.group(2)
        t, tr = None, None
        parts = re.split(r"\s+for\s+", body)
        if len(parts) == 2:
            tr, t = parts[0].strip(), parts[1].strip()
        else:
            t = body.strip()
        return (tr, t)

    def _index_functions(self):
        self.closures = {}     # closure id -> Function
        self.inherent = []     # (segments, Function)
        self.trait_impls = {}  # (type_base, trait_base, method) -> [(trait_args, Function)]
        for name, f in self.fns.items():
            segs = split_path(name)
            # closure bodies: first param type names the closure
            if "{closure#" in name and f.params:
                t = f.params[0][1]
                m = re.search(r"\{closure@[^}]*\}", t)
                if m:
                    self.closures[m.group(0)] = f
            new = []
            trait_key = None
            for s in segs:
                m = re.match(r"<impl at (.*?):(\d+):\d+: \d+:\d+>$", s)
                if m:
                    info = self._impl_info(m.group(1), int(m.group(2)))
                    if info is None:
                        new.append(s)
                        continue
                    tr, t = info
                    if tr == "derive":
                        # derived impl: trait unknown from the line; infer from the method name
                        new.append(base_type(t))
                        trait_key = ("derive", base_type(t))
                    elif tr is None:
                        new.append(base_type(t))
                    else:
                        new.append(base_type(t))
                        targs = ""
                        tm = re.match(r"([\w:]+)\s*(<.*>)?$", tr)
                        tb = tm.group(1).split("::")[-1] if tm else tr
                        targs = re.sub(r"\s+", "", tm.group(2) or "") if tm else ""
                        trait_key = (base_type(t), tb, targs)
                else:
                    new.append(s)
            f.segments = new
            method = new[-1] if new else name
            if trait_key and "{closure#" not in name and "promoted[" not in name:
                if trait_key[0] == "derive":
                    tb = {"clone": "Clone", "fmt": "Debug", "eq": "PartialEq", "ne": "PartialEq", "default": "Default",
                          "cmp": "Ord", "partial_cmp": "PartialOrd", "hash": "Hash"}.get(method)
                    if tb:
                        self.trait_impls.setdefault((trait_key[1], tb, method), []).append(("", f))
                else:
                    self.trait_impls.setdefault((trait_key[0], trait_key[1], method), []).append((trait_key[2], f))
            self.inherent.append((new, f))

    def resolve(self, callee):
        """Call-site callee text -> Function of the crate, or None when it is not a crate function."""
        if callee in self._resolve_cache:
            return self._resolve_cache[callee]
        r = self._resolve(callee)
        self._resolve_cache[callee] = r
        return r

    def _resolve(self, callee):
        s = callee.strip()
        if s.startswith("<") and not s.startswith("<impl"):
            j = find_matching(s, 0)
            inner = s[1:j]
            rest = s[j + 1:]
            t, tr = split_as(inner)
            method = strip_generics(rest.lstrip(":")).split("::")[0] if rest else ""
            if tr is not None:
                tm = re.match(r"([\w:]+)\s*(<.*>)?$", tr)
                tb = tm.group(1).split("::")[-1] if tm else tr
                targs = re.sub(r"\s+", "", (tm.group(2) or "")) if tm else ""
                cands = self.trait_impls.get((base_type(t), tb, method), [])
                if not cands and base_type(t).startswith("&"):
                    cands = self.trait_impls.get((base_type(t).lstrip("&"), tb, method), [])
                tail = rest.lstrip(":")[len(method):] if rest else ""
                tail = tail[2:] if tail.startswith("::") else tail
                if tail and (tail.startswith("promoted[") or tail.startswith("{closure")):
                    # an item nested in the impl method: `<T as Trait>::m::promoted[0]`
                    for _, f in cands:
                        g = self.fns.get(f.name + "::" + tail)
                        if g is not None:
                            return g
                    return None
                if len(cands) == 1:
                    return cands[0][1]
                if len(cands) > 1:
                    for a, f in cands:
                        if a == targs:
                            return f
                    # alias-expanded trait args: fall back to unique empty-arg impl
                    raise ResolveError("ambiguous trait impl for %s" % callee)
                return None
            # <(dyn Method + 'static)>::new  -> inherent impl on a dyn type
            s = base_type(t) + rest
        segs = [strip_generics(x) for x in split_path(strip_generics(s))]
        segs = [re.sub(r"^<impl (.*)>$", lambda m: base_type(m.group(1)), x) for x in segs]
        segs = [x for x in segs if x]
        cands = []
        for fsegs, f in self.inherent:
            if len(fsegs) >= len(segs) and fsegs[-len(segs):] == segs:
                cands.append(f)
        if not cands:
            # the header may carry the shorter (trimmed) path: `MODIFIER_SHIFT` vs `context::MODIFIER_SHIFT`
            for fsegs, f in self.inherent:
                if fsegs and len(fsegs) < len(segs) and segs[-len(fsegs):] == fsegs and f.kind in ("const", "static", "promoted"):
                    cands.append(f)
        if len(cands) == 1:
            return cands[0]
        if len(cands) > 1:
            exact = [f for f in cands if len(f.segments) == len(segs)]
            if len(exact) == 1:
                return exact[0]
            raise ResolveError("ambiguous callee %s: %s" % (callee, [f.name for f in cands][:4]))
        return None

    def resolve_named_const(self, name):
        """`const fixed::chars::B_R` -> parsed const tuple (by suffix match on the const items)."""
        cache = self.__dict__.setdefault("_const_cache", {})
        if name not in cache:
            cache[name] = self._resolve_named_const(name)
        return cache[name]

    def _resolve_named_const(self, name):
        if name in self.consts:
            return self.consts[name]
        segs = split_path(name)
        hits = [v for k, v in self.consts.items() if split_path(k)[-len(segs):] == segs]
        if len(hits) >= 1 and all(h == hits[0] for h in hits):
            return hits[0]
        last = [v for k, v in self.consts.items() if split_path(k)[-1] == segs[-1]]
        if last and all(h == last[0] for h in last):
            return last[0]
        return None

    def find_fn(self, *suffix):
        """Find a crate function by trailing path segments (after impl replacement)."""
        suffix = list(suffix)
        hits = [f for segs, f in self.inherent if segs[-len(suffix):] == suffix]
        if len(hits) != 1:
            raise ResolveError("function %s: %d matches" % ("::".join(suffix), len(hits)))
        return hits[0]

    def find_trait_fn(self, ty, trait, method, targs=""):
        c = self.trait_impls.get((ty, trait, method), [])
        if len(c) > 1:
            c = [x for x in c if x[0] == targs]
        if len(c) != 1:
            raise ResolveError("trait fn <%s as %s>::%s: %d matches" % (ty, trait, method, len(c)))
        return c[0][1]
