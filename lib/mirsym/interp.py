"""Symbolic executor for rustc MIR: path exploration by re-execution with decision prefixes,
one incremental z3 solver per path, models for std calls, crate functions executed from MIR."""
import re
import time

import z3

from .parser import Place
from .program import ResolveError, base_type, strip_generics, split_path, split_as
from .values import (Agg, Box, FnItem, INT_BITS, Opaque, Ref, SIGNED, SMap, SString, SVec, Slice, Str, UNIT,
                     bv, deep_copy, is_sym, simp, to_bool)


class PanicPath(Exception):
    def __init__(self, message, where=""):
        Exception.__init__(self, message)
        self.message = message
        self.where = where


class Unsupported(Exception):
    """The executor met something it has no semantics for: the check becomes inconclusive."""


class PathAbort(Exception):
    """Path cut by the harness (assumption not met)."""


class Limit(Exception):
    pass


class Stats:
    def __init__(self):
        self.paths = 0
        self.blocks = 0
        self.queries = 0
        self.unsat = 0
        self.sat = 0
        self.solver_s = 0.0
        self.max_depth = 0
        self.panics = 0
        self.functions = {}
        self.models_used = set()
        self.aborted = 0


class PathState:
    """One path: decisions taken so far, constraints, a solver."""

    def __init__(self, explorer, prefix):
        self.ex = explorer
        self.prefix = prefix
        self.pos = 0
        self.trace = []
        self.solver = z3.Solver()
        self.solver.set("timeout", explorer.query_timeout_ms)
        self.constraints = []
        self.model = None
        self.steps = 0
        self.notes = []
        self.syms = {}

    # ---- symbolic inputs --------------------------------------------------
    def sym_bv(self, name, bits):
        v = z3.BitVec(name, bits)
        self.syms[name] = v
        return v

    def sym_bool(self, name):
        v = z3.Bool(name)
        self.syms[name] = v
        return v

    def sym_char(self, name, lo=None, hi=None):
        """A Unicode scalar value; optional inclusive range."""
        c = z3.BitVec(name, 32)
        self.syms[name] = c
        cons = [z3.ULE(c, 0x10FFFF), z3.Or(z3.ULT(c, 0xD800), z3.UGT(c, 0xDFFF))]
        if lo is not None:
            cons.append(z3.UGE(c, lo))
        if hi is not None:
            cons.append(z3.ULE(c, hi))
        for k in cons:
            self.assume(k)
        if lo is not None and hi is not None:
            from .values import KNOWN_WIDTH, width_of
            if width_of(lo) == width_of(hi):
                KNOWN_WIDTH[c.get_id()] = width_of(lo)
        return c

    # ---- constraints ------------------------------------------------------
    def assume(self, c):
        c = simp(c) if is_sym(c) else c
        if c is True:
            return
        if c is False:
            raise PathAbort("assumption is false")
        self.constraints.append(c)
        self.solver.add(c)
        if self.model is not None:
            try:
                if not z3.is_true(self.model.eval(c, model_completion=True)):
                    self.model = None
            except z3.Z3Exception:
                self.model = None

    def _check(self, extra):
        t0 = time.time()
        r = self.solver.check(extra) if extra is not None else self.solver.check()
        dt = time.time() - t0
        st = self.ex.stats
        st.queries += 1
        st.solver_s += dt
        if r == z3.sat:
            st.sat += 1
            return True
        if r == z3.unsat:
            st.unsat += 1
            return False
        raise Unsupported("solver returned unknown (%s) after %.1fs" % (self.solver.reason_unknown(), dt))

    def feasible(self, cond):
        """Is `cond` consistent with the path so far? (cond: z3 Bool)"""
        if self.model is not None:
            try:
                if z3.is_true(self.model.eval(cond, model_completion=True)):
                    return True
            except z3.Z3Exception:
                pass
        r = self._check(cond)
        return r

    def require_feasible(self):
        """Cut the path (PathAbort) when the harness' assumptions made it infeasible."""
        self.model = None
        if not self._check(None):
            raise PathAbort("assumptions infeasible")
        self.model = self.solver.model()

    def get_model(self):
        if self.model is None:
            if not self._check(None):
                raise Unsupported("path condition became unsatisfiable")
            self.model = self.solver.model()
        return self.model

    def choose(self, conds):
        """conds: list of conditions (Python bool or z3 Bool), mutually exclusive and exhaustive.
        Returns the index taken on this path; registers the other feasible ones for later."""
        cs = []
        for c in conds:
            c = simp(c) if is_sym(c) else c
            cs.append(c)
        trues = [i for i, c in enumerate(cs) if c is True]
        if trues:
            return trues[0]
        live = [i for i, c in enumerate(cs) if c is not False]
        if len(live) == 1:
            # the only alternative that is not syntactically false; it is implied by exhaustiveness
            return live[0]
        if not live:
            raise Unsupported("no alternative is possible at a branch")
        if self.pos < len(self.prefix):
            d = self.prefix[self.pos]
            self.pos += 1
            self.trace.append(d)
            self.assume(cs[d])
            return d
        feas = []
        if len(live) > 6:
            # many alternatives (a `match` on a key code): ask for a model of "one of those not yet known feasible" and read off which ones it
            # satisfies - (#feasible + 1) queries instead of one per alternative
            remaining = list(live)
            if self.model is not None:
                try:
                    hit = [i for i in remaining if z3.is_true(self.model.eval(cs[i], model_completion=True))]
                    feas.extend(hit)
                    remaining = [i for i in remaining if i not in hit]
                except z3.Z3Exception:
                    pass
            while remaining:
                if not self._check(z3.Or([cs[i] for i in remaining])):
                    break
                m = self.solver.model()
                hit = [i for i in remaining if z3.is_true(m.eval(cs[i], model_completion=True))]
                if not hit:
                    # model completion could not decide: fall back to one query per alternative
                    hit = [i for i in remaining if self.feasible(cs[i])]
                    feas.extend(hit)
                    break
                feas.extend(hit)
                remaining = [i for i in remaining if i not in hit]
            feas.sort()
        else:
            for i in live:
                if self.feasible(cs[i]):
                    feas.append(i)
        if not feas:
            raise Unsupported("no feasible alternative at a branch (inconsistent path?)")
        order = feas
        if self.ex.seed:
            order = feas[self.ex.seed % len(feas):] + feas[:self.ex.seed % len(feas)]
        take = order[0]
        for alt in order[1:]:
            self.ex.push(self.trace + [alt])
        self.pos += 1
        self.trace.append(take)
        self.assume(cs[take])
        return take

    def branch(self, cond):
        cond = to_bool(cond)
        if isinstance(cond, bool):
            return cond
        cond = simp(cond)
        if isinstance(cond, bool):
            return cond
        return self.choose([cond, z3.Not(cond)]) == 0

    def concretize_int(self, v, lo, hi, what="value"):
        """Fork a symbolic integer into its feasible concrete values within [lo, hi]."""
        if not is_sym(v):
            return v
        conds = [v == k for k in range(lo, hi + 1)]
        conds.append(z3.Not(z3.Or(conds)) if conds else True)
        i = self.choose(conds)
        if i == len(conds) - 1:
            raise Unsupported("%s outside the enumerated range [%d,%d]" % (what, lo, hi))
        return lo + i


# the path state of the path being executed (harness builders that need fresh symbols without being handed the state read it)
CURRENT = [None]


class Explorer:
    def __init__(self, program, models, seed=0, max_paths=200000, max_steps=400000, query_timeout_ms=60000):
        self.program = program
        self.models = models
        self.seed = seed
        self.max_paths = max_paths
        self.max_steps = max_steps
        self.query_timeout_ms = query_timeout_ms
        self.stats = Stats()
        self.work = []
        self.records = []
        self.errors = []

    def push(self, prefix):
        self.work.append(prefix)

    def run_one(self, prefix, build, on_path):
        st = PathState(self, prefix)
        CURRENT[0] = st
        it = Interp(self.program, st, self.models, self.stats)
        try:
            run = build(st, it)
            try:
                out = ("return", run())
            except PanicPath as p:
                self.stats.panics += 1
                out = ("panic", p)
            self.stats.paths += 1
            self.stats.max_depth = max(self.stats.max_depth, len(st.trace))
            recs = on_path(st, it, out)
            if recs:
                self.records.extend(recs)
        except PathAbort:
            self.stats.aborted += 1
        except Unsupported as ex:
            self.errors.append("unsupported: %s" % ex)
        except Limit as ex:
            self.errors.append("limit: %s" % ex)

    def explore(self, build, on_path, deadline=None, stop_at=None):
        """build(st, interp) -> callable that runs the scenario and returns an outcome object;
        on_path(st, interp, outcome) -> list of picklable records, called for every completed path
        (return or panic). Unsupported constructs / limits are collected in self.errors (the caller must
        treat a non-empty list as inconclusive)."""
        if not self.work:
            self.work = [[]]
        while self.work:
            if self.stats.paths >= self.max_paths:
                self.errors.append("limit: path limit %d reached" % self.max_paths)
                return
            if deadline and time.time() > deadline:
                self.errors.append("limit: time budget exhausted after %d paths" % self.stats.paths)
                return
            if stop_at is not None and len(self.work) >= stop_at:
                return
            if len(self.errors) > 20:
                return
            prefix = self.work.pop(0) if stop_at is not None else self.work.pop()
            self.run_one(prefix, build, on_path)

    def explore_parallel(self, build, on_path, jobs, deadline=None):
        """Breadth-first until there are enough open prefixes, then one forked worker per chunk."""
        import multiprocessing as mp
        import pickle
        if jobs <= 1:
            return self.explore(build, on_path, deadline)
        self.work = [[]]
        self.explore(build, on_path, deadline, stop_at=jobs * 3)
        if not self.work or self.errors:
            if self.work and not self.errors:
                pass
            else:
                return
        prefixes = self.work
        self.work = []
        ctx = mp.get_context("fork")
        chunks = [prefixes[i::jobs] for i in range(jobs)]
        chunks = [c for c in chunks if c]
        procs = []
        for ch in chunks:
            r, w = ctx.Pipe(False)

            def worker(ch=ch, w=w):
                sub = Explorer(self.program, self.models, self.seed, self.max_paths, self.max_steps, self.query_timeout_ms)
                sub.work = list(ch)
                try:
                    sub.explore(build, on_path, deadline)
                except Exception as ex:  # noqa
                    import traceback
                    sub.errors.append("worker crashed: %s" % traceback.format_exc()[-800:])
                s = sub.stats
                payload = dict(records=sub.records, errors=sub.errors, paths=s.paths, blocks=s.blocks, queries=s.queries,
                               unsat=s.unsat, sat=s.sat, solver_s=s.solver_s, max_depth=s.max_depth, panics=s.panics,
                               functions=s.functions, models=list(s.models_used), aborted=s.aborted)
                w.send_bytes(pickle.dumps(payload))
                w.close()
            pr = ctx.Process(target=worker)
            pr.start()
            w.close()
            procs.append((pr, r))
        for pr, r in procs:
            try:
                payload = pickle.loads(r.recv_bytes())
            except EOFError:
                self.errors.append("worker died without a result (out of memory?)")
                pr.join()
                continue
            pr.join()
            self.records.extend(payload["records"])
            self.errors.extend(payload["errors"])
            s = self.stats
            s.paths += payload["paths"]
            s.blocks += payload["blocks"]
            s.queries += payload["queries"]
            s.unsat += payload["unsat"]
            s.sat += payload["sat"]
            s.solver_s += payload["solver_s"]
            s.max_depth = max(s.max_depth, payload["max_depth"])
            s.panics += payload["panics"]
            s.functions.update(payload["functions"])
            s.models_used.update(payload["models"])
            s.aborted += payload["aborted"]


# ---------------------------------------------------------------------------------------------

class Frame:
    __slots__ = ("fn", "locals")

    def __init__(self, fn):
        self.fn = fn
        self.locals = {}


def strip_ref(t):
    t = t.strip()
    if t.startswith("&"):
        t = t[1:].strip()
        t = re.sub(r"^'\w+\s+", "", t)
        if t.startswith("mut "):
            t = t[4:]
        return t.strip()
    if t.startswith("*const "):
        return t[7:]
    if t.startswith("*mut "):
        return t[5:]
    m = re.match(r"(?:std::boxed::)?Box<(.*)>$", t)
    if m:
        return m.group(1)
    return None


class Interp:
    def __init__(self, program, st, models, stats):
        self.p = program
        self.st = st
        self.models = models
        self.stats = stats
        self.depth = 0
        self.stack_names = []
        self.oracles = {}
        self.env = {}       # harness-provided environment (oracle tables, flags)
        self._ov_cache = {}
        self.log = []

    # ------------------------------------------------------------------ places
    def locate(self, fr, place):
        cont, key = fr.locals, place.local
        for p in place.proj:
            try:
                v = cont[key]
            except (KeyError, IndexError):
                raise Unsupported("read of uninitialised place %r in %s" % (place, fr.fn.name))
            k = p[0]
            if k == "deref":
                if isinstance(v, Ref):
                    cont, key = v.container, v.key
                elif isinstance(v, Box):
                    cont, key = v.cell, 0
                elif isinstance(v, (Str, Slice, Opaque)):
                    pass        # fat pointers to unsized data are their own referent in this model (reborrow `&*s`)
                else:
                    raise Unsupported("deref of %r in %s" % (type(v).__name__, fr.fn.name))
            elif k == "field":
                if isinstance(v, Box) and p[1] == 0:
                    cont, key = [v], 0       # Box.0 (the Unique pointer) is the box itself in this model; BoxDerefTransmute passes it on
                elif isinstance(v, Agg):
                    if p[1] >= len(v.fields):
                        raise Unsupported("field %d of %r" % (p[1], v))
                    cont, key = v.fields, p[1]
                else:
                    raise Unsupported("field projection on %s in %s" % (type(v).__name__, fr.fn.name))
            elif k == "downcast":
                pass
            elif k == "index":
                idx = fr.locals[p[1]]
                if is_sym(idx):
                    raise Unsupported("symbolic index projection")
                cont, key = self._index_container(v), idx
            elif k == "cindex":
                cont, key = self._index_container(v), p[1]
            else:
                raise Unsupported("projection %r" % (p,))
        return cont, key

    def _index_container(self, v):
        if isinstance(v, Agg):
            return v.fields
        if isinstance(v, SVec):
            return v.items
        raise Unsupported("index into %s" % type(v).__name__)

    def read(self, fr, place):
        cont, key = self.locate(fr, place)
        try:
            return cont[key]
        except (KeyError, IndexError):
            raise Unsupported("read of uninitialised %r in %s" % (place, fr.fn.name))

    def write(self, fr, place, v):
        cont, key = self.locate(fr, place)
        cont[key] = v

    def place_type(self, fr, place):
        if not place.proj:
            return fr.fn.locals.get(place.local)
        last = place.proj[-1]
        if last[0] == "field":
            return last[2]
        if last[0] == "deref":
            t = self.place_type(fr, Place(place.local, place.proj[:-1]))
            return strip_ref(t) if t else None
        return None

    def op_type(self, fr, op):
        if op[0] == "const":
            c = op[1]
            if c[0] == "int":
                return c[2]
            if c[0] in ("char", "bool"):
                return c[0]
            if c[0] == "named":
                r = self.p.resolve_named_const(c[1])
                if r and r[0] == "int":
                    return r[2]
                if r and r[0] in ("char", "bool"):
                    return r[0]
            return None
        return self.place_type(fr, op[1])

    # ------------------------------------------------------------------ operands
    def const_value(self, c, fr):
        k = c[0]
        if k == "int":
            bits = INT_BITS[c[2]]
            return c[1] & ((1 << bits) - 1)
        if k == "bool":
            return c[1]
        if k == "char":
            return c[1]
        if k == "unit":
            return UNIT
        if k == "str":
            return Str(c[1])
        if k == "bytes":
            return Ref([Agg("array", None, list(c[1]))], 0)
        if k == "zst":
            t = c[1]
            m = re.match(r"(\{closure@[^}]*\})", t)
            if m:
                return Agg("closure:" + m.group(1), None, [])
            m = re.search(r"\{([^{}]*)\}\s*$", t)
            if m and t.lstrip().startswith(("fn(", "for<", "unsafe fn(", "extern")):
                return FnItem(m.group(1))
            if t == "()":
                return UNIT
            return Opaque("zst:" + t)
        if k == "promoted":
            f = self._find_promoted(c[1], c[2])
            return self.call_function(f, [])
        if k == "named":
            if c[1].endswith("UNIX_EPOCH"):
                return Opaque("time", 0)
            if c[1] in ("RangeFull", "std::ops::RangeFull", "core::ops::RangeFull"):
                return Agg("adt:RangeFull", None, [])
            r = self.p.resolve_named_const(c[1])
            if r is not None and r[0] != "unparsed":
                return self.const_value(r, fr)
            # a const item with a body (e.g. MODIFIER_SHIFT) or a function item
            f = None
            try:
                f = self.p.resolve(c[1])
            except ResolveError:
                f = None
            if f is not None and f.kind in ("const", "static"):
                return self.call_function(f, [])
            if f is not None:
                return FnItem(c[1])
            return FnItem(c[1])
        raise Unsupported("constant %r" % (c,))

    def _find_promoted(self, path, n):
        key = "%s::promoted[%d]" % (path, n)
        f = self.p.resolve(key)
        if f is None:
            raise Unsupported("promoted %s not found" % key)
        return f

    def copy_value(self, v):
        if isinstance(v, Agg):
            return Agg(v.kind, v.variant, [self.copy_value(f) for f in v.fields])
        return v

    def operand(self, fr, op):
        k = op[0]
        if k == "copy":
            return self.copy_value(self.read(fr, op[1]))
        if k == "move":
            return self.read(fr, op[1])
        if k == "const":
            return self.const_value(op[1], fr)
        raise Unsupported("operand %r" % (op,))

    # ------------------------------------------------------------------ rvalues
    def rvalue(self, fr, rv, dest_type=None):
        k = rv[0]
        if k == "use":
            return self.operand(fr, rv[1])
        if k == "ref":
            cont, key = self.locate(fr, rv[2])
            return Ref(cont, key, rv[1] in ("mut", "rawmut"))
        if k == "binop":
            return self.binop(fr, rv[1], rv[2], rv[3])
        if k == "unop":
            v = self.operand(fr, rv[2])
            if rv[1] == "Not":
                if isinstance(v, bool):
                    return not v
                if is_sym(v) and z3.is_bool(v):
                    return simp(z3.Not(v))
                t = self.op_type(fr, rv[2])
                bits = INT_BITS.get(t)
                if bits is None:
                    raise Unsupported("Not on untyped value")
                if is_sym(v):
                    return simp(~v)
                return (~v) & ((1 << bits) - 1)
            if rv[1] == "Neg":
                t = self.op_type(fr, rv[2])
                bits = INT_BITS[t]
                if is_sym(v):
                    return simp(-v)
                return (-v) & ((1 << bits) - 1)
            if rv[1] == "PtrMetadata":
                t = v
                while isinstance(t, (Ref, Box)):
                    t = t.get() if isinstance(t, Ref) else t.cell[0]
                if isinstance(t, Slice):
                    return len(t)
                if isinstance(t, SVec):
                    return len(t.items)
                if isinstance(t, Agg) and t.kind == "array":
                    return len(t.fields)
                if isinstance(t, (Str, SString)):
                    from .values import bytelen
                    return bytelen(t.elems)
                raise Unsupported("PtrMetadata of %s" % type(t).__name__)
            raise Unsupported("unop %s" % rv[1])
        if k == "discriminant":
            v = self.read(fr, rv[1])
            if isinstance(v, Agg) and v.variant is not None:
                d = v.variant
                if is_sym(d):
                    return d
                return d & ((1 << 64) - 1)
            raise Unsupported("discriminant of %r" % (v,))
        if k == "cast":
            return self.cast(fr, rv[1], rv[2], rv[3])
        if k == "tuple":
            if not rv[1]:
                return UNIT
            return Agg("tuple", None, [self.operand(fr, o) for o in rv[1]])
        if k == "array":
            return Agg("array", None, [self.operand(fr, o) for o in rv[1]])
        if k == "repeat":
            n = int(re.match(r"(?:const )?(\d+)", rv[2].strip()).group(1))
            v = self.operand(fr, rv[1])
            return Agg("array", None, [self.copy_value(v) for _ in range(n)])
        if k == "closure":
            return Agg("closure:" + rv[1], None, [self.operand(fr, o) for _, o in rv[2]])
        if k == "adt":
            return self.make_adt(fr, rv[1], rv[2], rv[3])
        if k == "len":
            v = self.read(fr, rv[1])
            if isinstance(v, Agg):
                return len(v.fields)
            if isinstance(v, Slice):
                return len(v)
            raise Unsupported("Len of %r" % (v,))
        raise Unsupported("rvalue %r" % (rv,))

    def make_adt(self, fr, path, shape, fields):
        p = strip_generics(path)
        segs = split_path(p)
        last = segs[-1]
        if len(segs) >= 2 and segs[-2] in self.p.enums and last in self.p.enums[segs[-2]]:
            en = segs[-2]
            d = self.p.enums[en][last]
            if shape == "struct":
                order = self.p.enum_fields.get((en, last))
                if order is None:
                    raise Unsupported("field order of %s::%s unknown" % (en, last))
                vals = dict((n, self.operand(fr, o)) for n, o in fields)
                return Agg("adt:" + en, d, [vals[n] for n in order])
            return Agg("adt:" + en, d, [self.operand(fr, o) for o in fields])
        if shape == "unit" and len(segs) == 1 and last in self.p.unit_variants:
            en, d = self.p.unit_variants[last]
            return Agg("adt:" + en, d, [])
        if shape == "struct":
            order = self.p.structs.get(last)
            if order is None:
                raise Unsupported("struct %s unknown" % last)
            vals = dict((n, self.operand(fr, o)) for n, o in fields)
            try:
                return Agg("adt:" + last, None, [vals[n] for n in order])
            except KeyError:
                raise Unsupported("struct %s field mismatch" % last)
        if shape == "tuple":
            return Agg("adt:" + last, None, [self.operand(fr, o) for o in fields])
        raise Unsupported("aggregate %s (%s)" % (path, shape))

    def _ints(self, fr, a, b):
        ta = self.op_type(fr, a)
        tb = self.op_type(fr, b)
        t = ta or tb
        va = self.operand(fr, a)
        vb = self.operand(fr, b)
        return t, va, vb

    def binop(self, fr, op, a, b):
        t, va, vb = self._ints(fr, a, b)
        if t is None:
            # infer from symbolic operand width
            for v in (va, vb):
                if is_sym(v) and not z3.is_bool(v):
                    t = {8: "u8", 16: "u16", 32: "u32", 64: "u64", 128: "u128"}[v.size()]
                    break
        if isinstance(va, bool) or isinstance(vb, bool) or (is_sym(va) and z3.is_bool(va)) or (is_sym(vb) and z3.is_bool(vb)):
            # boolean operands
            if not is_sym(va) and not is_sym(vb):
                va, vb = bool(va), bool(vb)
                return {"Eq": va == vb, "Ne": va != vb, "BitAnd": va and vb, "BitOr": va or vb, "BitXor": va != vb,
                        "Lt": va < vb, "Le": va <= vb, "Gt": va > vb, "Ge": va >= vb}[op]
            za = va if is_sym(va) else z3.BoolVal(bool(va))
            zb = vb if is_sym(vb) else z3.BoolVal(bool(vb))
            if op == "Eq":
                return simp(za == zb)
            if op == "Ne":
                return simp(za != zb)
            if op == "BitAnd":
                return simp(z3.And(za, zb))
            if op == "BitOr":
                return simp(z3.Or(za, zb))
            if op == "BitXor":
                return simp(z3.Xor(za, zb))
            raise Unsupported("bool binop %s" % op)
        if t is None:
            raise Unsupported("binop %s on untyped operands in %s" % (op, fr.fn.name))
        bits = INT_BITS.get(t)
        if bits is None:
            raise Unsupported("binop on type %s" % t)
        signed = t in SIGNED
        mask = (1 << bits) - 1
        if not is_sym(va) and not is_sym(vb):
            sa, sb = va, vb
            if signed:
                sa = va - (1 << bits) if va >> (bits - 1) else va
                sb = vb - (1 << bits) if vb >> (bits - 1) else vb
            if op in ("Eq", "Ne", "Lt", "Le", "Gt", "Ge"):
                return {"Eq": sa == sb, "Ne": sa != sb, "Lt": sa < sb, "Le": sa <= sb, "Gt": sa > sb, "Ge": sa >= sb}[op]
            if op in ("Add", "Sub", "Mul", "AddWithOverflow", "SubWithOverflow", "MulWithOverflow",
                      "AddUnchecked", "SubUnchecked", "MulUnchecked"):
                base = op.replace("WithOverflow", "").replace("Unchecked", "")
                r = sa + sb if base == "Add" else sa - sb if base == "Sub" else sa * sb
                lo, hi = (-(1 << (bits - 1)), (1 << (bits - 1)) - 1) if signed else (0, mask)
                ov = r < lo or r > hi
                if op.endswith("WithOverflow"):
                    return Agg("tuple", None, [r & mask, ov])
                return r & mask
            if op == "BitAnd":
                return va & vb
            if op == "BitOr":
                return va | vb
            if op == "BitXor":
                return va ^ vb
            if op in ("Shl", "ShlUnchecked"):
                return (va << (vb % bits)) & mask
            if op in ("Shr", "ShrUnchecked"):
                return (sa >> (vb % bits)) & mask
            if op in ("Div", "Rem"):
                if sb == 0:
                    raise PanicPath("attempt to divide by zero" if op == "Div" else "attempt to calculate the remainder with a divisor of zero")
                q = abs(sa) // abs(sb)           # truncating division on exact integers (a float quotient loses bits beyond 2^53)
                if (sa < 0) != (sb < 0):
                    q = -q
                if signed and q > (1 << (bits - 1)) - 1:
                    raise PanicPath("attempt to divide with overflow" if op == "Div" else "attempt to calculate the remainder with overflow")
                return (q if op == "Div" else sa - sb * q) & mask
            raise Unsupported("binop %s" % op)
        za, zb = bv(va, bits), bv(vb, bits)
        if op == "Eq":
            return simp(za == zb)
        if op == "Ne":
            return simp(za != zb)
        if op == "Lt":
            return simp(za < zb if signed else z3.ULT(za, zb))
        if op == "Le":
            return simp(za <= zb if signed else z3.ULE(za, zb))
        if op == "Gt":
            return simp(za > zb if signed else z3.UGT(za, zb))
        if op == "Ge":
            return simp(za >= zb if signed else z3.UGE(za, zb))
        if op in ("Add", "AddUnchecked"):
            return simp(za + zb)
        if op in ("Sub", "SubUnchecked"):
            return simp(za - zb)
        if op in ("Mul", "MulUnchecked"):
            return simp(za * zb)
        if op == "AddWithOverflow":
            ov = z3.Not(z3.BVAddNoOverflow(za, zb, signed)) if not signed else z3.Not(z3.And(z3.BVAddNoOverflow(za, zb, True), z3.BVAddNoUnderflow(za, zb)))
            return Agg("tuple", None, [simp(za + zb), simp(ov)])
        if op == "SubWithOverflow":
            ov = z3.ULT(za, zb) if not signed else z3.Not(z3.And(z3.BVSubNoOverflow(za, zb), z3.BVSubNoUnderflow(za, zb, True)))
            return Agg("tuple", None, [simp(za - zb), simp(ov)])
        if op == "MulWithOverflow":
            ov = z3.Not(z3.BVMulNoOverflow(za, zb, signed))
            return Agg("tuple", None, [simp(za * zb), simp(ov)])
        if op == "BitAnd":
            return simp(za & zb)
        if op == "BitOr":
            return simp(za | zb)
        if op == "BitXor":
            return simp(za ^ zb)
        if op in ("Shl", "ShlUnchecked"):
            return simp(za << zb)
        if op in ("Shr", "ShrUnchecked"):
            return simp(za >> zb if signed else z3.LShR(za, zb))
        raise Unsupported("symbolic binop %s" % op)

    def cast(self, fr, op, ty, kind):
        v = self.operand(fr, op)
        if kind == "IntToInt":
            src = self.op_type(fr, op)
            dst = ty.strip()
            db = INT_BITS.get(dst)
            if db is None:
                raise Unsupported("cast to %s" % dst)
            if isinstance(v, bool):
                return int(v)
            if is_sym(v) and z3.is_bool(v):
                return simp(bv(v, db))
            sb = INT_BITS.get(src) if src else (v.size() if is_sym(v) else None)
            if sb is None:
                raise Unsupported("cast from unknown type")
            if not is_sym(v):
                if src in SIGNED and v >> (sb - 1):
                    v = v - (1 << sb)
                return v & ((1 << db) - 1)
            if db == sb:
                return v
            if db < sb:
                return simp(z3.Extract(db - 1, 0, v))
            return simp(z3.SignExt(db - sb, v) if src in SIGNED else z3.ZeroExt(db - sb, v))
        if kind.startswith("PointerCoercion") or kind in ("PtrToPtr", "Transmute", "BoxDerefTransmute", "FnPtrToPtr"):
            return v
        raise Unsupported("cast kind %s" % kind)

    # ------------------------------------------------------------------ execution
    def call_function(self, fn, args):
        if fn.errors:
            raise Unsupported("function %s has unparsed MIR: %s" % (fn.name, fn.errors[0][:200]))
        self.stats.functions[fn.name] = fn.text_hash
        self.depth += 1
        self.stack_names.append(fn.name)
        if self.depth > 60:
            from collections import Counter
            top, n = Counter(self.stack_names).most_common(1)[0]
            del self.stack_names[-1]
            self.depth -= 1
            if n >= 20:
                # the same function 20 times on a stack of 60 frames with the arguments of this path: unbounded recursion within
                # this bound - natively a stack overflow (abort) or a call that never returns
                raise PanicPath("unbounded recursion: %s is on the call stack %d times (stack overflow / never returns)" % (top, n))
            raise Unsupported("call depth exceeded in %s" % fn.name)
        fr = Frame(fn)
        if len(args) != len(fn.params):
            raise Unsupported("arity mismatch calling %s: %d args for %d params" % (fn.name, len(args), len(fn.params)))
        for (loc, _), a in zip(fn.params, args):
            fr.locals[loc] = a
        # closures without captures are zero-sized: rustc's RemoveZsts drops their assignment, but references to the local remain
        zc = getattr(fn, "_zst_closures", None)
        if zc is None:
            zc = []
            for loc, t in fn.locals.items():
                m = re.fullmatch(r"\s*(\{closure@[^}]*\})\s*", t or "")
                if m:
                    zc.append((loc, m.group(1)))
            fn._zst_closures = zc
        for loc, cid in zc:
            if loc not in fr.locals:
                fr.locals[loc] = Agg("closure:" + cid, None, [])
        bb = 0
        st = self.st
        try:
            while True:
                self.stats.blocks += 1
                st.steps += 1
                if st.steps > st.ex.max_steps:
                    raise Limit("step limit on one path (%d blocks) in %s" % (st.steps, fn.name))
                block = fn.blocks.get(bb)
                if block is None:
                    raise Unsupported("missing block bb%d in %s" % (bb, fn.name))
                nxt = None
                for s in block:
                    k = s[0]
                    if k == "assign":
                        v = self.rvalue(fr, s[2])
                        self.write(fr, s[1], v)
                    elif k == "nop":
                        pass
                    elif k == "setdiscr":
                        v = self.read(fr, s[1])
                        if isinstance(v, Agg):
                            v.variant = s[2]
                        else:
                            raise Unsupported("SetDiscriminant on %r" % (v,))
                    elif k == "goto":
                        nxt = s[1]
                    elif k == "switch":
                        nxt = self.switch(fr, s)
                    elif k == "return":
                        return fr.locals.get(0, UNIT)
                    elif k == "call":
                        dest, callee, argops, ret = s[1], s[2], s[3], s[4]
                        args2 = [self.operand(fr, a) for a in argops]
                        v = self.call(callee, args2, fr)
                        if ret is None:
                            raise Unsupported("diverging call %s returned" % callee)
                        self.write(fr, dest, v)
                        nxt = ret
                    elif k == "callptr":
                        f = self.operand(fr, s[2])
                        args2 = [self.operand(fr, a) for a in s[3]]
                        v = self.call_value(f, args2)
                        self.write(fr, s[1], v)
                        nxt = s[4]
                    elif k == "drop":
                        try:
                            dv = self.read(fr, s[1])
                        except Unsupported:
                            dv = None
                        if isinstance(dv, Agg) and dv.kind in ("adt:RefMut", "adt:CellRef") and len(dv.fields) > 1 and dv.fields[1] is not None:
                            cell = dv.fields[1]
                            cell.fields[1] = 0 if dv.kind == "adt:RefMut" else max(0, cell.fields[1] - 1)
                            dv.fields[1] = None
                        else:
                            self.run_drop(dv, 0)
                        nxt = s[2]
                    elif k == "assert":
                        c = self.operand(fr, s[1])
                        want = s[2]
                        holds = st.branch(c if want else self._not(c))
                        if not holds:
                            raise PanicPath("MIR assert failed: %s" % s[3][:120], fn.name)
                        nxt = s[4]
                    elif k == "unreachable":
                        raise Unsupported("reached `unreachable` in %s bb%d" % (fn.name, bb))
                    elif k in ("resume", "terminate"):
                        raise Unsupported("reached unwind block in %s" % fn.name)
                    elif k == "unparsed":
                        raise Unsupported("unparsed MIR statement in %s: %s" % (fn.name, s[1][:200]))
                    else:
                        raise Unsupported("statement kind %s" % k)
                if nxt is None:
                    raise Unsupported("block bb%d of %s has no terminator" % (bb, fn.name))
                bb = nxt
        finally:
            self.depth -= 1
            if self.stack_names:
                self.stack_names.pop()

    def _not(self, c):
        if isinstance(c, bool):
            return not c
        if is_sym(c) and z3.is_bool(c):
            return z3.Not(c)
        if is_sym(c):
            return c == 0
        return not c

    def switch(self, fr, s):
        v = self.operand(fr, s[1])
        targets, otherwise = s[2], s[3]
        if isinstance(v, bool):
            v = int(v)
        if not is_sym(v):
            for val, bb in targets:
                if val == v:
                    return bb
            # signed discriminants (Ordering::Less == -1) are printed as large unsigned numbers
            for val, bb in targets:
                for bits in (8, 16, 32, 64, 128):
                    if val == (v & ((1 << bits) - 1)) and v >= (1 << 63):
                        return bb
            if otherwise is None:
                raise Unsupported("switchInt without matching arm")
            return otherwise
        if z3.is_bool(v):
            conds = []
            bbs = []
            for val, bb in targets:
                conds.append(v if val else z3.Not(v))
                bbs.append(bb)
            if otherwise is not None:
                covered = [val for val, _ in targets]
                if len(covered) == 1:
                    conds.append(z3.Not(v) if covered[0] else v)
                    bbs.append(otherwise)
            return bbs[self.st.choose(conds)]
        conds = [v == val for val, _ in targets]
        bbs = [bb for _, bb in targets]
        if otherwise is not None:
            conds.append(z3.And([v != val for val, _ in targets]) if targets else True)
            bbs.append(otherwise)
        return bbs[self.st.choose(conds)]

    # ------------------------------------------------------------------ calls
    def call(self, callee, args, fr=None):
        # 1. crate function?
        try:
            f = self.p.resolve(callee)
        except ResolveError as ex:
            raise Unsupported(str(ex))
        key = self.models.key_of(callee)
        ov = self.env.get("overrides")
        if ov:
            hit = self._ov_cache.get(callee, 0)
            if hit == 0:
                hit = None
                segs = key.split("::")
                for k in (key, "::".join(segs[-2:]), segs[-1]):
                    if k in ov:
                        hit = k
                        break
                self._ov_cache[callee] = hit
            if hit is not None and hit in ov:
                self.stats.models_used.add("override:" + hit)
                return ov[hit](self, args, callee)
        if f is not None and not self.models.overrides(key, callee):
            if self._summarisable(f, args):
                r = self._summary(f, args)
                if r is not None:
                    return r[0]
            return self.call_function(f, args)
        m = self.models.lookup(key, callee)
        if m is None:
            raise Unsupported("no model for callee `%s` (key %s)" % (callee, key))
        self.stats.models_used.add(m.__name__ if hasattr(m, "__name__") else str(m))
        return m(self, args, callee)

    # ------------------------------------------------------------------ summaries of small pure predicates
    # A crate function from scalars to a scalar (a character-class test, a comparison helper) called on a symbolic argument is explored on its
    # own, once, and its result is used as one if-then-else expression: the caller's path does not fork on the callee's internal branches
    # (`matches!` on ranges instead of a string search would otherwise multiply the caller's paths by the number of ranges).
    def _summarisable(self, f, args):
        import os as _os
        if _os.environ.get("VERIF_NO_SUMMARY") or self.env.get("no_summary") or getattr(self, "_in_summary", 0) > 2:
            return False
        rt = (f.ret_type or "").strip()
        if rt not in INT_BITS or len(f.blocks) > 80 or not args or len(args) > 3:
            return False
        anysym = False
        for a in args:
            d = a.get() if isinstance(a, Ref) else a
            if isinstance(d, bool) or isinstance(d, int):
                continue
            if is_sym(d) and (z3.is_bv(d) or z3.is_bool(d)):
                anysym = True
                continue
            return False
        return anysym

    def _summary(self, f, args):
        vals = [a.get() if isinstance(a, Ref) else a for a in args]
        key = (f.name, tuple(str(v) for v in vals), tuple(isinstance(a, Ref) for a in args))
        cache = self.st.ex.__dict__.setdefault("_summaries", {})
        if key in cache:
            return cache[key]
        sub = Explorer(self.p, self.models, seed=0, max_paths=400, max_steps=20000, query_timeout_ms=self.st.ex.query_timeout_ms)
        outs = []
        bad = []
        ov = self.env.get("overrides")

        def build(st2, it2):
            it2._in_summary = getattr(self, "_in_summary", 0) + 1
            if ov:
                it2.env["overrides"] = ov
            a2 = [Ref([v], 0) if isinstance(a, Ref) else v for a, v in zip(args, vals)]
            return lambda: it2.call_function(f, a2)

        def on_path(st2, it2, out):
            if out[0] != "return" or isinstance(out[1], (Agg, Ref, SString, SVec, Str)):
                bad.append(out)
                return []
            outs.append((list(st2.constraints), out[1]))
            return []
        saved = CURRENT[0]
        try:
            sub.explore(build, on_path)
        finally:
            CURRENT[0] = saved
        self.stats.blocks += sub.stats.blocks
        self.stats.queries += sub.stats.queries
        self.stats.unsat += sub.stats.unsat
        self.stats.sat += sub.stats.sat
        self.stats.solver_s += sub.stats.solver_s
        for k, v in sub.stats.functions.items():
            self.stats.functions[k] = v
        if bad or sub.errors or not outs:
            cache[key] = None
            return None
        rt = f.ret_type.strip()

        def lift(v):
            if rt == "bool":
                return to_bool(v) if not isinstance(v, bool) else z3.BoolVal(v)
            return bv(v, INT_BITS[rt])
        res = lift(outs[-1][1])
        for cons, v in reversed(outs[:-1]):
            res = z3.If(z3.And(cons) if cons else z3.BoolVal(True), lift(v), res)
        res = simp(res)
        cache[key] = (res,)
        return cache[key]

    def run_drop(self, v, depth):
        """Drop glue for crate types: a value of a type with `impl Drop` runs its `drop` (then its fields are dropped in turn)."""
        if depth > 4 or not isinstance(v, Agg) or not isinstance(v.kind, str) or not v.kind.startswith("adt:"):
            return
        name = v.kind[4:]
        if (name, "Drop", "drop") in self.p.trait_impls:
            try:
                f = self.p.find_trait_fn(name, "Drop", "drop")
            except ResolveError:
                f = None
            if f is not None:
                self.call_function(f, [Ref([v], 0, True)])
        if name in self.p.structs:
            for x in v.fields:
                self.run_drop(x, depth + 1)

    def call_value(self, f, args):
        """Call a closure / fn item value with positional args."""
        if isinstance(f, FnItem):
            return self.call(f.name, args)
        if isinstance(f, Ref):
            return self.call_value(f.get(), args)
        if isinstance(f, Agg) and f.kind.startswith("closure:"):
            cid = f.kind[len("closure:"):]
            fn = self.p.closures.get(cid)
            if fn is None:
                raise Unsupported("closure body %s not found" % cid)
            t = fn.params[0][1].strip()
            first = Ref([f], 0, True) if t.startswith("&") else f
            return self.call_function(fn, [first] + list(args))
        if callable(f):
            return f(self, args)
        raise Unsupported("call of non-callable value %r" % (f,))

    # ------------------------------------------------------------------ helpers for models
    def panic(self, msg):
        raise PanicPath(msg)

    def deref_all(self, v):
        while isinstance(v, (Ref, Box)):
            v = v.get() if isinstance(v, Ref) else v.cell[0]
        return v
