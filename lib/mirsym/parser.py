"""Parser for the textual MIR that `rustc -Zunpretty=mir` prints (the subset that occurs in riti).

Produces Function objects with basic blocks of (statement | terminator) tuples. Anything the
parser does not understand raises MirParseError for that function only; executing such a
function ends the check as inconclusive (never as a pass)."""
import re


class MirParseError(Exception):
    pass


# ----------------------------------------------------------------------------- lexing helpers

def rust_unescape(body, is_bytes=False):
    """Decode the inside of a Rust string literal. Returns list of code points (or bytes)."""
    out = []
    i = 0
    n = len(body)
    while i < n:
        ch = body[i]
        if ch != "\\":
            if is_bytes:
                out.extend(ch.encode("utf-8"))
            else:
                out.append(ord(ch))
            i += 1
            continue
        i += 1
        e = body[i]
        if e == "n":
            out.append(10)
        elif e == "r":
            out.append(13)
        elif e == "t":
            out.append(9)
        elif e == "0":
            out.append(0)
        elif e == "\\":
            out.append(92)
        elif e == "'":
            out.append(39)
        elif e == '"':
            out.append(34)
        elif e == "x":
            out.append(int(body[i + 1:i + 3], 16))
            i += 2
        elif e == "u":
            j = body.index("}", i)
            out.append(int(body[i + 2:j], 16))
            i = j
        else:
            raise MirParseError("unknown escape \\%s" % e)
        i += 1
    return out


def scan_string(s, i):
    """s[i] == '"': return index just past the closing quote."""
    assert s[i] == '"'
    i += 1
    while True:
        c = s[i]
        if c == "\\":
            i += 2
            continue
        if c == '"':
            return i + 1
        i += 1


def scan_char(s, i):
    """s[i] == \"'\": a char literal or a lifetime. Return end index of char literal or None."""
    if s[i + 1] == "\\":
        j = i + 2
        if s[j] == "u":
            j = s.index("}", j)
        elif s[j] == "x":
            j += 2
        j += 1
        if j < len(s) and s[j] == "'":
            return j + 1
        return None
    # plain char: exactly one character then a quote
    if i + 2 < len(s) and s[i + 2] == "'":
        return i + 3
    return None


OPEN = {"(": ")", "[": "]", "{": "}", "<": ">"}
CLOSE = {v: k for k, v in OPEN.items()}


def split_top(s, sep=","):
    """Split s at separators that are not nested in brackets / literals."""
    parts = []
    depth = 0
    i = 0
    start = 0
    n = len(s)
    while i < n:
        c = s[i]
        if c == '"':
            i = scan_string(s, i)
            continue
        if c == "'":
            e = scan_char(s, i)
            if e:
                i = e
                continue
        if c in "([{":
            depth += 1
        elif c in ")]}":
            depth -= 1
        elif c == "<":
            # generic bracket unless it is a comparison (never occurs in MIR text)
            depth += 1
        elif c == ">":
            if i > 0 and s[i - 1] in "-=":
                pass  # -> or =>
            else:
                depth -= 1
        elif c == sep and depth == 0:
            parts.append(s[start:i].strip())
            start = i + 1
        i += 1
    last = s[start:].strip()
    if last:
        parts.append(last)
    return parts


def find_matching(s, i):
    """s[i] is an opening bracket; return index of its partner (aware of literals and ->)."""
    stack = []
    n = len(s)
    while i < n:
        c = s[i]
        if c == '"':
            i = scan_string(s, i)
            continue
        if c == "'":
            e = scan_char(s, i)
            if e:
                i = e
                continue
        if c in "([{":
            stack.append(c)
        elif c == "<":
            stack.append(c)
        elif c in ")]}":
            while stack and stack[-1] == "<":
                stack.pop()
            if not stack:
                raise MirParseError("unbalanced in %r" % s)
            stack.pop()
            if not stack:
                return i
        elif c == ">":
            if i > 0 and s[i - 1] in "-=":
                pass
            elif stack and stack[-1] == "<":
                stack.pop()
                if not stack:
                    return i
        i += 1
    raise MirParseError("no match in %r" % s)


# ----------------------------------------------------------------------------- AST

class Place:
    __slots__ = ("local", "proj")

    def __init__(self, local, proj=()):
        self.local = local
        self.proj = tuple(proj)   # ('deref',) | ('field', idx, type) | ('downcast', name) | ('index', local) | ('cindex', i)

    def __repr__(self):
        return "P(_%d%s)" % (self.local, "".join("." + str(p) for p in self.proj))


class Parser:
    def __init__(self, text):
        self.text = text

    # ---- places -----------------------------------------------------------
    def parse_place(self, s):
        s = s.strip()
        p, rest = self._place(s, 0)
        if rest != len(s):
            raise MirParseError("trailing text in place %r" % s)
        return p

    def _place(self, s, i):
        if s[i] == "_":
            m = re.match(r"_(\d+)", s[i:])
            pl = Place(int(m.group(1)))
            i += m.end()
        elif s[i] == "(":
            j = find_matching(s, i)
            inner = s[i + 1:j]
            if inner.startswith("*"):
                base, k = self._place(inner, 1)
                if k != len(inner):
                    raise MirParseError("deref place %r" % inner)
                pl = Place(base.local, base.proj + (("deref",),))
            else:
                base, k = self._place(inner, 0)
                rest = inner[k:]
                m = re.match(r"\.(\d+): ", rest)
                if m:
                    pl = Place(base.local, base.proj + (("field", int(m.group(1)), rest[m.end():].strip()),))
                else:
                    m = re.match(r" as (\w+)$", rest)
                    if m:
                        pl = Place(base.local, base.proj + (("downcast", m.group(1)),))
                    else:
                        m = re.match(r" as variant#(\d+)$", rest)
                        if m:
                            pl = Place(base.local, base.proj + (("downcast", int(m.group(1))),))
                        else:
                            raise MirParseError("place projection %r" % inner)
            i = j + 1
        else:
            raise MirParseError("place %r" % s[i:])
        # index projections
        while i < len(s) and s[i] == "[":
            j = find_matching(s, i)
            inner = s[i + 1:j]
            m = re.match(r"_(\d+)$", inner)
            if m:
                pl = Place(pl.local, pl.proj + (("index", int(m.group(1))),))
            else:
                m = re.match(r"(\d+) of (\d+)$", inner)
                if m:
                    pl = Place(pl.local, pl.proj + (("cindex", int(m.group(1))),))
                else:
                    raise MirParseError("index projection %r" % inner)
            i = j + 1
        return pl, i

    # ---- operands ---------------------------------------------------------
    def parse_operand(self, s):
        s = s.strip()
        if s.startswith("no_retag "):
            s = s[len("no_retag "):]
        if s.startswith("copy "):
            return ("copy", self.parse_place(s[5:]))
        if s.startswith("move "):
            return ("move", self.parse_place(s[5:]))
        if s.startswith("const "):
            return ("const", self.parse_const(s[6:].strip()))
        if re.match(r"[A-Za-z_<][\w:<>' ,&\[\]()]*$", s) and "(" not in s.split("::")[0]:
            # a function item used as a value (e.g. `std::string::String::as_str`)
            return ("const", ("named", s))
        raise MirParseError("operand %r" % s)

    def parse_const(self, s):
        """-> tuple describing a constant."""
        if s in ("true", "false"):
            return ("bool", s == "true")
        if s == "()":
            return ("unit",)
        m = re.match(r"(-?\d+)_(u8|u16|u32|u64|u128|usize|i8|i16|i32|i64|i128|isize)$", s)
        if m:
            return ("int", int(m.group(1)), m.group(2))
        m = re.match(r"(-?[\d.eE+-]+)_?(f32|f64)$", s)
        if m:
            return ("float", s)
        if s.startswith('"'):
            e = scan_string(s, 0)
            if e == len(s):
                return ("str", rust_unescape(s[1:-1]))
        if s.startswith('b"'):
            e = scan_string(s, 1)
            if e == len(s):
                return ("bytes", rust_unescape(s[2:-1], True))
        if s.startswith("'"):
            e = scan_char(s, 0)
            if e == len(s):
                cps = rust_unescape(s[1:-1])
                if len(cps) == 1:
                    return ("char", cps[0])
        m = re.match(r"ZeroSized: (.*)$", s)
        if m:
            return ("zst", m.group(1).strip())
        m = re.match(r"(.*)::promoted\[(\d+)\]$", s)
        if m:
            return ("promoted", m.group(1), int(m.group(2)))
        m = re.match(r"\{transmute\((0x[0-9a-f]+)\): (.*)\}$", s)
        if m:
            return ("transmute", int(m.group(1), 16), m.group(2))
        m = re.match(r"\{alloc(\d+)(\+0x[0-9a-f]+)?: (.*)\}$", s)
        if m:
            return ("allocref", int(m.group(1)), m.group(3))
        if re.match(r"[A-Za-z_<]", s):
            return ("named", s)
        raise MirParseError("const %r" % s)

    # ---- rvalues ----------------------------------------------------------
    BINOPS = ("Eq", "Ne", "Lt", "Le", "Gt", "Ge", "Add", "Sub", "Mul", "Div", "Rem", "BitAnd", "BitOr", "BitXor",
              "Shl", "Shr", "AddWithOverflow", "SubWithOverflow", "MulWithOverflow", "Offset", "Cmp",
              "AddUnchecked", "SubUnchecked", "MulUnchecked", "ShlUnchecked", "ShrUnchecked")

    def parse_rvalue(self, s):
        s = s.strip()
        # references
        if s.startswith("&raw const "):
            return ("ref", "raw", self.parse_place(s[11:]))
        if s.startswith("&raw mut "):
            return ("ref", "rawmut", self.parse_place(s[9:]))
        if s.startswith("&mut "):
            return ("ref", "mut", self.parse_place(s[5:]))
        if s.startswith("&fake shallow "):
            return ("ref", "shared", self.parse_place(s[14:]))
        if s.startswith("&"):
            return ("ref", "shared", self.parse_place(s[1:]))
        m = re.match(r"(\w+)\(", s)
        if m and m.group(1) in self.BINOPS and s.endswith(")"):
            inner = s[m.end():-1]
            a, b = split_top(inner)
            return ("binop", m.group(1), self.parse_operand(a), self.parse_operand(b))
        if m and m.group(1) in ("Not", "Neg", "PtrMetadata") and s.endswith(")"):
            return ("unop", m.group(1), self.parse_operand(s[m.end():-1]))
        if s.startswith("discriminant(") and s.endswith(")"):
            return ("discriminant", self.parse_place(s[13:-1]))
        if s.startswith("Len(") and s.endswith(")"):
            return ("len", self.parse_place(s[4:-1]))
        if s.startswith("ShallowInitBox("):
            raise MirParseError("ShallowInitBox")
        # casts: "<operand> as <type> (<kind>)"
        m = re.match(r"^((?:no_retag )?(?:copy|move|const) .*) as (.*) \(([A-Za-z]+(?:\(.*\))?)\)$", s)
        if m:
            try:
                return ("cast", self.parse_operand(m.group(1)), m.group(2), m.group(3))
            except MirParseError:
                pass
        # plain operand
        if s.startswith(("copy ", "move ", "const ", "no_retag ")):
            return ("use", self.parse_operand(s))
        # tuple / array aggregates
        if s.startswith("(") and find_matching(s, 0) == len(s) - 1:
            inner = s[1:-1].strip()
            if inner.endswith(","):
                inner = inner[:-1]
            return ("tuple", [self.parse_operand(x) for x in split_top(inner)] if inner else [])
        if s == "()":
            return ("tuple", [])
        if s.startswith("[") and find_matching(s, 0) == len(s) - 1:
            inner = s[1:-1]
            parts = split_top(inner, ";")
            if len(parts) == 2:
                return ("repeat", self.parse_operand(parts[0]), parts[1])
            return ("array", [self.parse_operand(x) for x in split_top(inner)] if inner.strip() else [])
        # closure aggregate
        if s.startswith("{closure@") or s.startswith("{coroutine@"):
            j = find_matching(s, 0)
            cid = s[:j + 1]
            rest = s[j + 1:].strip()
            caps = []
            if rest:
                if not (rest.startswith("{") and rest.endswith("}")):
                    raise MirParseError("closure aggregate %r" % s)
                for f in split_top(rest[1:-1]):
                    name, val = f.split(":", 1)
                    caps.append((name.strip(), self.parse_operand(val)))
            return ("closure", cid, caps)
        # ADT aggregates: Path::Variant(ops) | Path { f: op } | Path::Variant | Path
        m = re.match(r"^([A-Za-z_][\w:<>,' &\[\]()]*?)\s*(\(|\{|$)", s)
        if m:
            # find the end of the path: first '(' or ' {' at angle depth 0
            depth = 0
            i = 0
            n = len(s)
            while i < n:
                c = s[i]
                if c == "<":
                    depth += 1
                elif c == ">" and not (i > 0 and s[i - 1] in "-="):
                    depth -= 1
                elif depth == 0 and c in "({":
                    break
                i += 1
            path = s[:i].strip()
            rest = s[i:].strip()
            if not rest:
                return ("adt", path, "unit", [])
            if rest.startswith("(") and rest.endswith(")"):
                inner = rest[1:-1]
                return ("adt", path, "tuple", [self.parse_operand(x) for x in split_top(inner)])
            if rest.startswith("{") and rest.endswith("}"):
                fields = []
                for f in split_top(rest[1:-1]):
                    name, val = f.split(":", 1)
                    fields.append((name.strip(), self.parse_operand(val)))
                return ("adt", path, "struct", fields)
        raise MirParseError("rvalue %r" % s)

    # ---- statements / terminators -----------------------------------------
    def parse_targets(self, s):
        """'[return: bb1, unwind continue]' / 'unwind continue' -> dict"""
        s = s.strip()
        out = {}
        if s.startswith("["):
            for part in split_top(s[1:-1]):
                k, v = part.split(":", 1) if ":" in part else (part.split(" ", 1) + [""])[:2]
                k = k.strip()
                v = v.strip()
                m = re.match(r"bb(\d+)$", v)
                out[k] = int(m.group(1)) if m else v
        else:
            out["unwind"] = s
        return out

    def parse_line(self, line):
        s = line.strip()
        if not s.endswith(";"):
            raise MirParseError("statement without ';': %r" % s)
        s = s[:-1]
        if s == "return":
            return ("return",)
        if s == "unreachable":
            return ("unreachable",)
        if s == "resume":
            return ("resume",)
        if s.startswith("terminate("):
            return ("terminate",)
        if s == "nop" or s.startswith(("StorageLive(", "StorageDead(", "Retag(", "FakeRead(", "PlaceMention(",
                                         "AscribeUserType(", "Coverage::", "ConstEvalCounter", "BackwardIncompatibleDropHint")):
            return ("nop",)
        m = re.match(r"goto -> bb(\d+)$", s)
        if m:
            return ("goto", int(m.group(1)))
        if s.startswith("switchInt("):
            j = find_matching(s, 9)
            op = self.parse_operand(s[10:j])
            rest = s[j + 1:].strip()
            assert rest.startswith("-> [")
            targets = []
            otherwise = None
            for part in split_top(rest[4:-1]):
                k, v = part.split(":")
                bb = int(v.strip()[2:])
                k = k.strip()
                if k == "otherwise":
                    otherwise = bb
                else:
                    targets.append((int(k), bb))
            return ("switch", op, targets, otherwise)
        if s.startswith("drop("):
            j = find_matching(s, 4)
            pl = self.parse_place(s[5:j])
            t = self.parse_targets(s[j + 1:].strip()[2:].strip())
            return ("drop", pl, t.get("return"))
        if s.startswith("assert("):
            j = find_matching(s, 6)
            inner = split_top(s[7:j])
            cond = inner[0]
            neg = False
            if cond.startswith("!"):
                neg = True
                cond = cond[1:]
            t = self.parse_targets(s[j + 1:].strip()[2:].strip())
            return ("assert", self.parse_operand(cond), not neg, inner[1] if len(inner) > 1 else "", t.get("success"))
        if s.startswith("assume("):
            return ("nop",)
        m = re.match(r"discriminant\((.*)\) = (\d+)$", s)
        if m:
            return ("setdiscr", self.parse_place(m.group(1)), int(m.group(2)))
        if s.startswith("Deinit("):
            return ("nop",)
        # assignment or call
        eq = self._find_assign(s)
        if eq is None:
            raise MirParseError("statement %r" % s)
        dest = self.parse_place(s[:eq])
        rhs = s[eq + 3:].strip()
        # call?  "<callee>(args) -> [return: bb, unwind ..]" or "-> unwind ..."
        arrow = self._find_call_arrow(rhs)
        if arrow is not None:
            callpart = rhs[:arrow].strip()
            targets = self.parse_targets(rhs[arrow + 2:].strip())
            # callee up to first '(' at angle depth 0
            depth = 0
            i = 0
            while i < len(callpart):
                c = callpart[i]
                if c == "<":
                    depth += 1
                elif c == ">" and not (i > 0 and callpart[i - 1] in "-="):
                    depth -= 1
                elif c == "{":
                    i = find_matching(callpart, i)
                elif c == "(" and depth == 0:
                    break
                i += 1
            callee = callpart[:i].strip()
            j = find_matching(callpart, i)
            if j != len(callpart) - 1:
                raise MirParseError("call syntax %r" % callpart)
            args = [self.parse_operand(a) for a in split_top(callpart[i + 1:j])]
            if callee.startswith(("move ", "copy ")):
                callee_op = self.parse_operand(callee)
                return ("callptr", dest, callee_op, args, targets.get("return"))
            return ("call", dest, callee, args, targets.get("return"))
        return ("assign", dest, self.parse_rvalue(rhs))

    def _find_assign(self, s):
        """index of ' = ' at depth 0 (outside literals)."""
        depth = 0
        i = 0
        n = len(s)
        while i < n - 2:
            c = s[i]
            if c == '"':
                i = scan_string(s, i)
                continue
            if c in "([{":
                depth += 1
            elif c in ")]}":
                depth -= 1
            elif depth == 0 and s[i:i + 3] == " = ":
                return i
            i += 1
        return None

    def _find_call_arrow(self, rhs):
        """index of the ' -> ' that introduces call targets, or None for plain rvalues."""
        m = None
        for m in re.finditer(r"\) -> (\[|unwind )", rhs):
            pass
        if m is None:
            return None
        # make sure it is not inside a string literal: scan from start
        i = 0
        n = len(rhs)
        target = m.start() + 2
        while i < n:
            c = rhs[i]
            if c == '"':
                e = scan_string(rhs, i)
                if i < target < e:
                    return None
                i = e
                continue
            i += 1
        return target


class Function:
    def __init__(self, name, kind):
        self.name = name          # full header name
        self.kind = kind          # 'fn' | 'const' | 'promoted' | 'static'
        self.params = []          # [(local, type)]
        self.ret_type = None
        self.locals = {}          # local -> type
        self.blocks = {}          # bb -> [stmts..., terminator]
        self.errors = []
        self.n_lines = 0
        self.text_hash = None
        self.debug = {}           # debug name -> local


def parse_mir(text):
    """-> (functions: dict name -> Function, consts: dict name -> const tuple, allocs)"""
    import hashlib
    P = Parser(text)
    lines = text.split("\n")
    fns = {}
    consts = {}
    i = 0
    n = len(lines)
    while i < n:
        line = lines[i]
        if line.startswith("const ") and line.rstrip().endswith(";"):
            # const NAME: T = const VALUE;
            m = re.match(r"const (.*?): (.*?) = const (.*);$", line.strip())
            if m:
                try:
                    consts[m.group(1)] = P.parse_const(m.group(3).strip())
                except MirParseError:
                    consts[m.group(1)] = ("unparsed", m.group(3))
            i += 1
            continue
        m = re.match(r"^(fn|const|static|static mut) (.*) \{\s*$", line)
        if m and not line.startswith(" "):
            kind = m.group(1)
            header = m.group(2)
            start = i
            # body until a line that is exactly "}"
            j = i + 1
            while j < n and lines[j] != "}":
                j += 1
            body = lines[i + 1:j]
            f = _parse_function(P, kind, header, body)
            f.text_hash = hashlib.sha1("\n".join(lines[start:j + 1]).encode()).hexdigest()[:12]
            f.n_lines = j - start
            fns[f.name] = f
            i = j + 1
            continue
        i += 1
    return fns, consts


def _parse_function(P, kind, header, body):
    if kind == "fn":
        # NAME(params) -> RET
        # find the param list: last top-level "(...)" before " -> " at depth 0 or end
        depth = 0
        k = 0
        name_end = None
        hn = len(header)
        while k < hn:
            c = header[k]
            if c == "<":
                depth += 1
            elif c == ">" and not (k > 0 and header[k - 1] in "-="):
                depth -= 1
            elif c == "{":
                k = find_matching(header, k)
            elif c == "(" and depth == 0:
                name_end = k
                break
            k += 1
        if name_end is None:
            f = Function(header, kind)
            f.errors.append("header")
            return f
        name = header[:name_end]
        pe = find_matching(header, name_end)
        f = Function(name, "fn")
        for p in split_top(header[name_end + 1:pe]):
            m = re.match(r"_(\d+): (.*)$", p)
            if m:
                f.params.append((int(m.group(1)), m.group(2)))
                f.locals[int(m.group(1))] = m.group(2)
        rest = header[pe + 1:].strip()
        f.ret_type = rest[2:].strip() if rest.startswith("->") else "()"
    else:
        # const NAME: TYPE =
        depth = 0
        cut = None
        for k, ch in enumerate(header):
            if ch in "<([{":
                depth += 1
            elif ch in ")]}" or (ch == ">" and not (k > 0 and header[k - 1] in "-=")):
                depth -= 1
            elif depth == 0 and header.startswith(": ", k):
                cut = k
                break
        name = header[:cut] if cut is not None else header
        f = Function(name, "promoted" if "promoted[" in name else kind)
        f.ret_type = header[cut + 2:].rstrip(" =") if cut is not None else None
    cur = None
    for raw in body:
        line = raw.strip()
        if not line or line.startswith("//"):
            continue
        m = re.match(r"let (mut )?_(\d+): (.*);$", line)
        if m:
            f.locals[int(m.group(2))] = m.group(3)
            continue
        m = re.match(r"debug (\S+) => _(\d+);", line)
        if m:
            f.debug[m.group(1)] = int(m.group(2))
            continue
        if line.startswith("debug ") or line.startswith("scope ") or line == "}":
            if line == "}" and cur is not None and raw.startswith("    }") and not raw.startswith("     "):
                cur = None
            continue
        m = re.match(r"bb(\d+)( \(cleanup\))?: \{$", line)
        if m:
            cur = int(m.group(1))
            f.blocks[cur] = []
            continue
        if cur is None:
            continue
        try:
            f.blocks[cur].append(P.parse_line(line))
        except (MirParseError, AssertionError, ValueError, IndexError) as ex:
            f.errors.append("bb%d: %s :: %s" % (cur, line, ex))
            f.blocks[cur].append(("unparsed", line, str(ex)))
    return f
