"""Semantic models of the std / third-party functions that riti's MIR calls.

Every model is small enough to read and works at the level of code-point sequences. A callee without
a model ends the path as Unsupported (=> inconclusive check), never as success."""
import os
import re

import z3

from .interp import PanicPath, Unsupported
from .program import base_type, find_matching, split_as, split_path, strip_generics
from .values import (Agg, Box, FnItem, Opaque, Ref, SMap, SString, SVec, Slice, Str, UNIT, add_vals, bv, bytelen,
                     deep_copy, err, is_sym, none, ok, simp, some, to_bool, width_of)


# ================================================================================= helpers

def deref(v):
    while isinstance(v, (Ref, Box)):
        v = v.get() if isinstance(v, Ref) else v.cell[0]
    return v


def elems_of(v):
    """Code points of anything string-like."""
    v = deref(v)
    if isinstance(v, (Str, SString)):
        return tuple(v.elems)
    if isinstance(v, Agg) and v.kind == "adt:Cow":
        return elems_of(v.fields[0])
    if isinstance(v, Opaque) and v.tag == "PathBuf":
        return tuple(v.payload)
    raise Unsupported("not a string value: %r" % (v,))


def char_eq(a, b):
    if not is_sym(a) and not is_sym(b):
        return a == b
    return simp(bv(a, 32) == bv(b, 32))


class ScalarKey(tuple):
    """Key of a map whose keys are integers / chars (HashMap<u16, _>): a 1-tuple holding the scalar."""
    __slots__ = ()


def key_component(d):
    """One component of a composite key: a scalar, or a field-less enum value (compared by its variant)."""
    d = deref(d)
    if isinstance(d, Agg) and d.variant is not None and not d.fields:
        return ("enum", d.kind, d.variant)
    if isinstance(d, bool):
        return d
    if isinstance(d, int) or is_sym(d):
        return d
    if isinstance(d, (Str, SString)):
        return ("str", tuple(d.elems))
    raise Unsupported("map key component %r" % (d,))


def map_key(v):
    """Key of the finite-map model: the code points of a string-like value, the scalar itself, or a tuple of scalars / plain enum values."""
    d = deref(v)
    if isinstance(d, Agg) and d.kind == "tuple":
        k = ScalarKey(tuple(key_component(x) for x in d.fields))
        KEY_SOURCES[id(k)] = d
        return k
    if isinstance(d, Agg) and d.variant is not None and not d.fields:
        return ScalarKey((key_component(d),))
    if isinstance(d, bool) or (not isinstance(d, int) and not is_sym(d)):
        return elems_of(v)
    return ScalarKey((d,))


KEY_SOURCES = {}


def comp_eq(x, y):
    if isinstance(x, tuple) or isinstance(y, tuple):
        if not (isinstance(x, tuple) and isinstance(y, tuple)) or x[0] != y[0]:
            return False
        if x[0] == "str":
            return str_eq(x[1], y[1])
        return x == y
    if isinstance(x, bool) or isinstance(y, bool):
        if not is_sym(x) and not is_sym(y):
            return x == y
        return simp(to_bool(x) == to_bool(y))
    if not is_sym(x) and not is_sym(y):
        return x == y
    w = x.size() if is_sym(x) else y.size()
    return simp(bv(x, w) == bv(y, w))


def key_eq(a, b):
    if isinstance(a, ScalarKey) or isinstance(b, ScalarKey):
        if not (isinstance(a, ScalarKey) and isinstance(b, ScalarKey)) or len(a) != len(b):
            return False
        conds = []
        for x, y in zip(a, b):
            e = comp_eq(x, y)
            if e is False:
                return False
            if e is not True:
                conds.append(e)
        return simp(z3.And(conds)) if conds else True
    return str_eq(a, b)


def key_value(k):
    """The key as a Rust value again (for iteration)."""
    if isinstance(k, ScalarKey):
        src = KEY_SOURCES.get(id(k))
        if src is not None:
            return src
        if len(k) == 1 and not isinstance(k[0], tuple):
            return k[0]
        raise Unsupported("iteration over a map with composite keys")
    return SString(list(k))


def str_eq(a, b):
    """Equality of two code-point sequences -> Python bool or z3 Bool."""
    if len(a) != len(b):
        return False
    conds = []
    for x, y in zip(a, b):
        e = char_eq(x, y)
        if e is False:
            return False
        if e is not True:
            conds.append(e)
    if not conds:
        return True
    return simp(z3.And(conds)) if len(conds) > 1 else conds[0]


def prefix_sums(elems):
    out = [0]
    for c in elems:
        out.append(add_vals(out[-1], width_of(c)))
    return out


def byte_to_index(it, elems, off, what):
    """Map a byte offset into the char index it denotes; panics (as Rust does) when the offset is past
    the end or not on a char boundary. Forks when the offset is symbolic."""
    ps = prefix_sums(elems)
    if not is_sym(off) and all(not is_sym(p) for p in ps):
        if off in ps:
            return ps.index(off)
        raise PanicPath("%s: byte index %d is not a char boundary / out of range" % (what, off))
    conds = []
    for p in ps:
        if not is_sym(p) and not is_sym(off):
            conds.append(p == off)
        else:
            conds.append(simp(bv(p, 64) == bv(off, 64)))
    for i, c in enumerate(conds):
        if c is True:
            return i
    live = [c for c in conds if c is not False]
    conds.append(simp(z3.Not(z3.Or(live))) if live else True)
    i = it.st.choose(conds)
    if i == len(conds) - 1:
        raise PanicPath("%s: byte index is not a char boundary / out of range" % what)
    return i


def option_of(v):
    v = deref(v) if isinstance(v, Ref) else v
    if isinstance(v, Agg) and v.kind in ("adt:Option", "adt:Result"):
        return v
    raise Unsupported("expected Option/Result, got %r" % (v,))


def as_int(it, v, lo=0, hi=64, what="length"):
    if is_sym(v):
        return it.st.concretize_int(v, lo, hi, what)
    return v


# ================================================================================= iterators

class It:
    """Base of iterator models."""
    double = False

    def next(self, it):
        raise Unsupported("next on %s" % type(self).__name__)

    def next_back(self, it):
        raise Unsupported("next_back on %s" % type(self).__name__)


class ItChars(It):
    def __init__(self, elems):
        self.elems = list(elems)
        self.lo = 0
        self.hi = len(self.elems)

    def next(self, it):
        if self.lo < self.hi:
            c = self.elems[self.lo]
            self.lo += 1
            return some(c)
        return none()

    def next_back(self, it):
        if self.lo < self.hi:
            self.hi -= 1
            return some(self.elems[self.hi])
        return none()


class ItCharIndices(It):
    def __init__(self, elems):
        self.elems = list(elems)
        self.ps = prefix_sums(self.elems)
        self.lo = 0
        self.hi = len(self.elems)

    def next(self, it):
        if self.lo < self.hi:
            i = self.lo
            self.lo += 1
            return some(Agg("tuple", None, [self.ps[i], self.elems[i]]))
        return none()

    def next_back(self, it):
        if self.lo < self.hi:
            self.hi -= 1
            return some(Agg("tuple", None, [self.ps[self.hi], self.elems[self.hi]]))
        return none()


class ItRev(It):
    def __init__(self, inner):
        self.inner = inner

    def next(self, it):
        return self.inner.next_back(it)

    def next_back(self, it):
        return self.inner.next(it)


class ItEnumerate(It):
    def __init__(self, inner):
        self.inner = inner
        self.n = 0

    def next(self, it):
        o = self.inner.next(it)
        if o.variant == 0:
            return o
        r = some(Agg("tuple", None, [self.n, o.fields[0]]))
        self.n += 1
        return r


class ItSkip(It):
    def __init__(self, inner, n):
        self.inner = inner
        self.n = n

    def next(self, it):
        while self.n > 0:
            self.n -= 1
            o = self.inner.next(it)
            if o.variant == 0:
                return o
        return self.inner.next(it)


class ItTake(It):
    def __init__(self, inner, n):
        self.inner = inner
        self.n = n

    def next(self, it):
        if self.n <= 0:
            return none()
        self.n -= 1
        return self.inner.next(it)


class ItSlice(It):
    """slice::Iter / IterMut: yields references to the elements."""

    def __init__(self, items, lo, hi, mut=False):
        self.items = items
        self.lo = lo
        self.hi = hi
        self.mut = mut

    def next(self, it):
        if self.lo < self.hi:
            r = Ref(self.items, self.lo, self.mut)
            self.lo += 1
            return some(r)
        return none()

    def next_back(self, it):
        if self.lo < self.hi:
            self.hi -= 1
            return some(Ref(self.items, self.hi, self.mut))
        return none()


class ItOwned(It):
    """vec::IntoIter / array::IntoIter: yields the elements by value."""

    def __init__(self, items):
        self.items = list(items)
        self.lo = 0

    def next(self, it):
        if self.lo < len(self.items):
            v = self.items[self.lo]
            self.lo += 1
            return some(v)
        return none()


class ItRange(It):
    def __init__(self, lo, hi):
        self.lo = lo
        self.hi = hi

    def next_back(self, it):
        if is_sym(self.lo) or is_sym(self.hi):
            if it.st.branch(simp(z3.ULT(bv(self.lo, 64), bv(self.hi, 64)))):
                self.hi = simp(bv(self.hi, 64) - 1)
                return some(self.hi)
            return none()
        if self.lo < self.hi:
            self.hi -= 1
            return some(self.hi)
        return none()

    def next(self, it):
        if is_sym(self.lo) or is_sym(self.hi):
            if it.st.branch(simp(z3.ULT(bv(self.lo, 64), bv(self.hi, 64)))):
                v = self.lo
                self.lo = add_vals(self.lo, 1)
                return some(v)
            return none()
        if self.lo < self.hi:
            v = self.lo
            self.lo += 1
            return some(v)
        return none()


class ItRangeFrom(It):
    def __init__(self, lo, bits):
        self.lo = lo
        self.bits = bits

    def next(self, it):
        v = self.lo
        if v >= (1 << self.bits):
            raise PanicPath("attempt to add with overflow (RangeFrom)")
        self.lo += 1
        return some(v)


class ItMap(It):
    def __init__(self, inner, f):
        self.inner = inner
        self.f = f

    def next(self, it):
        o = self.inner.next(it)
        if o.variant == 0:
            return o
        return some(it.call_value(self.f, [o.fields[0]]))


class ItFilter(It):
    def __init__(self, inner, f):
        self.inner = inner
        self.f = f

    def next(self, it):
        while True:
            o = self.inner.next(it)
            if o.variant == 0:
                return o
            v = o.fields[0]
            keep = it.call_value(self.f, [Ref([v], 0)])
            if it.st.branch(keep):
                return some(v)


class ItZip(It):
    def __init__(self, a, b):
        self.a = a
        self.b = b

    def next(self, it):
        x = self.a.next(it)
        if x.variant == 0:
            return x
        y = self.b.next(it)
        if y.variant == 0:
            return y
        return some(Agg("tuple", None, [x.fields[0], y.fields[0]]))


class ItFlatMap(It):
    def __init__(self, inner, f):
        self.inner = inner
        self.f = f
        self.cur = None

    def next(self, it):
        while True:
            if self.cur is not None:
                o = self.cur.next(it)
                if o.variant == 1:
                    return o
                self.cur = None
            o = self.inner.next(it)
            if o.variant == 0:
                return o
            self.cur = to_iter(it, it.call_value(self.f, [o.fields[0]]) if self.f is not None else o.fields[0])


def to_iter(it, v):
    """IntoIterator::into_iter on a value."""
    if isinstance(v, It):
        return v
    if isinstance(v, SVec):
        return ItOwned(v.items)
    if isinstance(v, Agg) and v.kind == "array":
        return ItOwned(v.fields)
    if isinstance(v, Agg) and v.kind == "adt:Option":
        return ItOwned(list(v.fields) if v.variant == 1 else [])
    if isinstance(v, SMap):
        if v.oracle is not None:
            raise Unsupported("iteration over an oracle-backed map")
        return ItOwned([Agg("tuple", None, [SString(k), x]) for k, x in v.entries])
    if isinstance(v, Agg) and v.kind == "adt:Range":
        return ItRange(v.fields[0], v.fields[1])
    if isinstance(v, Agg) and v.kind == "adt:RangeFrom":
        return ItRangeFrom(v.fields[0], 8)
    if isinstance(v, Agg) and v.kind == "adt:RangeInclusive":
        return ItRange(v.fields[0], add_vals(v.fields[1], 1))
    if isinstance(v, Ref):
        t = v.get()
        if isinstance(t, It):
            return t
        if isinstance(t, SVec):
            return ItSlice(t.items, 0, len(t.items), v.mut)
        if isinstance(t, Agg) and t.kind == "array":
            return ItSlice(t.fields, 0, len(t.fields), v.mut)
    if isinstance(v, Slice):
        return ItSlice(v.items, v.lo, v.hi)
    raise Unsupported("into_iter on %r" % (v,))


def slice_of(v):
    """Anything slice-like -> Slice view."""
    if isinstance(v, Slice):
        return v
    if isinstance(v, Ref):
        return slice_of(v.get())
    if isinstance(v, SVec):
        return Slice(v.items)
    if isinstance(v, Agg) and v.kind == "array":
        return Slice(v.fields)
    raise Unsupported("not a slice: %r" % (v,))


# ================================================================================= the registry

class Models:
    def __init__(self):
        self.table = {}
        self._keys = {}
        self._lookups = {}
        self.exact = {}
        self.override = set()
        register_all(self)

    def reg(self, *keys, override=False):
        def deco(f):
            for k in keys:
                self.table[k] = f
                if override:
                    self.override.add(k)
            return f
        return deco

    def key_of(self, callee):
        k = self._keys.get(callee)
        if k is None:
            k = self._keys[callee] = self._key_of(callee)
        return k

    def _key_of(self, callee):
        s = callee.strip()
        if s.startswith("<") and (not s.startswith("<impl") or split_as(s[1:find_matching(s, 0)])[1] is not None):
            j = find_matching(s, 0)
            inner = s[1:j]
            rest = s[j + 1:]
            t, tr = split_as(inner)
            method = strip_generics(rest.lstrip(":")).split("::")[0] if rest else ""
            if tr is not None:
                tb = strip_generics(tr).split("::")[-1]
                return "%s::%s" % (tb, method)
            return "%s::%s" % (base_type(t), method)
        segs = [strip_generics(x) for x in split_path(strip_generics(s))]
        segs = [re.sub(r"^<impl (.*)>$", lambda m: base_type(m.group(1)), x) for x in segs]
        segs = [x for x in segs if x]
        return "::".join(segs)

    def lookup(self, key, callee):
        if key in self._lookups:
            return self._lookups[key]
        r = self._lookups[key] = self._lookup(key, callee)
        return r

    def _lookup(self, key, callee):
        if key in self.table:
            return self.table[key]
        segs = key.split("::")
        for n in (2, 1):
            k = "::".join(segs[-n:])
            if len(segs) >= n and k in self.table:
                return self.table[k]
        return None

    def overrides(self, key, callee):
        if key in self.override:
            return True
        segs = key.split("::")
        return "::".join(segs[-2:]) in self.override or segs[-1] in self.override


def register_all(M):
    reg = M.reg

    # ----------------------------------------------------------------- no-ops / identity
    @reg("must_use", "mem::drop", "drop", "Into::into@id")
    def m_identity(it, args, callee):
        return args[0] if callee.startswith("must_use") else UNIT

    @reg("Deref::deref", "DerefMut::deref_mut", "Borrow::borrow", "AsRef::as_ref")
    def m_deref(it, args, callee):
        v = args[0]
        t = deref(v)
        if isinstance(t, SString):
            return Str(t.elems)
        if isinstance(t, Str):
            return t
        if isinstance(t, SVec):
            return Slice(t.items)
        if isinstance(t, Agg) and t.kind == "adt:Cow":
            inner = deref(t.fields[0])
            if isinstance(inner, (Str, SString)):
                return Str(inner.elems)
            # Cow<T> of another type: a reference to the borrowed or the owned value
            return t.fields[0] if isinstance(t.fields[0], Ref) else Ref(t.fields, 0)
        if isinstance(t, Opaque) and t.tag in ("PathBuf", "bytes"):
            return t
        if isinstance(t, Agg) and t.kind in ("adt:RefMut", "adt:CellRef"):
            return t.fields[0]
        if isinstance(t, Box):
            return Ref(t.cell, 0)
        raise Unsupported("deref model on %r (%s)" % (t, callee))

    @reg("Fn::call", "FnMut::call_mut", "FnOnce::call_once")
    def m_fn_call(it, args, callee):
        tup = args[1]
        a = list(tup.fields) if isinstance(tup, Agg) else []
        return it.call_value(args[0], a)

    # ----------------------------------------------------------------- String
    @reg("String::new", "String::default")
    def m_string_new(it, args, callee):
        return SString()

    @reg("String::with_capacity")
    def m_string_with_capacity(it, args, callee):
        return SString()

    @reg("String::push")
    def m_string_push(it, args, callee):
        deref(args[0]).elems.append(args[1])
        return UNIT

    @reg("String::push_str")
    def m_string_push_str(it, args, callee):
        deref(args[0]).elems.extend(elems_of(args[1]))
        return UNIT

    @reg("String::pop")
    def m_string_pop(it, args, callee):
        s = deref(args[0])
        if s.elems:
            return some(s.elems.pop())
        return none()

    @reg("String::clear")
    def m_string_clear(it, args, callee):
        del deref(args[0]).elems[:]
        return UNIT

    @reg("String::len", "str::len")
    def m_str_len(it, args, callee):
        return bytelen(elems_of(args[0]))

    @reg("String::capacity")
    def m_string_capacity(it, args, callee):
        return bytelen(elems_of(args[0]))

    @reg("String::is_empty", "str::is_empty")
    def m_str_is_empty(it, args, callee):
        return len(elems_of(args[0])) == 0

    @reg("String::truncate")
    def m_string_truncate(it, args, callee):
        s = deref(args[0])
        n = args[1]
        total = bytelen(s.elems)
        if not is_sym(n) and not is_sym(total):
            if n >= total:
                return UNIT
        else:
            if it.st.branch(simp(z3.UGE(bv(n, 64), bv(total, 64)))):
                return UNIT
        k = byte_to_index(it, s.elems, n, "String::truncate")
        del s.elems[k:]
        return UNIT

    @reg("String::insert")
    def m_string_insert(it, args, callee):
        s2 = deref(args[0])
        k = byte_to_index(it, s2.elems, args[1], "String::insert")
        s2.elems.insert(k, args[2])
        return UNIT

    @reg("String::insert_str")
    def m_string_insert_str(it, args, callee):
        s2 = deref(args[0])
        k = byte_to_index(it, s2.elems, args[1], "String::insert_str")
        s2.elems[k:k] = list(elems_of(args[2]))
        return UNIT

    @reg("String::remove")
    def m_string_remove(it, args, callee):
        s2 = deref(args[0])
        k = byte_to_index(it, s2.elems, args[1], "String::remove")
        if k >= len(s2.elems):
            raise PanicPath("cannot remove a char from the end of a string")
        return s2.elems.pop(k)

    @reg("str::to_lowercase", "str::to_uppercase", "str::trim", "str::replace")
    def m_str_unsupported(it, args, callee):
        raise Unsupported("no model for %s" % callee)

    @reg("String::as_str", "String::deref")
    def m_string_as_str(it, args, callee):
        return Str(elems_of(args[0]))

    @reg("String::into_bytes")
    def m_string_into_bytes(it, args, callee):
        return Opaque("bytes", elems_of(args[0]))

    @reg("Clone::clone", "ToOwned::to_owned", "Option::cloned")
    def m_clone(it, args, callee):
        v = args[0]
        if callee.startswith("Option"):
            o = option_of(v)
            if o.variant == 0:
                return none()
            return some(clone_value(it, deref(o.fields[0])))
        return clone_value(it, deref(v))

    def clone_value(it, t):
        if isinstance(t, Str):
            return SString(t.elems)
        if isinstance(t, Agg) and t.kind == "adt:Rank":
            f = it.p.find_trait_fn("Rank", "Clone", "clone")
            return it.call_function(f, [Ref([t], 0)])
        if isinstance(t, SVec):
            return SVec([clone_value(it, x) for x in t.items])
        return deep_copy(t)

    @reg("ToString::to_string")
    def m_to_string(it, args, callee):
        v = deref(args[0])
        if "<char as " in callee and not isinstance(v, (Str, SString, Agg, Opaque)):
            return SString([v])
        return SString(elems_of(args[0]))

    @reg("Into::into", "From::from")
    def m_into(it, args, callee):
        m = re.match(r"<(.*)>::(into|from)$", callee.strip())
        inner = m.group(1) if m else ""
        t, tr = split_as(inner)
        target = tr[tr.index("<") + 1:tr.rindex(">")] if tr and "<" in tr else ""
        src, dst = (t, target) if callee.strip().endswith("into") else (target, t)
        v = args[0]
        db = base_type(dst)
        if db in ("String",):
            return SString(elems_of(v))
        if db == "Cow":
            d = deref(v)
            if isinstance(d, Str):
                return Agg("adt:Cow", 0, [d])
            return Agg("adt:Cow", 1, [SString(elems_of(v))])
        if db == "PathBuf":
            return Opaque("PathBuf", elems_of(v))
        if db == "Vec" and "u8" in dst:
            return Opaque("bytes", elems_of(v))
        if db == "usize" and base_type(src) in ("u8", "u16", "u32"):
            return v if not is_sym(v) else simp(bv(v, 64))
        INTB = {"u8": 8, "u16": 16, "u32": 32, "u64": 64, "usize": 64, "char": 32}
        sb = base_type(src)
        if db in INTB and sb in INTB and INTB[db] >= INTB[sb] and not (db == "char" and sb not in ("u8", "char")):
            # lossless widening (u8 -> u32, char -> u32, u8 -> char ...)
            d = deref(v)
            if not is_sym(d):
                return d
            return simp(z3.ZeroExt(INTB[db] - d.size(), d)) if d.size() < INTB[db] else d
        if db == "LayoutModifiers":
            f = it.p.find_trait_fn("LayoutModifiers", "From", "from")
            return it.call_function(f, [v])
        raise Unsupported("Into/From %s" % callee)

    @reg("TryFrom::try_from", "TryInto::try_into")
    def m_try_from(it, args, callee):
        m = re.match(r"<(.*)>::(try_into|try_from)$", callee.strip())
        inner = m.group(1) if m else ""
        t, tr = split_as(inner)
        target = tr[tr.index("<") + 1:tr.rindex(">")] if tr and "<" in tr else ""
        src, dst = (t, target) if callee.strip().endswith("try_into") else (target, t)
        INTB = {"u8": 8, "u16": 16, "u32": 32, "u64": 64, "usize": 64, "char": 32}
        sb, db = base_type(src), base_type(dst)
        if sb not in INTB or db not in INTB:
            raise Unsupported("TryFrom %s" % callee)
        d = deref(args[0])
        top = (1 << INTB[db]) - 1
        if db == "char":
            if not is_sym(d):
                return ok(d) if (d <= 0x10FFFF and not 0xD800 <= d <= 0xDFFF) else err(Opaque("CharTryFromError"))
            x = bv(d, 32) if d.size() <= 32 else d
            fits = z3.And(z3.ULE(x, 0x10FFFF), z3.Or(z3.ULT(x, 0xD800), z3.UGT(x, 0xDFFF)))
            return ok(simp(z3.Extract(31, 0, x)) if x.size() > 32 else x) if it.st.branch(simp(fits)) else err(Opaque("CharTryFromError"))
        if not is_sym(d):
            return ok(d) if d <= top else err(Opaque("TryFromIntError"))
        if d.size() <= INTB[db]:
            return ok(simp(z3.ZeroExt(INTB[db] - d.size(), d)) if d.size() < INTB[db] else d)
        if it.st.branch(simp(z3.ULE(d, top))):
            return ok(simp(z3.Extract(INTB[db] - 1, 0, d)))
        return err(Opaque("TryFromIntError"))

    @reg("char::from_u32")
    def m_char_from_u32(it, args, callee):
        r = m_try_from(it, args, "<char as TryFrom<u32>>::try_from")
        return some(r.fields[0]) if r.variant == 0 else none()

    @reg("Add::add")
    def m_string_add(it, args, callee):
        s = args[0]
        s.elems.extend(elems_of(args[1]))
        return s

    # ----------------------------------------------------------------- str
    @reg("str::chars")
    def m_chars(it, args, callee):
        return ItChars(elems_of(args[0]))

    @reg("str::char_indices")
    def m_char_indices(it, args, callee):
        return ItCharIndices(elems_of(args[0]))

    @reg("str::contains")
    def m_str_contains(it, args, callee):
        if "<char>" not in callee:
            pat = args[1]
            dp = deref(pat) if isinstance(pat, Ref) else pat
            el = elems_of(args[0])
            if isinstance(dp, Agg) and dp.kind.startswith("closure:") or isinstance(dp, FnItem):
                for ch in el:
                    if it.st.branch(it.call_value(dp, [ch])):
                        return True
                return False
            if isinstance(dp, (Str, SString)):
                needle = elems_of(dp)
                if len(needle) == 0:
                    return True
                conds = []
                for i in range(0, len(el) - len(needle) + 1):
                    e = str_eq(el[i:i + len(needle)], needle)
                    if e is True:
                        return True
                    if e is not False:
                        conds.append(e)
                return simp(z3.Or(conds)) if conds else False
            if isinstance(dp, (Slice, SVec)) or (isinstance(dp, Agg) and dp.kind == "array"):
                sl = slice_of(dp)
                chars = [sl.items[k] for k in range(sl.lo, sl.hi)]
                conds = []
                for ch in el:
                    for pc in chars:
                        e = char_eq(ch, pc)
                        if e is True:
                            return True
                        if e is not False:
                            conds.append(e)
                return simp(z3.Or(conds)) if conds else False
            raise Unsupported("str::contains with pattern %r" % (dp,))
        hay = elems_of(args[0])
        c = args[1]
        if is_sym(c) and all(not is_sym(h) for h in hay):
            # concrete haystack: membership as a few range tests
            vs = sorted(set(hay))
            terms = []
            i = 0
            while i < len(vs):
                j = i
                while j + 1 < len(vs) and vs[j + 1] == vs[j] + 1:
                    j += 1
                terms.append(c == vs[i] if i == j else z3.And(z3.UGE(c, vs[i]), z3.ULE(c, vs[j])))
                i = j + 1
            if not terms:
                return False
            return simp(z3.Or(terms)) if len(terms) > 1 else simp(terms[0])
        conds = []
        for h in hay:
            e = char_eq(h, c)
            if e is True:
                return True
            if e is not False:
                conds.append(e)
        if not conds:
            return False
        return simp(z3.Or(conds))

    @reg("str::find")
    def m_str_find(it, args, callee):
        el = elems_of(args[0])
        off = 0
        pat = args[1]
        dp = deref(pat) if isinstance(pat, Ref) else pat
        callable_pat = isinstance(dp, FnItem) or (isinstance(dp, Agg) and dp.kind.startswith("closure:")) or callable(dp)
        if isinstance(dp, (Str, SString)) and len(dp.elems) != 1:
            raise Unsupported("str::find with a string pattern")
        for c in el:
            if callable_pat:
                hit = it.st.branch(it.call_value(pat, [c]))
            elif isinstance(dp, (Str, SString)):
                hit = it.st.branch(char_eq(c, dp.elems[0]))
            elif isinstance(dp, (Slice, SVec)) or (isinstance(dp, Agg) and dp.kind == "array"):
                sl = slice_of(dp)
                alts = [char_eq(c, sl.items[k]) for k in range(sl.lo, sl.hi)]
                hit = True if any(a is True for a in alts) else (it.st.branch(simp(z3.Or([a for a in alts if a is not False]))) if any(a is not False for a in alts) else False)
            else:
                hit = it.st.branch(char_eq(c, dp))
            if hit:
                return some(off)
            off = add_vals(off, width_of(c))
        return none()

    @reg("str::split_at")
    def m_split_at(it, args, callee):
        el = elems_of(args[0])
        k = byte_to_index(it, el, args[1], "str::split_at")
        return Agg("tuple", None, [Str(el[:k]), Str(el[k:])])

    @reg("str::get")
    def m_str_get(it, args, callee):
        el = elems_of(args[0])
        r = args[1]
        if not (isinstance(r, Agg) and r.kind in ("adt:Range", "adt:RangeFrom", "adt:RangeTo", "adt:RangeFull")):
            raise Unsupported("str::get with %r" % (r,))
        ps = prefix_sums(el)
        total = ps[-1]
        lo = r.fields[0] if r.kind in ("adt:Range", "adt:RangeFrom") else 0
        hi = r.fields[1] if r.kind == "adt:Range" else (r.fields[0] if r.kind == "adt:RangeTo" else total)

        def idx(off):
            # Option-returning variant: None when off is not a boundary / out of range
            if not is_sym(off) and all(not is_sym(p) for p in ps):
                return ps.index(off) if off in ps else None
            conds = [simp(bv(p, 64) == bv(off, 64)) if (is_sym(p) or is_sym(off)) else p == off for p in ps]
            for i, c in enumerate(conds):
                if c is True:
                    return i
            live = [c for c in conds if c is not False]
            conds.append(simp(z3.Not(z3.Or(live))) if live else True)
            i = it.st.choose(conds)
            return None if i == len(conds) - 1 else i
        a = idx(lo)
        b = idx(hi)
        if a is None or b is None or a > b:
            return none()
        return some(Str(el[a:b]))

    @reg("Index::index", "IndexMut::index_mut")
    def m_index(it, args, callee):
        base = deref(args[0]) if isinstance(args[0], Ref) else args[0]
        i = args[1]
        if isinstance(i, Agg) and i.kind == "adt:RangeFull":
            if isinstance(base, (Str, SString)):
                return Str(base.elems)
            return slice_of(base)
        if isinstance(i, FnItem):
            raise Unsupported("index with %r" % (i,))
        if isinstance(base, (Str, SString)):
            el = tuple(base.elems)
            if isinstance(i, Agg) and i.kind in ("adt:Range", "adt:RangeFrom", "adt:RangeTo"):
                if i.kind == "adt:Range":
                    lo, hi = i.fields
                elif i.kind == "adt:RangeFrom":
                    lo, hi = i.fields[0], None
                else:
                    lo, hi = 0, i.fields[0]
                a = byte_to_index(it, el, lo, "str index start")
                b = len(el) if hi is None else byte_to_index(it, el, hi, "str index end")
                if a > b:
                    raise PanicPath("str index: start > end")
                return Str(el[a:b])
            raise Unsupported("str index with %r" % (i,))
        if (isinstance(base, (SVec, Slice)) or (isinstance(base, Agg) and base.kind == "array")) and isinstance(i, Agg) and i.kind in ("adt:Range", "adt:RangeFrom", "adt:RangeTo"):
            sl = slice_of(base)
            n = len(sl)
            lo = i.fields[0] if i.kind in ("adt:Range", "adt:RangeFrom") else 0
            hi = i.fields[1] if i.kind == "adt:Range" else (i.fields[0] if i.kind == "adt:RangeTo" else n)
            lo = as_int(it, lo, 0, n + 8, "slice start")
            hi = as_int(it, hi, 0, n + 8, "slice end")
            if lo > hi:
                raise PanicPath("slice index starts at %d but ends at %d" % (lo, hi))
            if hi > n:
                raise PanicPath("range end index %d out of range for slice of length %d" % (hi, n))
            return Slice(sl.items, sl.lo + lo, sl.lo + hi)
        if isinstance(base, (SVec, Slice)) or (isinstance(base, Agg) and base.kind == "array"):
            sl = slice_of(base)
            n = len(sl)
            if is_sym(i):
                conds = [simp(bv(i, 64) == k) for k in range(n)]
                conds.append(simp(z3.UGE(bv(i, 64), n)))
                k = it.st.choose(conds)
                if k == n:
                    raise PanicPath("index out of bounds: the len is %d" % n)
                i = k
            if i >= n:
                raise PanicPath("index out of bounds: the len is %d but the index is %d" % (n, i))
            return Ref(sl.items, sl.lo + i)
        if isinstance(base, Opaque) and base.tag == "json":
            return Ref([Opaque("json", ("index", base.payload, elems_of(i)))], 0)
        if isinstance(base, SMap):
            r = m_map_get(it, [args[0], args[1]], callee)
            if r.variant != 1:
                raise PanicPath("HashMap index: key not found")
            return r.fields[0]
        raise Unsupported("Index on %r" % (base,))

    @reg("PartialEq::eq", "PartialEq::ne")
    def m_eq(it, args, callee):
        a = deref(args[0])
        b = deref(args[1])
        neg = callee.strip().endswith("ne")
        if isinstance(a, (Str, SString)) or isinstance(b, (Str, SString)) or (isinstance(a, Agg) and a.kind == "adt:Cow"):
            r = str_eq(elems_of(a), elems_of(b))
        elif isinstance(a, Opaque) and a.tag == "PathBuf":
            r = str_eq(a.payload, b.payload)
        elif isinstance(a, Opaque) and a.tag == "time" and isinstance(b, Opaque):
            x, y = a.payload, b.payload
            r = (x == y) if not (is_sym(x) or is_sym(y)) else simp(bv(x, 64) == bv(y, 64))
        elif isinstance(a, Agg) and a.kind == "adt:Rank":
            f = it.p.find_trait_fn("Rank", "PartialEq", "eq")
            r = it.call_function(f, [args[0], args[1]])
        elif isinstance(a, Agg) and isinstance(b, Agg) and a.kind in ("adt:Option", "tuple") and a.kind == b.kind:
            r = struct_eq(a, b)
        elif isinstance(a, (Slice, SVec)) or (isinstance(a, Agg) and a.kind == "array") or isinstance(b, (Slice, SVec)):
            sa, sb = slice_of(a), slice_of(b)
            xa = [sa.items[k] for k in range(sa.lo, sa.hi)]
            xb = [sb.items[k] for k in range(sb.lo, sb.hi)]
            if len(xa) != len(xb):
                r = False
            elif any(isinstance(x, (Agg, SString, Str)) for x in xa + xb):
                raise Unsupported("slice equality on non-scalar elements")
            else:
                conds = [simp(bv(x, 8) == bv(y, 8)) if (is_sym(x) or is_sym(y)) else (x == y) for x, y in zip(xa, xb)]
                if any(c is False for c in conds):
                    r = False
                else:
                    cs = [c for c in conds if c is not True]
                    r = True if not cs else simp(z3.And(cs))
        elif not isinstance(a, Agg) and not isinstance(b, Agg) and (isinstance(a, (int, bool)) or is_sym(a)):
            r = char_eq(a, b) if not (isinstance(a, bool) or (is_sym(a) and z3.is_bool(a))) else simp(to_z(a) == to_z(b))
        else:
            raise Unsupported("PartialEq on %r (%s)" % (a, callee))
        if neg:
            return (not r) if isinstance(r, bool) else simp(z3.Not(r))
        return r

    def struct_eq(a, b):
        """Derived PartialEq on Option / tuples of scalars and strings."""
        if a.variant != b.variant or len(a.fields) != len(b.fields):
            return False
        conds = []
        for x, y in zip(a.fields, b.fields):
            x, y = deref(x), deref(y)
            if isinstance(x, Agg) and isinstance(y, Agg):
                e = struct_eq(x, y)
            elif isinstance(x, (Str, SString)):
                e = str_eq(elems_of(x), elems_of(y))
            elif isinstance(x, bool) or (is_sym(x) and z3.is_bool(x)):
                e = simp(to_z(x) == to_z(y))
            elif isinstance(x, int) or is_sym(x):
                e = char_eq(x, y) if (not is_sym(x) or x.size() == 32) and (not is_sym(y) or y.size() == 32) else simp(x == y)
            else:
                raise Unsupported("PartialEq on field %r" % (x,))
            if e is False:
                return False
            if e is not True:
                conds.append(e)
        if not conds:
            return True
        return simp(z3.And(conds))

    @reg("Ord::cmp")
    def m_cmp(it, args, callee):
        a = deref(args[0])
        b = deref(args[1])
        if isinstance(a, Agg):
            raise Unsupported("Ord::cmp on aggregate")
        lt = simp(z3.ULT(bv(a, 8), bv(b, 8))) if (is_sym(a) or is_sym(b)) else a < b
        eq = char_eq(a, b) if (is_sym(a) or is_sym(b)) else a == b
        if is_sym(a) or is_sym(b):
            eq = simp(bv(a, 8) == bv(b, 8))
        i = it.st.choose([lt, eq, simp(z3.Not(z3.Or(to_z(lt), to_z(eq)))) if (is_sym(lt) or is_sym(eq)) else (not lt and not eq)])
        return Agg("adt:Ordering", (-1, 0, 1)[i], [])

    def to_z(v):
        return v if is_sym(v) else z3.BoolVal(bool(v))

    @reg("Ord::min", "Ord::max", "cmp::min", "cmp::max")
    def m_min_max(it, args, callee):
        a, b = deref(args[0]), deref(args[1])
        if isinstance(a, Agg) or isinstance(b, Agg):
            raise Unsupported("min/max on aggregates")
        is_min = callee.strip().split("::")[-1].startswith("min") or "::min" in callee
        if not is_sym(a) and not is_sym(b):
            return min(a, b) if is_min else max(a, b)
        bits = a.size() if is_sym(a) else b.size()
        le = z3.ULE(bv(a, bits), bv(b, bits))
        return simp(z3.If(le, bv(a, bits), bv(b, bits)) if is_min else z3.If(le, bv(b, bits), bv(a, bits)))

    @reg("PartialOrd::gt", "PartialOrd::lt", "PartialOrd::ge", "PartialOrd::le")
    def m_gt(it, args, callee):
        a = deref(args[0])
        b = deref(args[1])
        op = callee.strip().split("::")[-1]
        if isinstance(a, Opaque) and a.tag == "time":
            x, y = a.payload, b.payload
        elif not isinstance(a, (Agg, Opaque)) and not isinstance(b, (Agg, Opaque)):
            x, y = a, b
        else:
            raise Unsupported("PartialOrd::%s on %r" % (op, a))
        if is_sym(x) or is_sym(y):
            bits = x.size() if is_sym(x) else y.size()
            f = {"gt": z3.UGT, "lt": z3.ULT, "ge": z3.UGE, "le": z3.ULE}[op]
            return simp(f(bv(x, bits), bv(y, bits)))
        return {"gt": x > y, "lt": x < y, "ge": x >= y, "le": x <= y}[op]

    # ----------------------------------------------------------------- char
    @reg("char::len_utf8")
    def m_len_utf8(it, args, callee):
        return width_of(args[0])

    # ----------------------------------------------------------------- Option / Result
    @reg("Option::unwrap", "Result::unwrap", "Option::expect", "Result::expect")
    def m_unwrap(it, args, callee):
        o = option_of(args[0])
        is_opt = o.kind == "adt:Option"
        good = (o.variant == 1) if is_opt else (o.variant == 0)
        if not good:
            raise PanicPath("called `%s::unwrap()` on a `%s` value" % ("Option" if is_opt else "Result", "None" if is_opt else "Err"))
        return o.fields[0]

    @reg("Option::unwrap_or_default")
    def m_unwrap_or_default(it, args, callee):
        o = option_of(args[0])
        if o.variant == 1:
            return o.fields[0]
        m = re.match(r"Option::<(.*)>::unwrap_or_default", callee.strip())
        t = m.group(1).strip() if m else ""
        if t == "char" or t in ("usize", "u8", "u16", "u32", "u64"):
            return 0
        if t == "&str":
            return Str(())
        if t.startswith("Vec<"):
            return SVec()
        if t.startswith("&["):
            return Slice([])
        if t == "bool":
            return False
        raise Unsupported("unwrap_or_default for %s" % t)

    @reg("Try::branch")
    def m_try_branch(it, args, callee):
        o = option_of(args[0])
        good = (o.variant == 1) if o.kind == "adt:Option" else (o.variant == 0)
        if good:
            return Agg("adt:ControlFlow", 0, [o.fields[0]])
        return Agg("adt:ControlFlow", 1, [o if o.kind == "adt:Result" else none()])

    @reg("FromResidual::from_residual")
    def m_from_residual(it, args, callee):
        r = args[0]
        if isinstance(r, Agg) and r.kind == "adt:Result":
            return r
        return none()

    @reg("Option::is_some")
    def m_is_some(it, args, callee):
        return option_of(args[0]).variant == 1

    @reg("Option::is_none")
    def m_is_none(it, args, callee):
        return option_of(args[0]).variant == 0

    @reg("Option::map")
    def m_opt_map(it, args, callee):
        o = option_of(args[0])
        if o.variant == 0:
            return none()
        return some(it.call_value(args[1], [o.fields[0]]))

    @reg("Option::and_then")
    def m_opt_and_then(it, args, callee):
        o = option_of(args[0])
        if o.variant == 0:
            return none()
        return it.call_value(args[1], [o.fields[0]])

    @reg("Option::or_else")
    def m_opt_or_else(it, args, callee):
        o = option_of(args[0])
        if o.variant == 1:
            return o
        return it.call_value(args[1], [])

    @reg("Option::unwrap_or_else")
    def m_opt_unwrap_or_else(it, args, callee):
        o = option_of(args[0])
        if o.variant == 1:
            return o.fields[0]
        return it.call_value(args[1], [])

    @reg("Option::filter")
    def m_opt_filter(it, args, callee):
        o = option_of(args[0])
        if o.variant == 0:
            return none()
        keep = it.call_value(args[1], [Ref([o.fields[0]], 0)])
        if it.st.branch(keep):
            return o
        return none()

    @reg("Option::copied")
    def m_opt_copied(it, args, callee):
        o = option_of(args[0])
        if o.variant == 0:
            return none()
        return some(deref(o.fields[0]))

    @reg("Result::ok")
    def m_res_ok(it, args, callee):
        o = option_of(args[0])
        return some(o.fields[0]) if o.variant == 0 else none()

    @reg("Result::map")
    def m_res_map(it, args, callee):
        o = option_of(args[0])
        if o.variant == 1:
            return o
        return ok(it.call_value(args[1], [o.fields[0]]))

    # ----------------------------------------------------------------- iterators (generic protocol)
    @reg("Iterator::next")
    def m_next(it, args, callee):
        return deref(args[0]).next(it)

    @reg("DoubleEndedIterator::next_back")
    def m_next_back(it, args, callee):
        return deref(args[0]).next_back(it)

    @reg("IntoIterator::into_iter")
    def m_into_iter(it, args, callee):
        return to_iter(it, args[0])

    @reg("Iterator::rev")
    def m_rev(it, args, callee):
        return ItRev(to_iter(it, args[0]))

    @reg("Iterator::enumerate")
    def m_enumerate(it, args, callee):
        return ItEnumerate(to_iter(it, args[0]))

    @reg("Iterator::skip")
    def m_skip(it, args, callee):
        return ItSkip(to_iter(it, args[0]), as_int(it, args[1], 0, 64, "skip count"))

    @reg("Iterator::take")
    def m_take(it, args, callee):
        return ItTake(to_iter(it, args[0]), as_int(it, args[1], 0, 64, "take count"))

    @reg("Iterator::map")
    def m_map(it, args, callee):
        return ItMap(to_iter(it, args[0]), args[1])

    @reg("Iterator::filter")
    def m_filter(it, args, callee):
        return ItFilter(to_iter(it, args[0]), args[1])

    @reg("Iterator::zip")
    def m_zip(it, args, callee):
        return ItZip(to_iter(it, args[0]), to_iter(it, args[1]))

    @reg("Iterator::flat_map")
    def m_flat_map(it, args, callee):
        return ItFlatMap(to_iter(it, args[0]), args[1])

    @reg("Iterator::flatten")
    def m_flatten(it, args, callee):
        return ItFlatMap(to_iter(it, args[0]), None)

    @reg("Iterator::count")
    def m_count(it, args, callee):
        n = 0
        src = to_iter(it, args[0])
        while src.next(it).variant == 1:
            n += 1
        return n

    @reg("Iterator::last")
    def m_last(it, args, callee):
        src = to_iter(it, args[0])
        last = none()
        while True:
            o = src.next(it)
            if o.variant == 0:
                return last
            last = o

    @reg("Iterator::nth")
    def m_nth(it, args, callee):
        src = deref(args[0])
        n = args[1]
        if is_sym(n):
            # any index: one of the elements there are, or past the end
            items = []
            while len(items) <= 64:
                o = src.next(it)
                if o.variant == 0:
                    break
                items.append(o)
            conds = [simp(bv(n, 64) == k) for k in range(len(items))]
            conds.append(simp(z3.UGE(bv(n, 64), len(items))))
            i = it.st.choose(conds)
            return items[i] if i < len(items) else none()
        for _ in range(n):
            if src.next(it).variant == 0:
                return none()
        return src.next(it)

    @reg("Option::iter", "Option::iter_mut")
    def m_opt_iter(it, args, callee):
        o = option_of(args[0])
        return ItOwned([Ref(o.fields, 0, "mut" in callee)] if o.variant == 1 else [])

    @reg("str::bytes")
    def m_str_bytes(it, args, callee):
        out = []
        for c in elems_of(args[0]):
            if not is_sym(c):
                out.extend(chr(c).encode("utf-8"))
            elif it.st.branch(simp(z3.ULT(c, 0x80))):
                out.append(simp(z3.Extract(7, 0, c)))
            else:
                raise Unsupported("str::bytes of a symbolic non-ASCII character")
        return ItOwned(out)

    @reg("Path::display", "PathBuf::display", "Path::to_string_lossy", "Path::to_str", "OsStr::to_string_lossy")
    def m_path_display(it, args, callee):
        d = deref(args[0])
        pl = []
        for x in (d.payload or ()) if isinstance(d, Opaque) else elems_of(d):
            pl.extend([ord(ch) for ch in x] if isinstance(x, str) else [x])
        name = method_name(callee)
        if name == "to_str":
            return some(Str(pl))
        if name == "to_string_lossy":
            return Agg("adt:Cow", 0, [Str(pl)])
        return Opaque("PathBuf", tuple(pl))

    @reg("Iterator::fold")
    def m_fold(it, args, callee):
        src, acc, f = to_iter(it, args[0]), args[1], args[2]
        while True:
            o = src.next(it)
            if o.variant == 0:
                return acc
            acc = it.call_value(f, [acc, o.fields[0]])

    @reg("Iterator::any")
    def m_any(it, args, callee):
        src = deref(args[0])
        while True:
            o = src.next(it)
            if o.variant == 0:
                return False
            if it.st.branch(it.call_value(args[1], [o.fields[0]])):
                return True

    @reg("Iterator::position")
    def m_position(it, args, callee):
        src = deref(args[0])
        i = 0
        while True:
            o = src.next(it)
            if o.variant == 0:
                return none()
            if it.st.branch(it.call_value(args[1], [o.fields[0]])):
                return some(i)
            i += 1

    @reg("Iterator::max", "Iterator::min")
    def m_iter_max(it, args, callee):
        src = to_iter(it, args[0])
        best = None
        is_max = callee.strip().split("::")[-1].startswith("max")
        while True:
            o = src.next(it)
            if o.variant == 0:
                return some(best) if best is not None else none()
            v = o.fields[0]
            if best is None:
                best = v
            else:
                best = m_min_max(it, [best, v], "Ord::max" if is_max else "Ord::min")

    @reg("Iterator::collect")
    def m_collect(it, args, callee):
        src = to_iter(it, args[0])
        m = re.search(r"collect::<(.*)>$", callee.strip())
        target = base_type(m.group(1)) if m else ""
        out = []
        while True:
            o = src.next(it)
            if o.variant == 0:
                break
            out.append(o.fields[0])
        if target == "String":
            return SString(out)
        if target == "Vec":
            return SVec(out)
        if target == "HashMap":
            entries = []
            for kv in out:
                k, v = kv.fields
                key = map_key(k)
                # a later pair with the same key replaces the earlier one
                dup = [e for e in entries if key_eq(e[0], key) is True]
                if dup:
                    dup[0][1] = v
                else:
                    entries.append([key, v])
            return SMap("collected", entries)
        if target == "Cow":
            return Agg("adt:Cow", 1, [SString(out)])
        raise Unsupported("collect into %s" % target)

    # Cow<str>: Borrowed(&str) = variant 0, Owned(String) = variant 1 (built by MIR aggregates or by collect)
    def cow_inner(v):
        v = deref(v)
        if isinstance(v, Agg) and v.kind == "adt:Cow":
            return deref(v.fields[0])
        return v

    @reg("Cow::deref", "Cow::as_ref", "Cow::borrow")
    def m_cow_deref(it, args, callee):
        inner = cow_inner(args[0])
        if isinstance(inner, (Str, SString)):
            return Str(list(inner.elems))
        c = deref(args[0])
        return c.fields[0] if isinstance(c.fields[0], Ref) else Ref(c.fields, 0)

    @reg("Cow::to_string", "Cow::into_owned", "Cow::to_owned")
    def m_cow_to_string(it, args, callee):
        inner = cow_inner(args[0])
        if isinstance(inner, (Str, SString)):
            return SString(list(inner.elems))
        if callee.strip().endswith("to_owned"):
            return deep_copy(deref(args[0]))
        return clone_value(it, inner)        # into_owned of Cow<T>: the owned value, or a clone of the borrowed one

    @reg("Cow::to_mut")
    def m_cow_to_mut(it, args, callee):
        c = deref(args[0])
        if c.variant == 0:                   # Borrowed -> Owned(clone)
            inner = deref(c.fields[0])
            c.variant = 1
            c.fields[0] = SString(list(inner.elems)) if isinstance(inner, (Str, SString)) else clone_value(it, inner)
        return Ref(c.fields, 0, True)

    @reg("Cow::is_borrowed", "Cow::is_owned")
    def m_cow_is(it, args, callee):
        c = deref(args[0])
        return (c.variant == 0) == callee.strip().endswith("is_borrowed")

    @reg("Extend::extend")
    def m_extend(it, args, callee):
        dst = deref(args[0])
        src = to_iter(it, args[1])
        while True:
            o = src.next(it)
            if o.variant == 0:
                return UNIT
            v = o.fields[0]
            if isinstance(dst, SMap):
                k2, v2 = deref(v).fields
                M.table["HashMap::insert"](it, [args[0], k2, v2], "HashMap::insert")
                continue
            if isinstance(dst, SString):
                dv = deref(v)
                if isinstance(dv, (Str, SString)):
                    dst.elems.extend(dv.elems)
                else:
                    dst.elems.append(dv)
            else:
                dst.items.append(v)

    # ----------------------------------------------------------------- Vec / slices
    @reg("Vec::new", "Vec::with_capacity", "Vec::default")
    def m_vec_new(it, args, callee):
        return SVec()

    @reg("Vec::push")
    def m_vec_push(it, args, callee):
        deref(args[0]).items.append(args[1])
        return UNIT

    @reg("Vec::clear")
    def m_vec_clear(it, args, callee):
        del deref(args[0]).items[:]
        return UNIT

    @reg("Vec::len", "slice::len")
    def m_vec_len(it, args, callee):
        return len(slice_of(args[0]))

    @reg("Vec::is_empty", "slice::is_empty")
    def m_vec_is_empty(it, args, callee):
        return len(slice_of(args[0])) == 0

    @reg("Vec::truncate")
    def m_vec_truncate(it, args, callee):
        v = deref(args[0])
        n = as_int(it, args[1], 0, 64, "truncate length")
        del v.items[n:]
        return UNIT

    @reg("Vec::append")
    def m_vec_append(it, args, callee):
        dst, src = deref(args[0]), deref(args[1])
        dst.items.extend(src.items)
        del src.items[:]
        return UNIT

    @reg("Vec::extend_from_slice")
    def m_vec_extend_from_slice(it, args, callee):
        dst = deref(args[0])
        s = slice_of(args[1])
        from .values import deep_copy as _dc
        dst.items.extend(_dc(x) for x in s.items[s.lo:s.hi])
        return UNIT

    @reg("Vec::swap_remove")
    def m_vec_swap_remove(it, args, callee):
        v = deref(args[0])
        i = as_int(it, args[1], 0, 64, "swap_remove index")
        if i >= len(v.items):
            raise PanicPath("swap_remove index (is %d) should be < len (is %d)" % (i, len(v.items)))
        x = v.items[i]
        v.items[i] = v.items[-1]
        v.items.pop()
        return x

    @reg("Vec::split_off")
    def m_vec_split_off(it, args, callee):
        v = deref(args[0])
        n = as_int(it, args[1], 0, 64, "split_off index")
        if n > len(v.items):
            raise PanicPath("`at` split index (is %d) should be <= len (is %d)" % (n, len(v.items)))
        tail = SVec(v.items[n:])
        del v.items[n:]
        return tail

    @reg("Vec::retain", "Vec::retain_mut")
    def m_vec_retain(it, args, callee):
        v = deref(args[0])
        keep = []
        for i, x in enumerate(list(v.items)):
            cell = [x]
            if it.st.branch(it.call_value(args[1], [Ref(cell, 0, "retain_mut" in callee)])):
                keep.append(cell[0])
        v.items[:] = keep
        return UNIT

    @reg("Vec::contains", "slice::contains")
    def m_vec_contains(it, args, callee):
        s = slice_of(args[0])
        for x in s.items[s.lo:s.hi]:
            if it.st.branch(m_eq(it, [Ref([x], 0), args[1]], "PartialEq::eq")):
                return True
        return False

    @reg("Vec::dedup")
    def m_vec_dedup(it, args, callee):
        v = deref(args[0])
        if len(v.items) < 2:
            return UNIT
        out = [v.items[0]]
        for x in v.items[1:]:
            same = m_eq(it, [Ref([x], 0), Ref([out[-1]], 0)], "PartialEq::eq")
            if not it.st.branch(same):
                out.append(x)
        v.items[:] = out
        return UNIT

    @reg("slice::iter")
    def m_slice_iter(it, args, callee):
        s = slice_of(args[0])
        return ItSlice(s.items, s.lo, s.hi)

    @reg("slice::iter_mut")
    def m_slice_iter_mut(it, args, callee):
        s = slice_of(args[0])
        return ItSlice(s.items, s.lo, s.hi, True)

    @reg("slice::contains")
    def m_slice_contains(it, args, callee):
        s = slice_of(args[0])
        for i in range(s.lo, s.hi):
            if it.st.branch(m_eq(it, [Ref(s.items, i), args[1]], "PartialEq::eq")):
                return True
        return False

    def sort_model(it, args, callee):
        """Insertion sort (stable) driven by the crate's own Ord::cmp executed from MIR."""
        s = slice_of(args[0])
        f = it.p.find_trait_fn("Rank", "Ord", "cmp")
        items = s.items
        for i in range(s.lo + 1, s.hi):
            j = i
            while j > s.lo:
                r = it.call_function(f, [Ref(items, j - 1), Ref(items, j)])
                if r.variant == 1:  # Greater -> swap
                    items[j - 1], items[j] = items[j], items[j - 1]
                    j -= 1
                else:
                    break
        return UNIT

    def unstable_sort_model(it, args, callee):
        """`sort_unstable`: as the insertion sort above, but elements that compare Equal may end up in either order (the contract of an
        unstable sort; the real implementation is an insertion sort - stable in effect - up to 20 elements and a quicksort beyond, a
        length no bounded shape reaches). Every tie is the environment's choice, the same for the k-th tie of every call within one run;
        at most `VERIF_SORT_TIES` (3) choices per call."""
        s = slice_of(args[0])
        f = it.p.find_trait_fn("Rank", "Ord", "cmp")
        items = s.items
        ties = 0
        limit = int(os.environ.get("VERIF_SORT_TIES", "3"))
        for i in range(s.lo + 1, s.hi):
            j = i
            while j > s.lo:
                r = it.call_function(f, [Ref(items, j - 1), Ref(items, j)])
                swap = r.variant == 1   # Greater
                if r.variant == 0 and ties < limit and items[j - 1] is not items[j]:     # Equal
                    # the algorithm is deterministic: the k-th tie of a call is decided the same way in every call of one run (two
                    # sorts of lists that compare alike - the paired runs - come out alike)
                    ties += 1
                    swap = it.st.branch(z3.Bool("sort_tie_swapped_%d" % ties))
                if swap:
                    items[j - 1], items[j] = items[j], items[j - 1]
                    j -= 1
                else:
                    break
        return UNIT
    _tie = [0]

    reg("slice::sort")(sort_model)
    reg("slice::sort_unstable")(unstable_sort_model)

    # ----------------------------------------------------------------- Range
    @reg("RangeInclusive::new")
    def m_range_incl_new(it, args, callee):
        return Agg("adt:RangeInclusive", None, [args[0], args[1]])

    @reg("RangeInclusive::contains", "Range::contains", "RangeBounds::contains")
    def m_range_contains(it, args, callee):
        r = deref(args[0])
        x = deref(args[1])
        lo, hi = r.fields[0], r.fields[1]
        bits = 32
        for v in (lo, hi, x):
            if is_sym(v):
                bits = v.size()
        m = re.search(r"::<(u8|u16|u32|u64|usize|char)>", callee)
        if m:
            bits = {"u8": 8, "u16": 16, "u32": 32, "u64": 64, "usize": 64, "char": 32}[m.group(1)]
        incl = r.kind == "adt:RangeInclusive"
        if not any(is_sym(v) for v in (lo, hi, x)):
            return lo <= x <= hi if incl else lo <= x < hi
        a = z3.ULE(bv(lo, bits), bv(x, bits))
        b2 = z3.ULE(bv(x, bits), bv(hi, bits)) if incl else z3.ULT(bv(x, bits), bv(hi, bits))
        return simp(z3.And(a, b2))

    @reg("Range::next@unused")
    def m_unused(it, args, callee):
        raise Unsupported("unused")

    # ----------------------------------------------------------------- formatting
    @reg("Argument::new_display", "Argument::new_debug")
    def m_arg_display(it, args, callee):
        return Agg("fmtarg", None, [args[0]])

    @reg("Arguments::new", "Arguments::new_const", "Arguments::new_v1")
    def m_arguments_new(it, args, callee):
        tmpl = deref(args[0])
        if isinstance(tmpl, Agg):
            tmpl = tmpl.fields
        fargs = slice_of(args[1])
        return Agg("fmtargs", None, [list(tmpl), [fargs.items[i] for i in range(fargs.lo, fargs.hi)]])

    @reg("Arguments::from_str")
    def m_arguments_from_str(it, args, callee):
        return Agg("fmtargs", None, [None, [], list(elems_of(args[0]))])

    def render_arguments(it, a):
        if a.fields[0] is None:
            return list(a.fields[2])
        t = a.fields[0]
        fa = a.fields[1]
        out = []
        i = 0
        nxt = 0
        while i < len(t):
            b = t[i]
            if b == 0:
                break
            if b < 0x80 or b == 0x80:
                if b == 0x80:
                    n = t[i + 1] | (t[i + 2] << 8)
                    i += 3
                else:
                    n = b
                    i += 1
                out.extend(ord(ch) for ch in bytes(t[i:i + n]).decode("utf-8"))
                i += n
            elif b == 0xc0:
                out.extend(display(it, deref(fa[nxt].fields[0])))
                nxt += 1
                i += 1
            else:
                raise Unsupported("format placeholder with options (0x%02x)" % b)
        return out

    def display(it, v):
        v = deref(v)
        if isinstance(v, (Str, SString)):
            return list(v.elems)
        if isinstance(v, Agg) and v.kind == "adt:Cow":
            return list(elems_of(v))
        if isinstance(v, Opaque) and v.tag in ("PathBuf", "OsString"):
            out = []
            for x in (v.payload or ()):
                out.extend([ord(ch) for ch in x] if isinstance(x, str) else [x])
            return out
        if isinstance(v, Opaque) and ("Error" in v.tag):
            return [ord(ch) for ch in "error"]        # the text of an error message: nothing depends on it
        if isinstance(v, int) and not isinstance(v, bool):
            if v >= (1 << 31) and v < (1 << 32):
                v -= 1 << 32
            return [ord(c) for c in str(v)]
        if isinstance(v, Agg) and v.kind.startswith("adt:"):
            name = v.kind[4:]
            f = it.p.find_trait_fn(name, "Display", "fmt")
            fm = Opaque("formatter", [])
            it.call_function(f, [Ref([v], 0), Ref([fm], 0)])
            return fm.payload
        raise Unsupported("Display of %r" % (v,))

    @reg("format", "fmt::format")
    def m_format(it, args, callee):
        return SString(render_arguments(it, args[0]))

    @reg("Formatter::write_fmt")
    def m_write_fmt(it, args, callee):
        deref(args[0]).payload.extend(render_arguments(it, args[1]))
        return ok(UNIT)

    @reg("Formatter::write_str")
    def m_write_str(it, args, callee):
        deref(args[0]).payload.extend(elems_of(args[1]))
        return ok(UNIT)

    # ----------------------------------------------------------------- panics
    @reg("panicking::panic", "core::panicking::panic", "panic")
    def m_panic(it, args, callee):
        msg = args[0]
        try:
            text = "".join(chr(c) for c in elems_of(msg) if not is_sym(c))
        except Unsupported:
            text = "panic"
        raise PanicPath(text)

    @reg("rt::panic_fmt", "panicking::panic_fmt", "panic_fmt")
    def m_panic_fmt(it, args, callee):
        try:
            text = "".join(chr(c) if not is_sym(c) else "?" for c in render_arguments(it, args[0]))
        except Unsupported:
            text = "panic"
        raise PanicPath(text)

    @reg("panicking::panic_bounds_check", "panic_bounds_check")
    def m_panic_bounds(it, args, callee):
        raise PanicPath("index out of bounds")

    # ----------------------------------------------------------------- HashMap (abstract finite map)
    @reg("HashMap::new", "HashMap::default", "HashMap::with_hasher", "HashMap::with_capacity_and_hasher")
    def m_map_new(it, args, callee):
        return SMap("map")

    def default_of_type(t):
        t = t.strip()
        b = t.split("<")[0].split("::")[-1]
        inner = t[t.index("<") + 1:t.rindex(">")] if "<" in t and t.endswith(">") else ""
        if b == "HashMap":
            return SMap("map")
        if b == "String":
            return SString([])
        if b in ("Vec", "VecDeque"):
            return SVec([])
        if b == "bool":
            return False
        if b in ("u8", "u16", "u32", "u64", "usize", "i8", "i16", "i32", "i64", "isize", "char"):
            return 0
        if b == "Option":
            return none()
        if b == "PathBuf":
            return Opaque("PathBuf", ())
        if b == "RefCell":
            return Agg("adt:RefCell", None, [default_of_type(inner), 0])
        if b == "Cell":
            return Agg("adt:Cell", None, [default_of_type(inner)])
        if b == "Box":
            return Box(default_of_type(inner))
        if t.startswith("(") and t.endswith(")"):
            parts = [x for x in split_top(t[1:-1]) if x.strip()]
            return Agg("tuple", None, [default_of_type(x) for x in parts]) if parts else UNIT
        raise Unsupported("no model for `<%s as Default>::default`" % t)

    def split_top(sx):
        out, depth, cur = [], 0, ""
        for ch in sx:
            if ch in "<([":
                depth += 1
            elif ch in ">)]":
                depth -= 1
            if ch == "," and depth == 0:
                out.append(cur)
                cur = ""
            else:
                cur += ch
        out.append(cur)
        return out

    @reg("Default::default")
    def m_trait_default(it, args, callee):
        """`<T as Default>::default()` for the std types the executor models."""
        c = callee.strip()
        t = c[1:].rsplit(" as ", 1)[0].strip() if c.startswith("<") else ""
        if t.split("<")[0].split("::")[-1] in ("RefCell", "Cell", "Box", "VecDeque") or t.startswith("("):
            return default_of_type(t)
        b = t.split("<")[0].split("::")[-1]
        if b == "HashMap":
            return SMap("map")
        if b == "String":
            return SString([])
        if b == "Vec":
            return SVec([])
        if b == "bool":
            return False
        if b in ("u8", "u16", "u32", "u64", "usize", "i8", "i16", "i32", "i64", "isize", "char"):
            return 0
        if b == "Option":
            return none()
        if b == "PathBuf":
            return Opaque("PathBuf", ())
        raise Unsupported("no model for `%s`" % callee)

    @reg("RandomState::new")
    def m_random_state(it, args, callee):
        return Opaque("RandomState")

    def map_find(it, m, key):
        """Index of the entry whose key equals `key` on this path, or None. Forks on symbolic equality."""
        for i, (k, _) in enumerate(m.entries):
            e = key_eq(k, key)
            if e is True:
                return i
            if e is False:
                continue
            if it.st.branch(e):
                return i
        return None

    M.map_find = map_find

    @reg("HashMap::get")
    def m_map_get(it, args, callee):
        m = deref(args[0])
        key = map_key(args[1])
        if isinstance(m, Opaque):
            raise Unsupported("HashMap::get on opaque map %s" % m.tag)
        i = map_find(it, m, key)
        if i is not None:
            return some(Ref(m.entries[i], 1))
        if m.oracle is not None:
            v = m.oracle(it, m, key)
            if v is not None:
                m.entries.append([key if isinstance(key, ScalarKey) else tuple(key), v])
                return some(Ref(m.entries[-1], 1))
        return none()

    @reg("HashMap::contains_key")
    def m_map_contains(it, args, callee):
        return m_map_get(it, args, callee).variant == 1

    @reg("HashMap::insert")
    def m_map_insert(it, args, callee):
        m = deref(args[0])
        key = map_key(args[1])
        i = map_find(it, m, key)
        if i is not None:
            old = m.entries[i][1]
            m.entries[i][1] = args[2]
            return some(old)
        m.entries.append([key if isinstance(key, ScalarKey) else tuple(key), args[2]])
        return none()

    @reg("HashMap::iter", "HashMap::iter_mut")
    def m_map_iter(it, args, callee):
        m = deref(args[0])
        if m.oracle is not None:
            raise Unsupported("iteration over an oracle-backed map")
        return ItOwned([Agg("tuple", None, [Ref([key_value(k)], 0), Ref(e, 1)]) for e in m.entries for k in [e[0]]])

    @reg("HashMap::keys")
    def m_map_keys(it, args, callee):
        m = deref(args[0])
        if m.oracle is not None:
            raise Unsupported("iteration over an oracle-backed map")
        return ItOwned([Ref([key_value(e[0])], 0) for e in m.entries])

    @reg("HashMap::values", "HashMap::values_mut")
    def m_map_values(it, args, callee):
        m = deref(args[0])
        if m.oracle is not None:
            raise Unsupported("iteration over an oracle-backed map")
        return ItOwned([Ref(e, 1) for e in m.entries])

    @reg("HashMap::retain")
    def m_map_retain(it, args, callee):
        m = deref(args[0])
        if m.oracle is not None:
            # entries not yet consulted are filtered when they are first asked for
            inner, f = m.oracle, args[1]

            def filtered(it2, m2, key):
                v = inner(it2, m2, key)
                if v is None:
                    return None
                cell = [tuple(key), v]
                if it2.st.branch(it2.call_value(f, [Ref([SString(key)], 0), Ref(cell, 1, True)])):
                    return cell[1]
                return None
            m.oracle = filtered
        keep = []
        for e in m.entries:
            if it.st.branch(it.call_value(args[1], [Ref([SString(e[0])], 0), Ref(e, 1, True)])):
                keep.append(e)
        m.entries[:] = keep
        if getattr(m, "extra", None) is not None:
            # of the entries this run never names, any number may survive
            n = it.st.counter = getattr(it.st, "counter", 0) + 1
            left = it.st.sym_bv("%s_left_%d" % (m.name, n), 64)
            it.st.assume(z3.ULE(left, bv(m.extra, 64)))
            m.extra = left
        return UNIT

    @reg("HashMap::clear")
    def m_map_clear(it, args, callee):
        m = deref(args[0])
        del m.entries[:]
        m.oracle = None
        m.extra = None
        return UNIT

    @reg("HashMap::remove")
    def m_map_remove(it, args, callee):
        m = deref(args[0])
        i = map_find(it, m, map_key(args[1]))
        if i is None:
            return none()
        return some(m.entries.pop(i)[1])

    @reg("HashMap::len")
    def m_map_len(it, args, callee):
        m = deref(args[0])
        if m.oracle is not None:
            raise Unsupported("len of an oracle-backed map")
        if getattr(m, "extra", None) is not None:
            return add_vals(m.extra, len(m.entries))
        return len(m.entries)

    @reg("HashMap::is_empty")
    def m_map_is_empty(it, args, callee):
        return m_map_len(it, args, callee) == 0

    # ----------------------------------------------------------------- more Vec / String / Option helpers
    @reg("Vec::pop")
    def m_vec_pop(it, args, callee):
        v = deref(args[0])
        return some(v.items.pop()) if v.items else none()

    @reg("Vec::insert")
    def m_vec_insert(it, args, callee):
        v = deref(args[0])
        i = as_int(it, args[1], 0, 64, "insert index")
        if i > len(v.items):
            raise PanicPath("insertion index out of bounds")
        v.items.insert(i, args[2])
        return UNIT

    @reg("Vec::remove")
    def m_vec_remove(it, args, callee):
        v = deref(args[0])
        i = as_int(it, args[1], 0, 64, "remove index")
        if i >= len(v.items):
            raise PanicPath("removal index out of bounds")
        return v.items.pop(i)

    @reg("slice::first", "Vec::first")
    def m_first(it, args, callee):
        s2 = slice_of(args[0])
        return some(Ref(s2.items, s2.lo)) if len(s2) else none()

    @reg("slice::last", "Vec::last")
    def m_slice_last(it, args, callee):
        s2 = slice_of(args[0])
        return some(Ref(s2.items, s2.hi - 1)) if len(s2) else none()

    @reg("slice::get", "Vec::get")
    def m_slice_get(it, args, callee):
        s2 = slice_of(args[0])
        i = args[1]
        if is_sym(i):
            i = it.st.concretize_int(i, 0, max(len(s2), 1) + 1, "slice::get index")
        return some(Ref(s2.items, s2.lo + i)) if i < len(s2) else none()

    @reg("slice::starts_with", "slice::ends_with")
    def m_slice_starts_with(it, args, callee):
        sa, sb = slice_of(args[0]), slice_of(args[1])
        if len(sb) > len(sa):
            return False
        if "starts_with" in callee:
            part = Slice(sa.items, sa.lo, sa.lo + len(sb))
        else:
            part = Slice(sa.items, sa.hi - len(sb), sa.hi)
        return m_eq(it, [part, sb], "PartialEq::eq")

    @reg("str::starts_with", "str::ends_with")
    def m_starts_with(it, args, callee):
        el = elems_of(args[0])
        pat = args[1]
        if isinstance(pat, (Str, SString)) or isinstance(deref(pat), (Str, SString)):
            p = elems_of(pat)
            if len(p) > len(el):
                return False
            part = el[:len(p)] if "starts_with" in callee else el[len(el) - len(p):]
            return str_eq(part, p)
        if not el:
            return False
        ch = el[0] if "starts_with" in callee else el[-1]
        dp = deref(pat) if isinstance(pat, Ref) else pat
        if isinstance(dp, FnItem) or (isinstance(dp, Agg) and dp.kind.startswith("closure:")) or callable(dp):
            return it.call_value(pat, [ch])      # a predicate pattern: FnMut(char) -> bool
        if isinstance(dp, (Slice, SVec)) or (isinstance(dp, Agg) and dp.kind == "array"):
            sl = slice_of(dp)                     # a slice of chars: any of them
            alts = [char_eq(ch, sl.items[k]) for k in range(sl.lo, sl.hi)]
            if any(a is True for a in alts):
                return True
            alts = [a for a in alts if a is not False]
            return simp(z3.Or(alts)) if alts else False
        return char_eq(ch, dp)

    @reg("Option::unwrap_or")
    def m_unwrap_or(it, args, callee):
        o = option_of(args[0])
        return o.fields[0] if o.variant == 1 else args[1]

    @reg("Option::as_ref", "Option::as_mut")
    def m_opt_as_ref(it, args, callee):
        o = option_of(args[0])
        return some(Ref(o.fields, 0)) if o.variant == 1 else none()

    @reg("Option::take")
    def m_opt_take(it, args, callee):
        r = args[0]
        o = option_of(r)
        r.set(none())
        return o

    @reg("Option::map_or")
    def m_opt_map_or(it, args, callee):
        o = option_of(args[0])
        return it.call_value(args[2], [o.fields[0]]) if o.variant == 1 else args[1]

    @reg("Option::is_some_and")
    def m_opt_is_some_and(it, args, callee):
        o = option_of(args[0])
        return it.call_value(args[1], [o.fields[0]]) if o.variant == 1 else False

    @reg("Option::ok_or")
    def m_opt_ok_or(it, args, callee):
        o = option_of(args[0])
        return ok(o.fields[0]) if o.variant == 1 else err(args[1])

    @reg("Result::is_ok")
    def m_res_is_ok(it, args, callee):
        return option_of(args[0]).variant == 0

    @reg("Result::is_err")
    def m_res_is_err(it, args, callee):
        return option_of(args[0]).variant == 1

    @reg("Result::unwrap_or_default", "Result::unwrap_or")
    def m_res_unwrap_or(it, args, callee):
        o = option_of(args[0])
        if o.variant == 0:
            return o.fields[0]
        if callee.strip().endswith("unwrap_or"):
            return args[1]
        raise Unsupported("Result::unwrap_or_default")

    @reg("Result::and_then")
    def m_res_and_then(it, args, callee):
        o = option_of(args[0])
        return it.call_value(args[1], [o.fields[0]]) if o.variant == 0 else o

    @reg("char::is_ascii", "char::is_ascii_alphabetic", "char::is_ascii_digit", "char::is_ascii_alphanumeric", "char::is_ascii_punctuation",
         "char::is_alphanumeric", "char::is_ascii_lowercase", "char::is_ascii_uppercase")
    def m_char_class(it, args, callee):
        c = deref(args[0])
        name = callee.strip().split("::")[-1]
        if name == "is_alphanumeric":
            raise Unsupported("char::is_alphanumeric (Unicode tables)")
        sets = {"is_ascii": list(range(0, 0x80)), "is_ascii_alphabetic": [x for x in range(0x80) if chr(x).isalpha()],
                "is_ascii_digit": list(range(0x30, 0x3a)), "is_ascii_alphanumeric": [x for x in range(0x80) if chr(x).isalnum()],
                "is_ascii_lowercase": list(range(0x61, 0x7b)), "is_ascii_uppercase": list(range(0x41, 0x5b)),
                "is_ascii_punctuation": [x for x in range(0x21, 0x7f) if not chr(x).isalnum()]}[name]
        return m_str_contains(it, [Str(sets), c], "str::contains::<char>")

    U8_SETS = {"is_ascii": (0, 0x7f, None), "is_ascii_digit": (0x30, 0x39, None), "is_ascii_lowercase": (0x61, 0x7a, None), "is_ascii_uppercase": (0x41, 0x5a, None)}

    @reg("u8::is_ascii", "u8::is_ascii_alphabetic", "u8::is_ascii_digit", "u8::is_ascii_alphanumeric", "u8::is_ascii_punctuation",
         "u8::is_ascii_lowercase", "u8::is_ascii_uppercase", "u8::is_ascii_whitespace")
    def m_u8_class(it, args, callee):
        b = deref(args[0])
        name = callee.strip().split("::")[-1]
        members = {"is_ascii": list(range(0, 0x80)), "is_ascii_alphabetic": [x for x in range(0x80) if chr(x).isalpha()],
                   "is_ascii_digit": list(range(0x30, 0x3a)), "is_ascii_alphanumeric": [x for x in range(0x80) if chr(x).isalnum()],
                   "is_ascii_lowercase": list(range(0x61, 0x7b)), "is_ascii_uppercase": list(range(0x41, 0x5b)),
                   "is_ascii_punctuation": [x for x in range(0x21, 0x7f) if not chr(x).isalnum()],
                   "is_ascii_whitespace": [0x20, 0x09, 0x0a, 0x0c, 0x0d]}[name]
        if not is_sym(b):
            return b in members
        return simp(z3.Or([bv(b, 8) == m for m in members]))

    @reg("u8::to_ascii_lowercase", "u8::to_ascii_uppercase")
    def m_u8_ascii_case(it, args, callee):
        b = deref(args[0])
        lower = callee.strip().split("::")[-1].startswith("to_ascii_lower")
        lo, hi, d = (0x41, 0x5a, 32) if lower else (0x61, 0x7a, -32)
        if not is_sym(b):
            return b + d if lo <= b <= hi else b
        x = bv(b, 8)
        return simp(z3.If(z3.And(z3.UGE(x, lo), z3.ULE(x, hi)), x + d if d > 0 else x - (-d), x))

    @reg("char::to_ascii_lowercase", "char::to_ascii_uppercase")
    def m_char_ascii_case(it, args, callee):
        c = deref(args[0])
        lower = callee.strip().split("::")[-1].startswith("to_ascii_lower")
        lo, hi, d = (0x41, 0x5a, 32) if lower else (0x61, 0x7a, -32)
        if not is_sym(c):
            return c + d if lo <= c <= hi else c
        return simp(z3.If(z3.And(z3.UGE(c, lo), z3.ULE(c, hi)), c + d if d > 0 else c - (-d), c))

    # ----------------------------------------------------------------- dyn Method dispatch (RitiContext forwards through Box<dyn Method>)
    def dyn_method(name):
        def f(it, args, callee):
            obj = deref(args[0])
            if not (isinstance(obj, Agg) and obj.kind.startswith("adt:")):
                raise Unsupported("dyn Method call on %r" % (obj,))
            fn = it.p.find_trait_fn(obj.kind[4:], "Method", name)
            return it.call_function(fn, args)
        f.__name__ = "dyn_Method_" + name
        return f
    for _n in ("get_suggestion", "candidate_committed", "update_engine", "ongoing_input_session", "finish_input_session", "backspace_event"):
        reg("Method::" + _n)(dyn_method(_n))

    # ----------------------------------------------------------------- pointers / boxes / cells
    @reg("Box::new")
    def m_box_new(it, args, callee):
        return Box(args[0])

    @reg("char::encode_utf8")
    def m_char_encode_utf8(it, args, callee):
        return Str([args[0]])

    @reg("unicode_to_bijoy")
    def m_unicode_to_bijoy(it, args, callee):
        # the third-party encoder: a tagging function ('#' + the text), as in the Kani read-out harnesses
        return SString([0x23] + list(elems_of(args[0])))

    @reg("Box::new_uninit")
    def m_box_new_uninit(it, args, callee):
        # `vec![a, b]` in this toolchain: an uninitialised boxed array written through the MaybeUninit / ManuallyDrop / MaybeDangling wrappers
        return Box(Agg("adt:MaybeUninit", None, [UNIT, Agg("adt:ManuallyDrop", None, [Agg("adt:MaybeDangling", None, [None])])]))

    @reg("box_assume_init_into_vec_unsafe")
    def m_box_into_vec(it, args, callee):
        b = args[0]
        try:
            arr = b.cell[0].fields[1].fields[0].fields[0]
        except (AttributeError, IndexError):
            raise Unsupported("box_assume_init_into_vec_unsafe on %r" % (b,))
        if not isinstance(arr, Agg):
            raise Unsupported("box_assume_init_into_vec_unsafe: array not written")
        return SVec(list(arr.fields))

    @reg("Box::into_raw", "Box::leak")
    def m_box_into_raw(it, args, callee):
        b = args[0]
        if isinstance(b, Box):
            return Ref(b.cell, 0, True)       # the raw pointer to the heap cell
        raise Unsupported("Box::into_raw on %r" % (b,))

    @reg("Box::from_raw")
    def m_box_from_raw(it, args, callee):
        r = args[0]
        if isinstance(r, Ref):
            b = Box(None)
            if isinstance(r.container, list) and r.key == 0:
                b.cell = r.container
                return b
        raise Unsupported("Box::from_raw on %r" % (r,))

    @reg("ptr::is_null", "const_ptr::is_null", "mut_ptr::is_null")
    def m_ptr_is_null(it, args, callee):
        return not isinstance(args[0], Ref)

    @reg("RefCell::new")
    def m_refcell_new(it, args, callee):
        return Agg("adt:RefCell", None, [args[0], 0])

    @reg("RefCell::borrow_mut")
    def m_refcell_borrow_mut(it, args, callee):
        c = deref(args[0])
        if c.fields[1] != 0:
            raise PanicPath("RefCell already borrowed")
        c.fields[1] = -1
        return Agg("adt:RefMut", None, [Ref(c.fields, 0, True), c])

    @reg("RefCell::borrow")
    def m_refcell_borrow(it, args, callee):
        c = deref(args[0])
        if c.fields[1] == -1:
            raise PanicPath("RefCell already mutably borrowed")
        c.fields[1] += 1
        return Agg("adt:CellRef", None, [Ref(c.fields, 0), c])

    @reg("RefCell::replace")
    def m_refcell_replace(it, args, callee):
        c = deref(args[0])
        if c.fields[1] != 0:
            raise PanicPath("RefCell already borrowed")
        old = c.fields[0]
        c.fields[0] = args[1]
        return old

    # ================================================================================= further std models
    # Not needed by the pinned tree: they exist so that a refactor which reaches for another std helper is executed rather than refused.
    # Each follows the std documentation on code-point sequences / finite lists; a wrong model cannot cause a false report (every
    # counterexample is re-found natively before it is reported) - it shows up as a disagreement in the witness validation.

    def method_name(callee):
        return strip_generics(callee.strip()).split("::")[-1]

    def is_pred(p):
        dp = deref(p) if isinstance(p, Ref) else p
        return isinstance(dp, FnItem) or (isinstance(dp, Agg) and dp.kind.startswith("closure:")) or callable(dp)

    def char_matches(it, ch, pat):
        """Does the char match a `Pattern` that is a char, a predicate or a slice of chars -> Python bool (forks when symbolic)."""
        dp = deref(pat) if isinstance(pat, Ref) else pat
        if is_pred(pat):
            return it.st.branch(it.call_value(pat, [ch]))
        if isinstance(dp, (Slice, SVec)) or (isinstance(dp, Agg) and dp.kind == "array"):
            sl = slice_of(dp)
            for k in range(sl.lo, sl.hi):
                if it.st.branch(char_eq(ch, sl.items[k])):
                    return True
            return False
        if isinstance(dp, (Str, SString)):
            raise Unsupported("string pattern where a char pattern is modelled")
        return it.st.branch(char_eq(ch, dp))

    @reg("Iterator::find")
    def m_iter_find(it, args, callee):
        src = deref(args[0])
        while True:
            o = src.next(it)
            if o.variant == 0:
                return o
            if it.st.branch(it.call_value(args[1], [Ref([o.fields[0]], 0)])):
                return o

    @reg("Iterator::find_map")
    def m_iter_find_map(it, args, callee):
        src = deref(args[0])
        while True:
            o = src.next(it)
            if o.variant == 0:
                return o
            r = option_of(it.call_value(args[1], [o.fields[0]]))
            if r.variant == 1:
                return r

    class ItFilterMap(It):
        def __init__(self, inner, f):
            self.inner, self.f = inner, f

        def next(self, it):
            while True:
                o = self.inner.next(it)
                if o.variant == 0:
                    return o
                r = option_of(it.call_value(self.f, [o.fields[0]]))
                if r.variant == 1:
                    return r

    @reg("Iterator::filter_map")
    def m_iter_filter_map(it, args, callee):
        return ItFilterMap(to_iter(it, args[0]), args[1])

    class ItChain(It):
        def __init__(self, a, b):
            self.a, self.b = a, b

        def next(self, it):
            if self.a is not None:
                o = self.a.next(it)
                if o.variant == 1:
                    return o
                self.a = None
            return self.b.next(it)

    @reg("Iterator::chain")
    def m_iter_chain(it, args, callee):
        return ItChain(to_iter(it, args[0]), to_iter(it, args[1]))

    class ItWhile(It):
        def __init__(self, inner, f, take):
            self.inner, self.f, self.take, self.done = inner, f, take, False

        def next(self, it):
            if self.take:
                if self.done:
                    return none()
                o = self.inner.next(it)
                if o.variant == 0:
                    return o
                if it.st.branch(it.call_value(self.f, [Ref([o.fields[0]], 0)])):
                    return o
                self.done = True
                return none()
            while not self.done:
                o = self.inner.next(it)
                if o.variant == 0:
                    return o
                if not it.st.branch(it.call_value(self.f, [Ref([o.fields[0]], 0)])):
                    self.done = True
                    return o
            return self.inner.next(it)

    @reg("Iterator::take_while")
    def m_iter_take_while(it, args, callee):
        return ItWhile(to_iter(it, args[0]), args[1], True)

    @reg("Iterator::skip_while")
    def m_iter_skip_while(it, args, callee):
        return ItWhile(to_iter(it, args[0]), args[1], False)

    class ItCloned(It):
        def __init__(self, inner):
            self.inner = inner

        def next(self, it):
            o = self.inner.next(it)
            if o.variant == 0:
                return o
            return some(m_clone(it, [o.fields[0]], "Clone::clone"))

        def next_back(self, it):
            o = self.inner.next_back(it)
            if o.variant == 0:
                return o
            return some(m_clone(it, [o.fields[0]], "Clone::clone"))

    @reg("Iterator::cloned", "Iterator::copied")
    def m_iter_cloned(it, args, callee):
        return ItCloned(to_iter(it, args[0]))

    class ItPeekable(It):
        def __init__(self, inner):
            self.inner, self.buf = inner, None

        def next(self, it):
            if self.buf is not None:
                o, self.buf = self.buf, None
                return o
            return self.inner.next(it)

        def peek(self, it):
            if self.buf is None:
                self.buf = self.inner.next(it)
            return self.buf

    @reg("Iterator::peekable")
    def m_iter_peekable(it, args, callee):
        return ItPeekable(to_iter(it, args[0]))

    @reg("Peekable::peek")
    def m_peek(it, args, callee):
        o = deref(args[0]).peek(it)
        return some(Ref(o.fields, 0)) if o.variant == 1 else none()

    @reg("Iterator::all")
    def m_iter_all(it, args, callee):
        src = deref(args[0])
        while True:
            o = src.next(it)
            if o.variant == 0:
                return True
            if not it.st.branch(it.call_value(args[1], [o.fields[0]])):
                return False

    @reg("Iterator::for_each")
    def m_iter_for_each(it, args, callee):
        src = to_iter(it, args[0])
        while True:
            o = src.next(it)
            if o.variant == 0:
                return UNIT
            it.call_value(args[1], [o.fields[0]])

    @reg("Iterator::sum")
    def m_iter_sum(it, args, callee):
        src = to_iter(it, args[0])
        total = 0
        while True:
            o = src.next(it)
            if o.variant == 0:
                return total
            total = add_vals(total, deref(o.fields[0]))

    @reg("Iterator::rposition")
    def m_iter_rposition(it, args, callee):
        src = to_iter(it, args[0])
        items = []
        while True:
            o = src.next(it)
            if o.variant == 0:
                break
            items.append(o.fields[0])
        for i in range(len(items) - 1, -1, -1):
            if it.st.branch(it.call_value(args[1], [items[i]])):
                return some(i)
        return none()

    @reg("Iterator::max_by_key", "Iterator::min_by_key")
    def m_iter_by_key(it, args, callee):
        src = to_iter(it, args[0])
        want_max = "max_by_key" in callee
        best, best_k = None, None
        while True:
            o = src.next(it)
            if o.variant == 0:
                return some(best) if best is not None else none()
            v = o.fields[0]
            k = it.call_value(args[1], [Ref([v], 0)])
            if best is None:
                best, best_k = v, k
                continue
            if isinstance(k, Agg) or isinstance(best_k, Agg):
                raise Unsupported("max_by_key / min_by_key with an aggregate key")
            # max_by_key returns the last maximum, min_by_key the first minimum
            better = simp(z3.UGE(bv(k, 64), bv(best_k, 64))) if want_max else simp(z3.ULT(bv(k, 64), bv(best_k, 64)))
            if (better if isinstance(better, bool) else it.st.branch(better)):
                best, best_k = v, k

    # ----------------------------------------------------------------- Option / Result combinators
    @reg("Option::or")
    def m_opt_or(it, args, callee):
        o = option_of(args[0])
        return o if o.variant == 1 else args[1]

    @reg("Option::and")
    def m_opt_and(it, args, callee):
        o = option_of(args[0])
        return args[1] if o.variant == 1 else none()

    @reg("Option::xor")
    def m_opt_xor(it, args, callee):
        a, b = option_of(args[0]), option_of(args[1])
        if a.variant == 1 and b.variant == 0:
            return a
        if a.variant == 0 and b.variant == 1:
            return b
        return none()

    @reg("Option::map_or_else")
    def m_opt_map_or_else(it, args, callee):
        o = option_of(args[0])
        return it.call_value(args[2], [o.fields[0]]) if o.variant == 1 else it.call_value(args[1], [])

    @reg("Option::ok_or_else")
    def m_opt_ok_or_else(it, args, callee):
        o = option_of(args[0])
        return ok(o.fields[0]) if o.variant == 1 else err(it.call_value(args[1], []))

    @reg("Option::zip")
    def m_opt_zip(it, args, callee):
        a, b = option_of(args[0]), option_of(args[1])
        if a.variant == 1 and b.variant == 1:
            return some(Agg("tuple", None, [a.fields[0], b.fields[0]]))
        return none()

    @reg("Option::is_none_or")
    def m_opt_is_none_or(it, args, callee):
        o = option_of(args[0])
        return True if o.variant == 0 else it.call_value(args[1], [o.fields[0]])

    @reg("Option::insert", "Option::replace")
    def m_opt_insert(it, args, callee):
        r = args[0]
        old = option_of(r)
        cell = some(args[1])
        r.set(cell)
        if method_name(callee).startswith("replace"):
            return old
        return Ref(cell.fields, 0, True)

    @reg("Option::get_or_insert_with", "Option::get_or_insert")
    def m_opt_get_or_insert(it, args, callee):
        r = args[0]
        o = option_of(r)
        if o.variant == 0:
            v = it.call_value(args[1], []) if "with" in method_name(callee) else args[1]
            o = some(v)
            r.set(o)
        return Ref(o.fields, 0, True)

    @reg("Option::as_deref", "Option::as_deref_mut")
    def m_opt_as_deref(it, args, callee):
        o = option_of(args[0])
        if o.variant == 0:
            return none()
        v = deref(o.fields[0])
        if isinstance(v, (Str, SString)):
            return some(Str(v.elems))
        return some(Ref(o.fields, 0))

    @reg("Option::inspect")
    def m_opt_inspect(it, args, callee):
        o = option_of(args[0])
        if o.variant == 1:
            it.call_value(args[1], [Ref(o.fields, 0)])
        return o

    @reg("Result::map_err")
    def m_res_map_err(it, args, callee):
        o = option_of(args[0])
        return o if o.variant == 0 else err(it.call_value(args[1], [o.fields[0]]))

    @reg("Result::unwrap_or_else")
    def m_res_unwrap_or_else(it, args, callee):
        o = option_of(args[0])
        return o.fields[0] if o.variant == 0 else it.call_value(args[1], [o.fields[0]])

    @reg("Result::or_else")
    def m_res_or_else(it, args, callee):
        o = option_of(args[0])
        return o if o.variant == 0 else it.call_value(args[1], [o.fields[0]])

    @reg("Result::err")
    def m_res_err(it, args, callee):
        o = option_of(args[0])
        return some(o.fields[0]) if o.variant == 1 else none()

    @reg("Result::map_or")
    def m_res_map_or(it, args, callee):
        o = option_of(args[0])
        return it.call_value(args[2], [o.fields[0]]) if o.variant == 0 else args[1]

    @reg("Result::is_ok_and", "Result::is_err_and")
    def m_res_is_and(it, args, callee):
        o = option_of(args[0])
        want = 0 if "is_ok_and" in callee else 1
        return it.call_value(args[1], [o.fields[0]]) if o.variant == want else False

    @reg("Option::flatten")
    def m_opt_flatten(it, args, callee):
        o = option_of(args[0])
        return option_of(o.fields[0]) if o.variant == 1 else none()

    @reg("bool::then")
    def m_bool_then(it, args, callee):
        return some(it.call_value(args[1], [])) if it.st.branch(deref(args[0])) else none()

    @reg("bool::then_some")
    def m_bool_then_some(it, args, callee):
        return some(args[1]) if it.st.branch(deref(args[0])) else none()

    # ----------------------------------------------------------------- mem
    def owns_heap(v, depth=0):
        v = deref(v) if isinstance(v, Ref) else v
        if isinstance(v, (SString, SVec, SMap, Box)):
            return True
        if isinstance(v, Opaque):
            return v.tag in ("PathBuf", "OsString", "bytes", "File")
        if isinstance(v, Agg) and depth < 4:
            return any(owns_heap(x, depth + 1) for x in v.fields if not isinstance(x, Ref))
        return False

    @reg("mem::forget", "ManuallyDrop::new")
    def m_forget(it, args, callee):
        # the value's destructor never runs: whatever it owns on the heap stays allocated for good
        if owns_heap(args[0]):
            it.env.setdefault("forgotten", []).append(repr(deref(args[0]) if isinstance(args[0], Ref) else args[0])[:80])
        return UNIT if "forget" in callee else args[0]

    def path_of(v):
        d = deref(v) if isinstance(v, Ref) else v
        if isinstance(d, Opaque) and d.tag in ("PathBuf", "OsString"):
            return tuple(d.payload or ())
        return tuple(elems_of(v))

    @reg("Path::as_os_str", "PathBuf::as_os_str", "PathBuf::as_path", "OsStr::to_owned", "OsStr::to_os_string", "Path::to_path_buf", "PathBuf::into_os_string",
         "OsString::into_boxed_os_str", "Path::new", "PathBuf::from", "OsString::from", "OsStr::new", "Path::to_owned", "OsString::as_os_str")
    def m_path_copy(it, args, callee):
        return Opaque("PathBuf", path_of(args[0]))

    @reg("OsString::push", "PathBuf::push")
    def m_path_push(it, args, callee):
        d = deref(args[0])
        sep = (0x2f,) if "PathBuf" in callee else ()
        d.payload = tuple(d.payload or ()) + sep + path_of(args[1])
        return UNIT

    @reg("Path::join", "Path::with_extension", "Path::with_file_name", "PathBuf::join")
    def m_path_join(it, args, callee):
        sep = (0x2e,) if "extension" in callee else (0x2f,)
        return Opaque("PathBuf", path_of(args[0]) + sep + path_of(args[1]))

    @reg("PathBuf::set_extension")
    def m_path_set_ext(it, args, callee):
        d = deref(args[0])
        d.payload = tuple(d.payload or ()) + (0x2e,) + path_of(args[1])
        return True

    @reg("mem::take")
    def m_mem_take(it, args, callee):
        r = args[0]
        old = r.get()
        if isinstance(old, SString):
            r.set(SString([]))
        elif isinstance(old, SVec):
            r.set(SVec([]))
        elif isinstance(old, SMap):
            r.set(SMap(old.name))
        elif isinstance(old, Agg) and old.kind == "adt:Option":
            r.set(none())
        elif isinstance(old, bool):
            r.set(False)
        elif isinstance(old, int) or is_sym(old):
            r.set(0)
        else:
            raise Unsupported("mem::take of %r" % (old,))
        return old

    @reg("mem::replace")
    def m_mem_replace(it, args, callee):
        r = args[0]
        old = r.get()
        r.set(args[1])
        return old

    @reg("mem::swap")
    def m_mem_swap(it, args, callee):
        a, b = args[0], args[1]
        x, y = a.get(), b.get()
        a.set(y)
        b.set(x)
        return UNIT

    # ----------------------------------------------------------------- HashMap: entry API and friends
    @reg("HashMap::get_mut")
    def m_map_get_mut(it, args, callee):
        o = m_map_get(it, args, callee)
        if o.variant == 1:
            r = o.fields[0]
            return some(Ref(r.items, r.index, True)) if hasattr(r, "items") else o
        return o

    @reg("HashMap::entry")
    def m_map_entry(it, args, callee):
        return Agg("adt:MapEntry", None, [args[0], SString(elems_of(args[1]))])

    def entry_slot(it, e, make):
        m = deref(e.fields[0])
        key = elems_of(e.fields[1])
        i = map_find(it, m, key)
        if i is None and m.oracle is not None:
            v = m.oracle(it, m, key)
            if v is not None:
                m.entries.append([tuple(key), v])
                i = len(m.entries) - 1
        if i is None:
            m.entries.append([tuple(key), make()])
            i = len(m.entries) - 1
        return Ref(m.entries[i], 1, True)

    @reg("Entry::or_insert")
    def m_entry_or_insert(it, args, callee):
        return entry_slot(it, args[0], lambda: args[1])

    @reg("Entry::or_insert_with")
    def m_entry_or_insert_with(it, args, callee):
        return entry_slot(it, args[0], lambda: it.call_value(args[1], []))

    @reg("Entry::or_default")
    def m_entry_or_default(it, args, callee):
        t = callee
        def make():
            if "Vec<" in t:
                return SVec([])
            if "String" in t.split(",")[-1]:
                return SString([])
            raise Unsupported("Entry::or_default for %s" % t)
        return entry_slot(it, args[0], make)

    @reg("Entry::and_modify")
    def m_entry_and_modify(it, args, callee):
        e = args[0]
        m = deref(e.fields[0])
        i = map_find(it, m, elems_of(e.fields[1]))
        if i is not None:
            it.call_value(args[1], [Ref(m.entries[i], 1, True)])
        return e

    @reg("HashMap::extend")
    def m_map_extend(it, args, callee):
        src = to_iter(it, args[1])
        while True:
            o = src.next(it)
            if o.variant == 0:
                return UNIT
            k, v = deref(o.fields[0]).fields
            m_map_insert(it, [args[0], k, v], "HashMap::insert")

    @reg("HashMap::remove_entry")
    def m_map_remove_entry(it, args, callee):
        m = deref(args[0])
        i = map_find(it, m, elems_of(args[1]))
        if i is None:
            return none()
        k, v = m.entries.pop(i)
        return some(Agg("tuple", None, [SString(k), v]))

    # ----------------------------------------------------------------- str / String helpers
    def trim_range(it, el, pat, start, end):
        lo, hi = 0, len(el)
        dp = deref(pat) if isinstance(pat, Ref) else pat
        if isinstance(dp, (Str, SString)):
            # a string pattern is stripped repeatedly, as std does
            p = list(elems_of(dp))
            if not p:
                return lo, hi
            if start:
                while hi - lo >= len(p) and it.st.branch(str_eq(el[lo:lo + len(p)], p)):
                    lo += len(p)
            if end:
                while hi - lo >= len(p) and it.st.branch(str_eq(el[hi - len(p):hi], p)):
                    hi -= len(p)
            return lo, hi
        if start:
            while lo < hi and char_matches(it, el[lo], pat):
                lo += 1
        if end:
            while hi > lo and char_matches(it, el[hi - 1], pat):
                hi -= 1
        return lo, hi

    @reg("str::trim_matches", "str::trim_start_matches", "str::trim_end_matches")
    def m_trim_matches(it, args, callee):
        el = list(elems_of(args[0]))
        name = method_name(callee)
        lo, hi = trim_range(it, el, args[1], name != "trim_end_matches", name != "trim_start_matches")
        return Str(el[lo:hi])

    WS = [0x09, 0x0A, 0x0B, 0x0C, 0x0D, 0x20, 0x85, 0xA0, 0x1680, 0x2028, 0x2029, 0x202F, 0x205F, 0x3000] + list(range(0x2000, 0x200B))

    @reg("str::trim", "str::trim_start", "str::trim_end")
    def m_trim(it, args, callee):
        el = list(elems_of(args[0]))
        name = method_name(callee)
        ws = Slice([c for c in WS])
        lo, hi = trim_range(it, el, ws, name != "trim_end", name != "trim_start")
        return Str(el[lo:hi])

    @reg("char::is_whitespace")
    def m_char_is_ws(it, args, callee):
        c = deref(args[0])
        if not is_sym(c):
            return c in WS
        return simp(z3.Or([c == w for w in WS]))

    @reg("str::strip_prefix", "str::strip_suffix")
    def m_strip(it, args, callee):
        el = list(elems_of(args[0]))
        pre = "strip_prefix" in callee
        dp = deref(args[1]) if isinstance(args[1], Ref) else args[1]
        if isinstance(dp, (Str, SString)):
            p = list(elems_of(dp))
            if len(p) > len(el):
                return none()
            part = el[:len(p)] if pre else el[len(el) - len(p):]
            if it.st.branch(str_eq(part, p)):
                return some(Str(el[len(p):] if pre else el[:len(el) - len(p)]))
            return none()
        if not el:
            return none()
        if char_matches(it, el[0] if pre else el[-1], args[1]):
            return some(Str(el[1:] if pre else el[:-1]))
        return none()

    @reg("str::rfind")
    def m_str_rfind(it, args, callee):
        el = list(elems_of(args[0]))
        ps = prefix_sums(el)
        dp = deref(args[1]) if isinstance(args[1], Ref) else args[1]
        if isinstance(dp, (Str, SString)):
            p = list(elems_of(dp))
            for i in range(len(el) - len(p), -1, -1):
                if it.st.branch(str_eq(el[i:i + len(p)], p)):
                    return some(ps[i])
            return none()
        for i in range(len(el) - 1, -1, -1):
            if char_matches(it, el[i], args[1]):
                return some(ps[i])
        return none()

    @reg("str::split_once", "str::rsplit_once")
    def m_split_once(it, args, callee):
        el = list(elems_of(args[0]))
        dp = deref(args[1]) if isinstance(args[1], Ref) else args[1]
        plen = len(elems_of(dp)) if isinstance(dp, (Str, SString)) else 1
        order = range(len(el) - plen, -1, -1) if "rsplit_once" in callee else range(0, len(el) - plen + 1)
        for i in order:
            hit = it.st.branch(str_eq(el[i:i + plen], list(elems_of(dp)))) if isinstance(dp, (Str, SString)) else char_matches(it, el[i], args[1])
            if hit:
                return some(Agg("tuple", None, [Str(el[:i]), Str(el[i + plen:])]))
        return none()

    @reg("str::split", "str::rsplit", "str::split_terminator", "str::splitn", "str::split_whitespace", "str::lines")
    def m_str_split(it, args, callee):
        el = list(elems_of(args[0]))
        name = method_name(callee)
        if name == "splitn":
            raise Unsupported("str::splitn")
        pat = Slice(list(WS)) if name == "split_whitespace" else (0x0A if name == "lines" else args[1])
        dp = deref(pat) if isinstance(pat, Ref) else pat
        if isinstance(dp, (Str, SString)):
            raise Unsupported("str::split with a string pattern")
        parts, cur = [], []
        for ch in el:
            if char_matches(it, ch, pat):
                parts.append(cur)
                cur = []
            else:
                cur.append(ch)
        parts.append(cur)
        if name in ("split_terminator", "lines") and parts and not parts[-1]:
            parts.pop()
        if name == "split_whitespace":
            parts = [p for p in parts if p]
        if name == "rsplit":
            parts.reverse()
        return ItOwned([Str(p) for p in parts])

    @reg("Error::column", "Error::line")
    def m_error_position(it, args, callee):
        # serde_json::Error: where the parser stopped - any position (a byte count, 1-based)
        n = it.st.counter = getattr(it.st, "counter", 0) + 1
        v = it.st.sym_bv("json_error_%s_%d" % (method_name(callee), n), 64)
        it.st.assume(z3.ULT(v, 1 << 16))
        return v

    @reg("String::from_utf8_lossy")
    def m_from_utf8_lossy(it, args, callee):
        # lossy decoding of arbitrary bytes: some text of at most as many characters (each any scalar value; U+FFFD among them)
        src = deref(args[0])
        n = min(1, len(src.items) if hasattr(src, "items") else len(slice_of(src)))       # bound: one character of text (any scalar but a line break)
        k = it.st.counter = getattr(it.st, "counter", 0) + 1
        chars = [it.st.sym_char("lossy%d_%d" % (k, i)) for i in range(n)]
        for c in chars:
            it.st.assume(z3.And(c != 0x0A, c != 0x0D))
        return Agg("adt:Cow", 1, [SString(chars)])

    @reg("_eprint", "_print", "io::_eprint", "io::_print", "stdio::_eprint", "stdio::_print")
    def m_print(it, args, callee):
        return UNIT

    @reg("str::replace", "str::replacen")
    def m_str_replace(it, args, callee):
        el = list(elems_of(args[0]))
        pat, to = args[1], list(elems_of(args[2]))
        limit = as_int(it, args[3], 0, 64, "replacen count") if method_name(callee) == "replacen" else None
        dp = deref(pat) if isinstance(pat, Ref) else pat
        if isinstance(dp, (Str, SString)):
            p = list(dp.elems)
            if len(p) != 1:
                if any(is_sym(c) for c in p + el) or not p:
                    raise Unsupported("str::replace with a string pattern over symbolic text")
                text, pt = "".join(chr(c) for c in el), "".join(chr(c) for c in p)
                r = text.replace(pt, "".join(chr(c) for c in to) if all(not is_sym(c) for c in to) else "\0", -1 if limit is None else limit)
                if "\0" in r:
                    raise Unsupported("str::replace with a symbolic replacement")
                return SString([ord(ch) for ch in r])
            pat = p[0]
        out, n = [], 0
        for ch in el:
            if (limit is None or n < limit) and char_matches(it, ch, pat):
                out.extend(to)
                n += 1
            else:
                out.append(ch)
        return SString(out)

    @reg("str::is_ascii")
    def m_str_is_ascii(it, args, callee):
        conds = []
        for c in elems_of(args[0]):
            if is_sym(c):
                conds.append(z3.ULT(c, 0x80))
            elif c >= 0x80:
                return False
        return simp(z3.And(conds)) if conds else True

    @reg("str::repeat")
    def m_str_repeat(it, args, callee):
        n = as_int(it, args[1], 0, 16, "repeat count")
        return SString(list(elems_of(args[0])) * n)

    @reg("str::to_ascii_lowercase", "str::to_ascii_uppercase", "str::to_lowercase", "str::to_uppercase")
    def m_str_case(it, args, callee):
        name = method_name(callee)
        out = []
        for c in elems_of(args[0]):
            if "ascii" not in name and (is_sym(c) or c >= 0x80):
                # full Unicode case mapping: only for text the run pins to ASCII
                if is_sym(c):
                    if it.st.branch(simp(z3.UGE(c, 0x80))):
                        raise Unsupported("%s of a non-ASCII character (Unicode tables)" % name)
                else:
                    raise Unsupported("%s of a non-ASCII character (Unicode tables)" % name)
            out.append(m_char_ascii_case(it, [c], "char::to_ascii_lowercase" if "lower" in name else "char::to_ascii_uppercase"))
        return SString(out)

    @reg("str::eq_ignore_ascii_case")
    def m_str_eq_ic(it, args, callee):
        a = [m_char_ascii_case(it, [c], "char::to_ascii_lowercase") for c in elems_of(args[0])]
        b = [m_char_ascii_case(it, [c], "char::to_ascii_lowercase") for c in elems_of(args[1])]
        return str_eq(a, b)

    @reg("char::eq_ignore_ascii_case")
    def m_char_eq_ic(it, args, callee):
        return char_eq(m_char_ascii_case(it, [deref(args[0])], "char::to_ascii_lowercase"), m_char_ascii_case(it, [deref(args[1])], "char::to_ascii_lowercase"))

    @reg("str::is_char_boundary")
    def m_is_char_boundary(it, args, callee):
        ps = prefix_sums(list(elems_of(args[0])))
        off = args[1]
        conds = [char_eq(p, off) if (is_sym(p) or is_sym(off)) else (p == off) for p in ps]
        if any(c is True for c in conds):
            return True
        live = [c for c in conds if c is not False]
        return simp(z3.Or(live)) if live else False

    @reg("String::retain")
    def m_string_retain(it, args, callee):
        s2 = deref(args[0])
        s2.elems[:] = [c for c in list(s2.elems) if it.st.branch(it.call_value(args[1], [c]))]
        return UNIT

    @reg("String::split_off")
    def m_string_split_off(it, args, callee):
        s2 = deref(args[0])
        k = byte_to_index(it, s2.elems, args[1], "String::split_off")
        tail = SString(s2.elems[k:])
        del s2.elems[k:]
        return tail

    @reg("String::extend")
    def m_string_extend(it, args, callee):
        return m_extend(it, args, "Extend::extend")

    # ----------------------------------------------------------------- Vec / slice helpers
    @reg("Vec::reverse", "slice::reverse")
    def m_vec_reverse(it, args, callee):
        s = slice_of(args[0])
        part = s.items[s.lo:s.hi]
        part.reverse()
        s.items[s.lo:s.hi] = part
        return UNIT

    @reg("Vec::swap", "slice::swap")
    def m_vec_swap(it, args, callee):
        s = slice_of(args[0])
        i = as_int(it, args[1], 0, 64, "swap index")
        j = as_int(it, args[2], 0, 64, "swap index")
        n = s.hi - s.lo
        if i >= n or j >= n:
            raise PanicPath("index out of bounds: the len is %d but the index is %d" % (n, max(i, j)))
        s.items[s.lo + i], s.items[s.lo + j] = s.items[s.lo + j], s.items[s.lo + i]
        return UNIT

    @reg("Vec::first_mut", "Vec::last_mut", "slice::first_mut", "slice::last_mut")
    def m_vec_first_mut(it, args, callee):
        s = slice_of(args[0])
        if s.hi - s.lo == 0:
            return none()
        return some(Ref(s.items, s.lo if "first" in method_name(callee) else s.hi - 1, True))

    @reg("Vec::get_mut", "slice::get_mut")
    def m_vec_get_mut(it, args, callee):
        s = slice_of(args[0])
        i = as_int(it, args[1], 0, 64, "get_mut index")
        if i >= s.hi - s.lo:
            return none()
        return some(Ref(s.items, s.lo + i, True))

    @reg("Vec::drain")
    def m_vec_drain(it, args, callee):
        v = deref(args[0])
        r = args[1]
        n = len(v.items)
        if isinstance(r, Agg) and r.kind == "adt:RangeFull":
            lo, hi = 0, n
        elif isinstance(r, Agg) and r.kind == "adt:Range":
            lo, hi = as_int(it, r.fields[0], 0, 64, "drain start"), as_int(it, r.fields[1], 0, 64, "drain end")
        elif isinstance(r, Agg) and r.kind == "adt:RangeTo":
            lo, hi = 0, as_int(it, r.fields[0], 0, 64, "drain end")
        elif isinstance(r, Agg) and r.kind == "adt:RangeFrom":
            lo, hi = as_int(it, r.fields[0], 0, 64, "drain start"), n
        else:
            raise Unsupported("Vec::drain with %r" % (r,))
        if lo > hi or hi > n:
            raise PanicPath("drain range out of bounds")
        out = v.items[lo:hi]
        del v.items[lo:hi]
        return ItOwned(out)

    @reg("Vec::resize")
    def m_vec_resize(it, args, callee):
        v = deref(args[0])
        n = as_int(it, args[1], 0, 64, "resize length")
        while len(v.items) > n:
            v.items.pop()
        while len(v.items) < n:
            v.items.append(deep_copy(args[2]))
        return UNIT

    # ----------------------------------------------------------------- integers
    @reg("usize::saturating_sub", "u64::saturating_sub", "u32::saturating_sub", "u16::saturating_sub", "u8::saturating_sub")
    def m_saturating_sub(it, args, callee):
        a, b = args[0], args[1]
        if not is_sym(a) and not is_sym(b):
            return max(a - b, 0)
        bits = a.size() if is_sym(a) else b.size()
        return simp(z3.If(z3.UGE(bv(a, bits), bv(b, bits)), bv(a, bits) - bv(b, bits), z3.BitVecVal(0, bits)))

    @reg("usize::checked_sub", "u64::checked_sub", "u32::checked_sub", "u8::checked_sub", "u16::checked_sub")
    def m_checked_sub(it, args, callee):
        a, b = args[0], args[1]
        if not is_sym(a) and not is_sym(b):
            return some(a - b) if a >= b else none()
        bits = a.size() if is_sym(a) else b.size()
        if it.st.branch(simp(z3.UGE(bv(a, bits), bv(b, bits)))):
            return some(simp(bv(a, bits) - bv(b, bits)))
        return none()

    @reg("usize::abs_diff", "u64::abs_diff", "u32::abs_diff", "u8::abs_diff")
    def m_abs_diff(it, args, callee):
        a, b = args[0], args[1]
        if not is_sym(a) and not is_sym(b):
            return abs(a - b)
        bits = a.size() if is_sym(a) else b.size()
        return simp(z3.If(z3.UGE(bv(a, bits), bv(b, bits)), bv(a, bits) - bv(b, bits), bv(b, bits) - bv(a, bits)))

    @reg("usize::wrapping_sub", "u64::wrapping_sub", "u8::wrapping_sub", "u32::wrapping_sub")
    def m_wrapping_sub(it, args, callee):
        a, b = args[0], args[1]
        bits = next((b for t, b in (("usize", 64), ("u64", 64), ("u32", 32), ("u8", 8)) if "impl " + t in callee or callee.strip().startswith(t + "::")), 64)
        if not is_sym(a) and not is_sym(b):
            return (a - b) & ((1 << bits) - 1)
        return simp(bv(a, bits) - bv(b, bits))

    UTYPES = (("usize", 64), ("u64", 64), ("u32", 32), ("u16", 16), ("u8", 8))

    def int_bits(callee):
        return next((b for t, b in UTYPES if "impl " + t + ">" in callee or callee.strip().startswith(t + "::") or ("::" + t + "::") in callee), 64)

    @reg(*[t + "::saturating_add" for t, _ in UTYPES])
    def m_saturating_add(it, args, callee):
        a, b = args[0], args[1]
        bits = int_bits(callee)
        top = (1 << bits) - 1
        if not is_sym(a) and not is_sym(b):
            return min(a + b, top)
        x, y = z3.ZeroExt(1, bv(a, bits)), z3.ZeroExt(1, bv(b, bits))
        return simp(z3.If(z3.UGT(x + y, z3.BitVecVal(top, bits + 1)), z3.BitVecVal(top, bits), bv(a, bits) + bv(b, bits)))

    @reg(*[t + "::saturating_mul" for t, _ in UTYPES])
    def m_saturating_mul(it, args, callee):
        a, b = args[0], args[1]
        bits = int_bits(callee)
        top = (1 << bits) - 1
        if not is_sym(a) and not is_sym(b):
            return min(a * b, top)
        x, y = z3.ZeroExt(bits, bv(a, bits)), z3.ZeroExt(bits, bv(b, bits))
        return simp(z3.If(z3.UGT(x * y, z3.BitVecVal(top, 2 * bits)), z3.BitVecVal(top, bits), bv(a, bits) * bv(b, bits)))

    @reg(*[t + "::checked_add" for t, _ in UTYPES])
    def m_checked_add(it, args, callee):
        a, b = args[0], args[1]
        bits = int_bits(callee)
        top = (1 << bits) - 1
        if not is_sym(a) and not is_sym(b):
            return some(a + b) if a + b <= top else none()
        x, y = z3.ZeroExt(1, bv(a, bits)), z3.ZeroExt(1, bv(b, bits))
        if it.st.branch(simp(z3.ULE(x + y, z3.BitVecVal(top, bits + 1)))):
            return some(simp(bv(a, bits) + bv(b, bits)))
        return none()

    @reg(*[t + "::checked_mul" for t, _ in UTYPES])
    def m_checked_mul(it, args, callee):
        a, b = args[0], args[1]
        bits = int_bits(callee)
        top = (1 << bits) - 1
        if not is_sym(a) and not is_sym(b):
            return some(a * b) if a * b <= top else none()
        x, y = z3.ZeroExt(bits, bv(a, bits)), z3.ZeroExt(bits, bv(b, bits))
        if it.st.branch(simp(z3.ULE(x * y, z3.BitVecVal(top, 2 * bits)))):
            return some(simp(bv(a, bits) * bv(b, bits)))
        return none()

    @reg(*[t + "::wrapping_add" for t, _ in UTYPES])
    def m_wrapping_add(it, args, callee):
        a, b = args[0], args[1]
        bits = int_bits(callee)
        if not is_sym(a) and not is_sym(b):
            return (a + b) & ((1 << bits) - 1)
        return simp(bv(a, bits) + bv(b, bits))

    @reg(*[t + "::wrapping_mul" for t, _ in UTYPES])
    def m_wrapping_mul(it, args, callee):
        a, b = args[0], args[1]
        bits = int_bits(callee)
        if not is_sym(a) and not is_sym(b):
            return (a * b) & ((1 << bits) - 1)
        return simp(bv(a, bits) * bv(b, bits))

    @reg("Clone::clone_from")
    def m_clone_from(it, args, callee):
        src = m_clone(it, [args[1]], "Clone::clone")
        args[0].set(src)
        return UNIT

    # ----------------------------------------------------------------- Cell
    @reg("Cell::new")
    def m_cell_new(it, args, callee):
        return Agg("adt:Cell", None, [args[0]])

    @reg("Cell::get")
    def m_cell_get(it, args, callee):
        return deref(args[0]).fields[0]

    @reg("Cell::set")
    def m_cell_set(it, args, callee):
        deref(args[0]).fields[0] = args[1]
        return UNIT

    @reg("Cell::replace")
    def m_cell_replace(it, args, callee):
        c = deref(args[0])
        old = c.fields[0]
        c.fields[0] = args[1]
        return old

    @reg("Cell::take")
    def m_cell_take(it, args, callee):
        return m_mem_take(it, [Ref(deref(args[0]).fields, 0, True)], "mem::take")
