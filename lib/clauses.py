"""Which clause of the shared obligations belongs to which property (a property's check reports only its own clauses;
`no_panic` belongs to C01, and to C10 for the user-file code)."""

OWN = {
    "C01": {"no_panic", "borrows_are_released"},
    "C02": {"list_not_empty", "preselection_inside_list", "selection_inside_list", "auxiliary_is_the_typed_text", "auxiliary_is_the_composed_text",
            "returned_list_is_the_scratch_list", "key_appends_one_char_or_nothing", "shown_list_and_preselection_are_the_assemblys_answer", "scratch_list_belongs_to_the_text",
            # the auxiliary text is the composition only if every event keeps "typed text = what the user is composing": the session clauses are part of the induction
            "terminating_event_clears_composition", "backspace_progress"},
    "C03": {"parts_concatenate_to_input", "splits_punctuation_word_punctuation", "three_conversions_concatenated", "transliteration_is_a_candidate"},
    "C05": {"warm_context_gives_the_same_list", "warm_context_gives_the_same_preselection", "memo_entry_holds_direct_candidates_only",
            "memo_entries_survive_the_event", "memo_entry_is_keyed_by_the_word",
            "shown_list_and_preselection_are_the_assemblys_answer",
            # "... the data files ...": a re-load of the user's auto-correct list leaves nothing of the old list behind in a warm context
            "reloaded_context_equals_a_new_one", "reloaded_list_is_in_use",
            "context_with_history_gives_the_list_of_a_new_one", "context_with_history_gives_the_preselection_of_a_new_one"},
    "C06": None,   # fixed_session clauses are all C06's; the phonetic glue set is given explicitly in the module
    "C07": {"autocorrect_entry_is_first", "ranked_best_first", "dictionary_candidates_carry_their_distance",
            # distances are "from the plain transliteration" of THIS word: the memo entry a word's candidates come from is its own
            "memo_entry_is_keyed_by_the_word", "memo_entry_holds_direct_candidates_only",
            # "user entry before bundled entry": the user's list in use is the file as it can be read now
            "file_newer_than_the_last_successful_load_is_read", "reloaded_context_equals_a_new_one", "reloaded_list_is_in_use", "dictionary_word_is_ranked_by_its_edit_distance",
            "english_candidate_only_when_enabled_and_not_ansi",
            "english_candidate_is_last_and_is_the_typed_text", "no_candidate_twice"},
    "C08": {"suffix_forms_complete", "candidates_of_the_base_come_back_joined", "candidates_are_justified", "memo_entry_holds_direct_candidates_only", "memo_entry_is_keyed_by_the_word"},
    "C09": {"learned_choice_is_preselected_next_time", "committing_the_preselected_candidate_changes_nothing", "other_learned_entries_survive_a_commit",
            "recorded_preselection_is_the_assemblys_answer", "commit_without_a_list_changes_nothing",
            "learned_base_choice_selects_the_joined_candidate"},
    "C10": {"no_panic", "unreadable_store_is_treated_as_absent", "failed_save_loses_at_most_that_choice", "commit_ends_the_word",
            "reload_keeps_the_word_in_progress", "save_replaces_the_whole_file", "nothing_owned_is_forgotten",
            "file_newer_than_the_last_successful_load_is_read", "every_learning_commit_attempts_its_save"},
    "C11": {"reloaded_context_equals_a_new_one", "reloaded_list_is_in_use", "configuration_is_replaced", "same_layout_keeps_the_method_and_its_word",
            "changed_layout_replaces_the_method", "later_events_see_the_new_configuration", "method_matches_the_configured_layout",
            "method_is_new_or_refreshed_by_the_update", "event_result_is_the_methods_result", "events_use_the_contexts_data", "current_method_is_last",
            "constructor_consults_the_user_files_whatever_the_options", "data_is_the_same_for_every_layout_and_option",
            "reconfigured_context_gives_the_list_of_a_new_one", "reconfigured_context_gives_the_preselection_of_a_new_one",
            "key_obeys_the_options_in_force_now", "key_emits_what_the_layout_now_loaded_assigns",
            "shown_list_and_preselection_are_the_assemblys_answer"},
    "C15": {"first_candidate_is_the_composed_text", "at_most_nine", "english_candidate_iff_enabled_and_not_ansi_and_different", "english_candidate_is_the_raw_keys",
            "non_emoji_candidates_by_distance", "no_candidate_twice", "dictionary_candidates_are_search_answers_wrapped", "pattern_is_anchored",
            "pattern_has_the_letter_class", "literal_part_has_no_regex_meta_character", "literal_part_is_the_word_without_punctuation", "wildcard_width_by_length",
            "every_match_is_offered", "candidate_begins_with_the_typed_word", "shown_text_is_the_dictionary_word_with_blocked_ligatures", "distance_is_computed_from_the_shown_text",
            # "the last candidate is the raw key text" of *this* word: the raw keys are empty whenever nothing is composed
            "session_invariant_preserved",
            # "the first candidate is always the composed text": the list an event returns was made for the text as it now stands
            "scratch_list_belongs_to_the_text", "auxiliary_is_the_composed_text", "list_not_empty"},
    "C16": {"ansi_offers_no_emoji_or_raw_text", "ansi_offers_nothing_it_cannot_encode", "english_candidate_only_when_enabled_and_not_ansi", "english_candidate_iff_enabled_and_not_ansi_and_different",
            "suggestion_carries_the_ansi_switch"},      # the ANSI clause is also evaluated on the list shown after an option change (reconfiguration)
    "C17": {"punctuation_only_left_untouched", "word_untouched", "leading_quotes_open", "trailing_quotes_close", "smart_quotes_keep_length_and_order",
            "smart_quotes_keep_preselection", "smart_quotes_curl_every_candidate"},
    "C18": {"emoticon_offers_its_emoji_and_keeps_the_literal_text", "emoji_name_offers_all_its_emoji_in_table_order_wrapped", "emoticon_offers_its_emoji",
            "bengali_emoji_name_offers_all_its_emoji_in_table_order_wrapped",
            # "outside ANSI mode": also when ANSI mode was left a moment ago - the list is the one a new context shows
            "reconfigured_context_gives_the_list_of_a_new_one", "data_is_the_same_for_every_layout_and_option",
            # the fixed method looks the emoticon up under the raw keys: they must be the keys of this word only
            "session_invariant_preserved"},
}

GLUE_C06 = {"flag_matches_state", "terminating_event_clears_composition", "idle_backspace_starts_nothing", "backspace_progress",
            "nonempty_return_means_ongoing", "empty_return_ends_session",
            # "behaves from then on exactly like a newly created context": what the next key shows is the answer for the new text, not a remembered one
            "shown_list_and_preselection_are_the_assemblys_answer"}
