"""Obligations on the phonetic method, the splitter and the smart quoter, decided by engine M."""
import itertools
import json

import z3

import classes as CL
import msym
from common import REPO, Inconclusive, run_replay, run_replay_parallel
from fixedlib import struct_of, validate_witnesses
from mirsym.interp import PanicPath, PathAbort
from mirsym.values import (Agg, Opaque, Ref, SMap, SString, SVec, Str, UNIT, bv, is_sym, none, simp, some)
from msym import model_string, model_value
from obl_fixed import seq_eq, zb, zeq, zin, mentions

ALNUM = [ord(c) for c in "abcdefghijklmnopqrstuvwxyzABCDEFGHIJKLMNOPQRSTUVWXYZ0123456789"]
CURLY = {0x27: (0x2018, 0x2019), 0x22: (0x201C, 0x201D)}


def run_generic(check, name, shapes, make, to_scenario, compare, classify, describe, required_covers=None, budget_s=None,
                validate_cap=4000, confirm_scenario=None):
    """Explore, validate witnesses natively, confirm counterexamples natively (same scenario builder), report."""
    records, errors, summ = msym.run_shapes(check, name, shapes, make, budget_s=budget_s)
    wit = [r for r in records if r["kind"] == "witness"]
    vio = [r for r in records if r["kind"] == "violation" and (getattr(check, "only_clauses", None) is None or r["clause"] in check.only_clauses)]
    covers = {}
    for r in records:
        if r["kind"] == "cover":
            covers[r["name"]] = covers.get(r["name"], 0) + 1
    check.extra.setdefault("covers", {}).update({name + "/" + k: v for k, v in covers.items()})
    okc, bad = validate_witnesses(check, name, wit, to_scenario=to_scenario, compare=compare, cap=validate_cap) if to_scenario else (0, [])
    detail = "%d paths, %d witnesses replayed natively (%d agree)" % (summ["paths"], min(len(wit), validate_cap), okc)
    if errors:
        check.obligation(name, "mirsym", "inconclusive", "executor gave up: " + "; ".join(sorted(set(errors))[:3]))
        return
    if bad:
        check.obligation(name, "mirsym", "inconclusive", "executor model disagrees with the native build on %d witnesses, e.g. %s | %s" % (
            len(bad), bad[0][1], json.dumps(bad[0][0]["inputs"], ensure_ascii=False)[:400]))
        return
    if summ["paths"] == 0:
        check.obligation(name, "mirsym", "inconclusive", "no feasible path (vacuous)")
        return
    missing = [k for k in (required_covers or []) if k not in covers]
    if missing:
        check.obligation(name, "mirsym", "inconclusive", "vacuity: reachability witnesses never satisfied: %s" % missing)
        return
    if not vio:
        check.obligation(name, "mirsym", "held", detail + "; %d reachability witnesses; every property query unsat" % len(covers))
        return
    groups = {}
    for v in vio:
        groups.setdefault(classify(v), []).append(v)
    status = "held"
    worst = {"held": 0, "known": 1, "inconclusive": 2, "violated": 3}
    for key, vs in sorted(groups.items()):
        conf = None
        why = ""
        for v in vs[:10]:
            sc = (confirm_scenario or to_scenario)(v["inputs"])
            res = run_replay([sc])[0]
            d = compare(v, res)
            if d is None:
                conf = (v, sc, res)
                break
            why = d
        if conf is None:
            st = "inconclusive"
            check.obligation(name + ":" + key, "mirsym", "inconclusive", "counterexample did not reproduce natively (%s): %s" % (
                why[:200], json.dumps(vs[0]["inputs"], ensure_ascii=False)[:300]))
        else:
            v, sc, res = conf
            check.stats["traces_validated"] += 1
            st = check.finding(key, describe(v), dict(scenario=sc, observed=res["results"][-3:], predicted=v["predicted"], inputs=v["inputs"]))
            check.sample(dict(obligation=name, counterexample=v["inputs"], outcome=v["predicted"], role=key))
        if worst[st] > worst[status]:
            status = st
    check.obligation(name, "mirsym", status, detail + "; %d counterexample models" % len(vio))


def eval_clauses(st, clauses, mk_record):
    """Shared clause loop: covers, violations with their own model."""
    recs = []
    for cname, formula in clauses:
        if cname.startswith("cover:"):
            if formula is True or (formula is not False and st.feasible(formula)):
                recs.append(dict(kind="cover", name=cname))
            continue
        if formula is True:
            continue
        neg = z3.Not(formula) if formula is not False else z3.BoolVal(True)
        st.solver.push()
        st.solver.add(neg)
        if st._check(None):
            recs.append(mk_record(cname, st.solver.model()))
        st.solver.pop()
    return recs


# ------------------------------------------------------------------------- splitter + smart quoter

def split_parts(prog, v):
    order = prog.structs["SplittedString"]
    f = dict(zip(order, v.fields))
    from mirsym.models import elems_of
    return list(elems_of(f["preceding"])), list(elems_of(f["word"])), list(elems_of(f["trailing"]))


def make_split(shape):
    n = shape["n"]
    classed = shape["classed"]     # True: chars constrained to alnum + the 27 punctuation chars

    def build(st, it):
        prog = it.p
        s = [st.sym_char("s%d" % i) for i in range(n)]
        if classed:
            for c in s:
                st.assume(zin(c, ALNUM + CL.META27))
        colon = st.sym_bool("include_colon")
        quote = shape["quote"]
        st.ctx = dict(s=s, colon=colon, shape=shape)
        f_split = prog.find_fn("SplittedString", "split")
        f_quote = prog.find_fn("smart_quoter")

        def run():
            sp = it.call_function(f_split, [Str(s), colon])
            raw = split_parts(prog, sp)
            if quote:
                sp = it.call_function(f_quote, [sp])
            return raw, split_parts(prog, sp)
        return run

    def on_path(st, it, out):
        c = st.ctx
        s = c["s"]
        model = st.get_model()

        def inputs(m):
            return dict(text=model_string(m, s), colon=bool(model_value(m, c["colon"])), smart_quote=shape["quote"])

        def pred(m):
            if out[0] == "panic":
                return dict(panic=out[1].message)
            return dict(parts=[model_string(m, p) for p in out[1][1]])
        recs = [dict(kind="witness", inputs=inputs(model), predicted=pred(model))]
        if out[0] == "panic":
            recs.append(dict(kind="violation", clause="no_panic", inputs=inputs(model), predicted=pred(model)))
            return recs
        raw, fin = out[1]
        clauses = []
        # the parts always concatenate to the input
        clauses.append(("parts_concatenate_to_input", seq_eq(raw[0] + raw[1] + raw[2], s)))
        if classed:
            # reference: P1 = leading punctuation, W = letters/digits, P2 = trailing punctuation
            is_meta = [zin(x, CL.META27) for x in s]
            terms = []
            shapes_ok = []
            for i in range(n + 1):
                for j in range(i, n + 1):
                    if i == j and i != n:
                        continue     # an empty word means the whole text is punctuation: (s, "", "")
                    cond = z3.And([is_meta[k] for k in range(0, i)] + [z3.Not(is_meta[k]) for k in range(i, j)] + [is_meta[k] for k in range(j, n)])
                    if i == j:
                        exp = (list(s), [], [])
                    else:
                        exp = (list(s[:i]), list(s[i:j]), list(s[j:]))
                    terms.append(z3.Implies(cond, z3.And(seq_eq(raw[0], exp[0]), seq_eq(raw[1], exp[1]), seq_eq(raw[2], exp[2]))))
                    shapes_ok.append(cond)
                    if 0 < i < j < n:
                        clauses.append(("cover:wrapped_word", cond))
            clauses.append(("splits_punctuation_word_punctuation", z3.And(terms)))
        # smart quoter kernel
        if shape["quote"]:
            pre, word, trail = raw
            qp, qw, qt = fin
            if len(word) == 0:
                clauses.append(("punctuation_only_left_untouched", z3.And(seq_eq(qp, pre), seq_eq(qt, trail), z3.BoolVal(len(qw) == 0))))
                clauses.append(("cover:punct_only", True))
            else:
                def curl(x, idx):
                    e = x if is_sym(x) else z3.BitVecVal(x, 32)
                    return z3.If(e == 0x27, z3.BitVecVal(CURLY[0x27][idx], 32), z3.If(e == 0x22, z3.BitVecVal(CURLY[0x22][idx], 32), e))
                clauses.append(("word_untouched", seq_eq(qw, word)))
                clauses.append(("leading_quotes_open", seq_eq(qp, [curl(x, 0) for x in pre])))
                clauses.append(("trailing_quotes_close", seq_eq(qt, [curl(x, 1) for x in trail])))
                if pre:
                    clauses.append(("cover:quote_before_word", zeq(pre[-1], 0x22)))
        return recs + eval_clauses(st, clauses, lambda cn, m: dict(kind="violation", clause=cn, inputs=inputs(m), predicted=pred(m)))
    return build, on_path


def split_scenario(inp):
    return {"steps": [{"op": "split", "text": inp["text"], "colon": inp["colon"], "smart_quote": inp["smart_quote"]}]}


def split_compare(w, res):
    r = res["results"][0]
    p = w["predicted"]
    if p.get("panic") is not None:
        return None if "panic" in r else "symbolic path panics (%s), native returns %s" % (p["panic"], r.get("parts"))
    if "panic" in r:
        return "native panics: %s" % r["panic"]
    if r.get("parts") != p["parts"]:
        return "native parts %r, symbolic %r" % (r.get("parts"), p["parts"])
    return None


def obl_split(check, max_n, budget_s=None):
    shapes = []
    for n in range(0, max_n + 1):
        shapes.append(dict(n=n, classed=True, quote=True))
    for n in range(0, max(1, max_n - 1) + 1):
        shapes.append(dict(n=n, classed=False, quote=True))
    shapes.sort(key=lambda s: -s["n"])
    check.bounds["split"] = dict(text_code_points="0..%d over letters/digits + the 27 punctuation characters (reference clause); 0..%d over all "
                                                  "Unicode scalar values (no-panic, concatenation and quoter clauses)" % (max_n, max(1, max_n - 1)),
                                 include_colon="symbolic")
    run_generic(check, "split_and_quote", shapes, make_split, split_scenario, split_compare,
                lambda v: "splitter/quoter: " + v["clause"],
                lambda v: "split(%r, colon=%s) + smart quoter gives %s (%s)" % (v["inputs"]["text"], v["inputs"]["colon"], v["predicted"], v["clause"]),
                required_covers=["cover:wrapped_word", "cover:punct_only", "cover:quote_before_word"], budget_s=budget_s)


# ------------------------------------------------------------------------- phonetic method glue (C01, C02, C06)

PUNCT_KEYS = [ord(c) for c in ".?!,:;-_)}]'\""]


def mk_rank(prog, variant, text, num=None):
    d = prog.enums["Rank"][variant]
    return Agg("adt:Rank", d, [SString(text)] + ([] if variant == "First" else [num]))


def mk_phonetic_suggestion(prog, suggestions, cache=None, user_autocorrect=None, pbuffer=(), regex=(), st=None):
    return struct_of(prog, "PhoneticSuggestion", st=st, values={
        "suggestions": SVec(suggestions), "pbuffer": SString(pbuffer), "regex": SString(regex),
        "cache": cache if cache is not None else SMap("cache"), "phonetic": Opaque("Parser:phonetic"),
        "regex_parser": Opaque("Parser:regex"), "table": Opaque("table"),
        "user_autocorrect": user_autocorrect if user_autocorrect is not None else SMap("user_autocorrect")})


def mk_phonetic_method(prog, buffer, psug, selections, prev_selection, modified=0, st=None):
    return struct_of(prog, "PhoneticMethod", st=st, values={"buffer": SString(buffer), "suggestion": psug, "selections": selections,
                                                             "modified": Opaque("time", modified), "prev_selection": prev_selection})


def pm_field(prog, pm, name):
    return pm.fields[prog.structs["PhoneticMethod"].index(name)]


def ps_field(prog, ps, name):
    return ps.fields[prog.structs["PhoneticSuggestion"].index(name)]


class FileHandle(Opaque):
    """An open file / an OpenOptions builder in the environment model: only the flags that decide what a write does to the old content."""

    def __init__(self):
        Opaque.__init__(self, "File", ())
        self.flags = dict(write=False, create=False, truncate=False, append=False, create_new=False, read=False)

    def copy(self):
        return self


def file_write_models(ctx, decide):
    """OpenOptions / File::create / BufWriter / to_writer / write_all: each call may fail (decide(name) -> bool); every completed write is
    recorded in ctx['saves'] with whether it replaces the whole old content (fs::write, File::create, or opened with truncate)."""
    from mirsym.values import err, ok

    def oo_new(it, args, callee):
        return FileHandle()

    def oo_flag(it, args, callee):
        h = args[0].get() if isinstance(args[0], Ref) else args[0]
        name = callee.strip().split("::")[-1].split("<")[0]
        v = args[1]
        h.flags[name] = v if isinstance(v, bool) else True
        return args[0]

    def oo_open(it, args, callee):
        h = args[0].get() if isinstance(args[0], Ref) else args[0]
        if not decide("open"):
            return err(Opaque("io::Error"))
        f = FileHandle()
        f.flags = dict(h.flags)
        return ok(f)

    def file_create(it, args, callee):
        if not decide("open"):
            return err(Opaque("io::Error"))
        f = FileHandle()
        f.flags.update(write=True, create=True, truncate=True)
        return ok(f)

    def bufwriter(it, args, callee):
        return args[0]

    def handle_of(v):
        while isinstance(v, Ref):
            v = v.get()
        return v if isinstance(v, FileHandle) else None

    def record(v):
        h = handle_of(v)
        whole = bool(h is not None and h.flags.get("truncate") and not h.flags.get("append"))
        ctx.setdefault("saves", []).append(dict(whole=whole, flags=dict(h.flags) if h is not None else None))
        ctx["writes"] = ctx.get("writes", 0) + 1

    def to_writer(it, args, callee):
        if not decide("to_writer"):
            return err(Opaque("serde_json::Error"))
        record(args[0])
        return ok(UNIT)

    def write_all(it, args, callee):
        if not decide("write_all"):
            return err(Opaque("io::Error"))
        record(args[0])
        return ok(UNIT)

    def flush(it, args, callee):
        return ok(UNIT) if decide("flush") else err(Opaque("io::Error"))

    def rename(it, args, callee):
        return ok(UNIT) if decide("rename") else err(Opaque("io::Error"))

    def remove_file(it, args, callee):
        return ok(UNIT) if decide("remove_file") else err(Opaque("io::Error"))
    m = {"fs::remove_file": remove_file, "fs::remove_dir": remove_file, "fs::create_dir_all": remove_file, "fs::create_dir": remove_file,
         "OpenOptions::new": oo_new, "OpenOptions::open": oo_open, "File::create": file_create, "File::options": oo_new,
         "BufWriter::new": bufwriter, "BufWriter::with_capacity": lambda it, args, callee: args[1], "LineWriter::new": bufwriter,
         "serde_json::to_writer": to_writer, "serde_json::to_writer_pretty": to_writer, "to_writer": to_writer, "to_writer_pretty": to_writer, "Write::write_all": write_all, "Write::write": write_all,
         "Write::flush": flush, "File::sync_all": flush, "File::sync_data": flush, "fs::rename": rename, "File::set_len": flush,
         "BufWriter::into_inner": lambda it, args, callee: ok(args[0])}
    for f in ("write", "create", "truncate", "append", "create_new", "read"):
        m["OpenOptions::" + f] = oo_flag
    return m


def elems_of(x):
    """Code points of a candidate as the Suggestion carries it (a String) or as the assembly keeps it (a Rank)."""
    x = x.get() if isinstance(x, Ref) else x
    if hasattr(x, "elems"):
        return x.elems
    return x.fields[0].elems


def rank_text_elems(prog, r):
    return elems_of(r)


def glue_overrides(st, ctx, k_new):
    """Contract stand-ins for the candidate assembly and the environment."""
    def suggest(it, args, callee):
        prog = it.p
        ps = args[0].get()
        n = ctx["calls"] = ctx.get("calls", 0) + 1
        items = [mk_rank(prog, "Other", [st.sym_char("n%d_%d" % (n, i))], st.sym_bv("nd%d_%d" % (n, i), 8)) for i in range(k_new)]
        ps_field(prog, ps, "suggestions").items[:] = items
        sel = st.sym_bv("newsel%d" % n, 64)
        st.assume(z3.ULT(sel, k_new))
        ctx["last_list"] = items
        ctx["last_sel"] = sel
        from mirsym.values import deep_copy
        return Agg("tuple", None, [SVec([deep_copy(x) for x in items]), sel])

    def only_phonetic(it, args, callee):
        n = ctx["calls"] = ctx.get("calls", 0) + 1
        return SString([st.sym_char("lonely%d" % n)])

    def to_string(it, args, callee):
        from mirsym.values import ok
        return ok(SString([ord("{"), ord("}")]))

    def fs_write(it, args, callee):
        from mirsym.values import ok
        ctx["writes"] = ctx.get("writes", 0) + 1
        ctx.setdefault("saves", []).append(dict(whole=True, flags=None))
        return ok(UNIT)

    def path(it, args, callee):
        return Opaque("PathBuf", ())
    m = file_write_models(ctx, lambda name: True)
    m.update({"PhoneticSuggestion::suggest": suggest, "PhoneticSuggestion::suggest_only_phonetic": only_phonetic,
              "serde_json::to_string": to_string, "fs::write": fs_write,
              "Config::get_user_phonetic_selection_data": path, "Config::get_user_phonetic_autocorrect": path})
    return m


def make_phonetic_event(shape):
    """One event on the phonetic method. shape: n (typed length), m (length of the list shown before), k (length of the
    list the assembly returns now), event, sug (phonetic suggestions on/off)."""
    from fixedlib import mk_config
    n, m, k = shape["n"], shape["m"], shape.get("k", 1)
    ev = shape["event"]

    def build(st, it):
        prog = it.p
        ctx = dict(shape=shape)
        it.env["overrides"] = glue_overrides(st, ctx, k)
        buf = [st.sym_char("t%d" % i, 0x20, 0x7e) for i in range(n)]
        shown = [mk_rank(prog, "Other", [st.sym_char("o%d" % i)], st.sym_bv("od%d" % i, 8)) for i in range(m)]
        prev = st.sym_bv("prev_selection", 64)
        if m > 0:
            st.assume(z3.ULT(prev, m))     # the index returned with the list shown before
        cfg, opts = mk_config(prog, st, {"phonetic_suggestion": shape["sug"]})
        sel_map = SMap("selections", [])
        # the memo of earlier words: one entry under an arbitrary key (what a longer word's suffix joining will ask for) and any number of others
        memo_key = (st.sym_char("memo_key", 0x21, 0x7e),)
        memo_val = SVec([mk_rank(prog, "Other", [st.sym_char("memo_cand")], st.sym_bv("memo_dist", 8))])
        others = st.sym_bv("memo_other_entries", 64)
        st.assume(z3.ULT(others, 1 << 32))
        memo = SMap("cache", [[memo_key, memo_val]], extra=others)
        ctx.update(memo=memo, memo_key=memo_key, memo_val=memo_val, others=others)
        pm = mk_phonetic_method(prog, buf, mk_phonetic_suggestion(prog, shown, cache=memo), sel_map, prev)
        key = st.sym_bv("key", 16)
        mod = st.sym_bv("modifier", 8)
        sel = st.sym_bv("selection", 8)
        st.assume(z3.ULT(z3.ZeroExt(56, sel), max(m, 1)))   # caller passes an index valid for the list it was shown
        ctrl = st.sym_bool("ctrl")
        index = st.sym_bv("commit_index", 64)
        if ev == "commit":
            st.assume(z3.ULT(index, max(m, 1)))            # inside the most recently returned list
        ctx.update(buf=buf, pm=pm, opts=opts, key=key, mod=mod, sel=sel, ctrl=ctrl, index=index, prev=prev, shown=shown, sel_map=sel_map)
        st.ctx = ctx
        me = Ref([pm], 0, True)
        data = Ref([Opaque("Data")], 0)
        cr = Ref([cfg], 0)

        def run():
            if ev == "key":
                fn = prog.find_trait_fn("PhoneticMethod", "Method", "get_suggestion")
                ret = it.call_function(fn, [me, key, mod, sel, data, cr])
            elif ev == "backspace":
                fn = prog.find_trait_fn("PhoneticMethod", "Method", "backspace_event")
                ret = it.call_function(fn, [me, ctrl, data, cr])
            elif ev == "commit":
                fn = prog.find_trait_fn("PhoneticMethod", "Method", "candidate_committed")
                ret = it.call_function(fn, [me, index, cr])
            else:
                fn = prog.find_trait_fn("PhoneticMethod", "Method", "finish_input_session")
                ret = it.call_function(fn, [me])
            fo = prog.find_trait_fn("PhoneticMethod", "Method", "ongoing_input_session")
            return ret, it.call_function(fo, [Ref([pm], 0)])
        return run

    def on_path(st, it, out):
        prog = it.p
        c = st.ctx
        model = st.get_model()

        def inputs(mm):
            e = {"key": {"op": "key", "key": int(model_value(mm, c["key"])), "mod": int(model_value(mm, c["mod"])), "sel": int(model_value(mm, c["sel"]))},
                 "backspace": {"op": "backspace", "ctrl": bool(model_value(mm, c["ctrl"]))},
                 "commit": {"op": "commit", "index": int(model_value(mm, c["index"]))}, "finish": {"op": "finish"}}[ev]
            return dict(buffer=model_string(mm, c["buf"]), event=e, shown=m, returns=k, sug=shape["sug"],
                        prev_selection=int(model_value(mm, c["prev"])), memo_other_entries=int(model_value(mm, c["others"])),
                        shown_items=[[2, model_string(mm, x.fields[0].elems), int(model_value(mm, x.fields[1]))] for x in c["shown"]])

        def pred(mm):
            if out[0] == "panic":
                return dict(panic=out[1].message)
            ret, ong = out[1]
            d = dict(buffer=model_string(mm, pm_field(prog, c["pm"], "buffer").elems), ongoing=bool(model_value(mm, ong)))
            if isinstance(ret, Agg) and ret.kind == "adt:Suggestion":
                full = prog.enums["Suggestion"]["Full"]
                if ret.variant == full:
                    f = dict(zip(prog.enum_fields[("Suggestion", "Full")], ret.fields))
                    d["ret"] = dict(kind="full", len=len(f["suggestions"].items), sel=int(model_value(mm, f["selection"])),
                                    aux=model_string(mm, f["auxiliary"].elems))
                else:
                    d["ret"] = dict(kind="single")
            return d
        recs = [dict(kind="witness", inputs=inputs(model), predicted=pred(model))]
        if out[0] == "panic":
            recs.append(dict(kind="violation", clause="no_panic", inputs=inputs(model), predicted=pred(model)))
            return recs
        ret, ong = out[1]
        buf0 = c["buf"]
        buf1 = pm_field(prog, c["pm"], "buffer").elems
        clauses = []
        ongb = ong if isinstance(ong, bool) else None
        clauses.append(("flag_matches_state", ongb == (len(buf1) > 0)))
        if ev in ("commit", "finish"):
            clauses.append(("terminating_event_clears_composition", len(buf1) == 0))
        if ev == "backspace":
            ctrl = zb(c["ctrl"])
            if n == 0:
                clauses.append(("idle_backspace_starts_nothing", len(buf1) == 0))
            else:
                clauses.append(("backspace_progress", z3.If(ctrl, z3.BoolVal(len(buf1) == 0), seq_eq(buf1, buf0[:-1]))))
        if isinstance(ret, Agg) and ret.kind == "adt:Suggestion":
            full = prog.enums["Suggestion"]["Full"]
            if ret.variant == full:
                f = dict(zip(prog.enum_fields[("Suggestion", "Full")], ret.fields))
                L = len(f["suggestions"].items)
                clauses.append(("list_not_empty", L >= 1))
                s = f["selection"]
                clauses.append(("selection_inside_list", z3.ULT(bv(s, 64), L) if is_sym(s) else s < L))
                clauses.append(("auxiliary_is_the_typed_text", seq_eq(f["auxiliary"].elems, buf1)))
                clauses.append(("nonempty_return_means_ongoing", ongb is True or L == 0))
                clauses.append(("cover:list_returned", True))
                if ev == "key":
                    # typed text grows by exactly the key's character (the one the key's name denotes), or stays (key without a character)
                    grown = z3.BoolVal(len(buf1) in (n, n + 1))
                    if len(buf1) == n + 1:
                        from common import keyname_spec, published_keys
                        spec_ = keyname_spec()
                        rows_ = [(code, spec_[nm][0]) for nm, code in published_keys() if nm in spec_ and spec_[nm][0]]
                        grown = z3.And(seq_eq(buf1[:n], buf0), z3.And([z3.Implies(c["key"] == code, simp(bv(buf1[-1], 32) == cp)) for code, cp in rows_]))
                    elif len(buf1) == n:
                        grown = seq_eq(buf1, buf0)
                    clauses.append(("key_appends_one_char_or_nothing", grown))
            else:
                txt = ret.fields[prog.enum_fields[("Suggestion", "Single")].index("suggestion")].elems
                empty = len(txt) == 0
                if not empty:
                    clauses.append(("nonempty_return_means_ongoing", ongb is True))
                elif ev == "backspace":
                    clauses.append(("empty_return_ends_session", ongb is False))
        # the index the method remembers as "preselected" (what the next commit is compared with) is the one the assembly computed for
        # the list this event returned
        if ev in ("key", "backspace") and c.get("calls", 0) > 0 and shape["sug"] and "last_sel" in c:
            ps_now = pm_field(prog, c["pm"], "prev_selection")
            clauses.append(("recorded_preselection_is_the_assemblys_answer", simp(bv(ps_now, 64) == bv(c["last_sel"], 64))))
        # what is shown is the assembly's answer for the text as it now stands - the list itself and its preselection (a punctuation key may
        # instead hand back the caller's byte: the method's documented "preserve the user's selection"). When the assembly was not asked
        # again, the text must not have changed and list and preselection must be the ones recorded with it.
        if ev in ("key", "backspace") and shape["sug"] and isinstance(ret, Agg) and ret.kind == "adt:Suggestion" and ret.variant == prog.enums["Suggestion"]["Full"]:
            f = dict(zip(prog.enum_fields[("Suggestion", "Full")], ret.fields))
            got = f["suggestions"].items
            s_ret = bv(f["selection"], 64)
            if "last_sel" in c:
                want, want_sel = c["last_list"], bv(c["last_sel"], 64)
            else:
                want, want_sel = c["shown"], bv(c["prev"], 64)
            same_list = len(got) == len(want) and all(seq_eq(elems_of(a), rank_text_elems(prog, b)) is not False for a, b in zip(got, want))
            lst = z3.And([seq_eq(elems_of(a), rank_text_elems(prog, b)) for a, b in zip(got, want)]) if same_list and got else z3.BoolVal(bool(same_list))
            echo = z3.BoolVal(False)
            if ev == "key" and len(buf1) == n + 1:
                echo = z3.And(z3.Or([simp(bv(buf1[-1], 32) == pc) for pc in PUNCT_KEYS]), simp(s_ret == z3.ZeroExt(56, bv(c["sel"], 8))))
            unchanged = True if "last_sel" in c else (n > 0 and len(buf1) == n and seq_eq(buf1, buf0))
            clauses.append(("shown_list_and_preselection_are_the_assemblys_answer",
                            z3.And(lst, z3.Or(simp(s_ret == want_sel), echo), unchanged if not isinstance(unchanged, bool) else z3.BoolVal(unchanged))))
        # the memo is a pure cache the suffix joining of longer words reads without recomputing: no event of a word drops an entry
        kept = [e for e in c["memo"].entries if e[0] is c["memo_key"] and e[1] is c["memo_val"]]
        clauses.append(("memo_entries_survive_the_event", len(kept) == 1 and len(c["memo_val"].items) == 1))
        # commit writes only when a different candidate was chosen
        if ev == "commit":
            changed = c.get("writes", 0) > 0 or len(c["sel_map"].entries) > 0
            same = simp(bv(c["index"], 64) == bv(c["prev"], 64))
            clauses.append(("committing_the_preselected_candidate_changes_nothing", z3.Implies(same, z3.BoolVal(not changed))))
            if not shape["sug"]:
                # with the list switched off there is one candidate and nothing to learn: whatever the method still remembers of an earlier list
                clauses.append(("commit_without_a_list_changes_nothing", not changed))
        return recs + eval_clauses(st, clauses, lambda cn, mm: dict(kind="violation", clause=cn, inputs=inputs(mm), predicted=pred(mm)))
    return build, on_path


def phonetic_event_scenario(inp):
    """Native run from the planted typed text; the real assembly runs, so only what does not depend on the candidate
    content is compared (typed text, flag, panic, list non-empty)."""
    cfg = {"layout": "avro_phonetic", "database": REPO + "/data", "opts": {"phonetic_suggestion": inp["sug"]}}
    state = {"buffer": inp["buffer"], "prev_selection": min(inp.get("prev_selection", 0), 1 << 31), "suggestions": inp.get("shown_items", [])}
    return {"steps": [{"op": "new", "config": cfg}, {"op": "set_state", "state": state}, inp["event"], {"op": "get_state"}]}


def phonetic_event_compare(w, res):
    rr = res["results"]
    ev = rr[2]
    p = w["predicted"]
    if p.get("panic") is not None:
        # panics of the glue do not depend on candidate content only when the index/selection is in range natively too
        return None
    if "panic" in ev:
        return "native run panics: %s" % ev["panic"]
    st = rr[3]["state"]
    if st["buffer"] != p["buffer"]:
        return "typed text: native %r symbolic %r" % (st["buffer"], p["buffer"])
    if ev.get("ongoing") != p["ongoing"]:
        return "flag: native %r symbolic %r" % (ev.get("ongoing"), p["ongoing"])
    if p.get("ret") and "suggestion" in ev and ev["suggestion"]["kind"] != p["ret"]["kind"]:
        return "suggestion kind native %s symbolic %s" % (ev["suggestion"]["kind"], p["ret"]["kind"])
    return None


def selection_search(v):
    """Confirm an out-of-range preselection natively: type short words, pass the highest valid selection with a
    punctuation key, look for a returned index >= list length (only in-contract calls)."""
    words = ["a", "k", "ami", "e", "o", "i", "t", "amar", "ki"]
    scs = []
    cfg = {"layout": "avro_phonetic", "database": REPO + "/data", "opts": {"phonetic_suggestion": True}}
    from common import published_keys
    codes = {n: c for n, c in published_keys()}
    chars = {}
    from common import keyname_spec
    for name, (cp, stem, kind) in keyname_spec().items():
        if cp and kind == "key" and name in codes:
            chars[chr(cp)] = codes[name]
    # first pass: list lengths
    first = []
    for w in words:
        steps = [{"op": "new", "config": cfg}] + [{"op": "key", "key": chars[ch], "sel": 0} for ch in w]
        first.append({"steps": steps})
    res = run_replay(first)
    for w, r in zip(words, res):
        last = r["results"][-1]
        if "suggestion" not in last or last["suggestion"]["kind"] != "full":
            continue
        mlen = last["suggestion"]["len"]
        for pc in PUNCT_KEYS:
            steps = [{"op": "new", "config": cfg}] + [{"op": "key", "key": chars[ch], "sel": 0} for ch in w]
            steps.append({"op": "key", "key": chars[chr(pc)], "sel": mlen - 1})
            scs.append(({"steps": steps}, w, chr(pc), mlen))
    out = run_replay_parallel([s for s, _, _, _ in scs])
    for (sc, w, pc, mlen), r in zip(scs, out):
        last = r["results"][-1]
        if "panic" in last:
            return sc, last, "typing %r (list of %d), then %r with selection %d panics: %s" % (w, mlen, pc, mlen - 1, last["panic"])
        s = last.get("suggestion", {})
        if s.get("kind") == "full" and s["sel"] >= s["len"]:
            return sc, last, "typing %r shows %d candidates; %r pressed with selection %d returns %d candidates with previously-selected index %d" % (
                w, mlen, pc, mlen - 1, s["len"], s["sel"])
    return None


def selection_search_other(v):
    """Out-of-range preselection after an ordinary key: learn a non-default candidate for a word, then type the word with a suffix
    (the carried-over choice can sit far down a long list); also plain typing of words with long lists. In-contract calls only."""
    import obl_assembly
    keys = obl_assembly.char_keys()
    cfg = {"layout": "avro_phonetic", "database": REPO + "/data", "opts": {"phonetic_suggestion": True}}
    words = ["gan", "ami", "kotha", "desh", "boi", "a", "k"]
    first = [{"steps": [{"op": "new", "config": cfg}] + [{"op": "key", "key": keys[ch], "sel": 0} for ch in w]} for w in words]
    res = run_replay(first)
    scs = []
    for w, r in zip(words, res):
        last = r["results"][-1]
        if "panic" in last:
            return first[words.index(w)], last, "typing %r panics: %s" % (w, last["panic"])
        sug = last.get("suggestion", {})
        if sug.get("kind") != "full":
            continue
        if sug["sel"] >= sug["len"]:
            return first[words.index(w)], last, "typing %r returns %d candidates with previously-selected index %d" % (w, sug["len"], sug["sel"])
        for i in range(sug["len"]):
            for sfx in ("o", "e", "er", "ta", "gulo"):
                steps = [{"op": "new", "config": cfg}] + [{"op": "key", "key": keys[ch], "sel": 0} for ch in w] + [{"op": "commit", "index": i}]
                steps += [{"op": "key", "key": keys[ch], "sel": 0} for ch in w + sfx]
                scs.append(({"steps": steps}, w, i, sfx))
    out = run_replay_parallel([s for s, _, _, _ in scs])
    for (sc, w, i, sfx), r in zip(scs, out):
        for x in r["results"]:
            if "panic" in x:
                return sc, x, "typing %r, committing candidate %d, typing %r panics: %s" % (w, i, w + sfx, x["panic"])
            sug = x.get("suggestion", {})
            if sug.get("kind") == "full" and sug["sel"] >= sug["len"]:
                return sc, x, "typing %r, committing candidate %d, then typing %r returns %d candidates with previously-selected index %d" % (
                    w, i, w + sfx, sug["len"], sug["sel"])
    return None


def session_search_phonetic(v):
    """Re-find a session-state violation of the phonetic method natively: short typed texts (words, emoticons, lone punctuation), each
    terminating event, every commit index; then the flag, the typed text left behind and one continuation key are compared with a new context."""
    import obl_assembly
    keys = obl_assembly.char_keys()
    texts = ["a", "ami", ";)", ":)", ".", "a.", "(a)", "xD", "\"", "k"]
    scs = []
    meta = []
    for en in (False, True):
        cfg = {"layout": "avro_phonetic", "database": REPO + "/data", "opts": {"phonetic_suggestion": True, "english": en}}
        first = [{"steps": [{"op": "new", "config": cfg}] + [{"op": "key", "key": keys[ch], "sel": 0} for ch in t]} for t in texts]
        res = run_replay(first)
        for t, r in zip(texts, res):
            sug = r["results"][-1].get("suggestion", {})
            n = sug.get("len", 1) if sug.get("kind") == "full" else 1
            events = [{"op": "commit", "index": i} for i in range(n)] + [{"op": "finish"}, {"op": "backspace", "ctrl": True}]
            for ev in events:
                # what comes next: a letter, or a key that has no character (keypad Enter) - on the idle context it must do what it does on a new one
                for nxt in (keys["k"], 0x0E1C):
                    steps = [{"op": "new", "ctx": 0, "config": cfg}] + [{"op": "key", "ctx": 0, "key": keys[ch], "sel": 0} for ch in t]
                    steps += [dict(ev, ctx=0), {"op": "get_state", "ctx": 0}, {"op": "key", "ctx": 0, "key": nxt, "sel": 0},
                              {"op": "new", "ctx": 1, "config": cfg}, {"op": "key", "ctx": 1, "key": nxt, "sel": 0}]
                    scs.append({"steps": steps})
                    meta.append((t, en, ev))
    out = run_replay_parallel(scs)
    for (t, en, ev), sc, r in zip(meta, scs, out):
        rr = r["results"]
        e, st, cont, fresh = rr[-5], rr[-4], rr[-3], rr[-1]
        if "panic" in e or "panic" in cont:
            return sc, [e, cont], "typed %r then %s: %s" % (t, json.dumps(ev), e.get("panic") or cont.get("panic"))
        if e.get("ongoing") or st.get("state", {}).get("buffer") != "":
            return sc, [e, st], "typed %r (English %s) then %s: the session flag is %s and the typed text left is %r" % (
                t, en, json.dumps(ev), e.get("ongoing"), st.get("state", {}).get("buffer"))
        if cont.get("suggestion") != fresh.get("suggestion"):
            return sc, [cont, fresh], "typed %r (English %s) then %s: the next key gives %s, a new context gives %s" % (
                t, en, json.dumps(ev), json.dumps(cont.get("suggestion"), ensure_ascii=False)[:200], json.dumps(fresh.get("suggestion"), ensure_ascii=False)[:200])
    return None


def obl_phonetic_glue(check, max_n, budget_s=None):
    shapes = []
    for ev in ("key", "backspace", "commit", "finish"):
        for n in range(0, max_n + 1):
            for sug in (True, False):
                for m in ((0, 1, 3) if n == 0 else (1, 3)):      # an idle method still holds the list of the last word
                    for k in ((1, 2, 3, 10) if ev in ("key", "backspace") and sug else (1,)):
                        if ev == "commit" and n == 0:
                            continue     # no list was returned: nothing to commit in contract
                        shapes.append(dict(event=ev, n=n, m=m, k=k, sug=sug))
    check.bounds["phonetic_glue"] = dict(typed_chars="0..%d printable ASCII" % max_n, key="all 2^16 codes", modifier="2^8", selection_byte="valid for the list shown before",
                                         list_shown_before="1 or 3 candidates", list_returned_now="1, 2, 3 or 10 candidates, preselection < length (assembly contract)",
                                         events="key, backspace (ctrl symbolic), commit (index inside the shown list), finish")
    records, errors, summ = msym.run_shapes(check, "phonetic_glue", shapes, make_phonetic_event, budget_s=budget_s)
    wit = [r for r in records if r["kind"] == "witness"]
    vio = [r for r in records if r["kind"] == "violation" and (getattr(check, "only_clauses", None) is None or r["clause"] in check.only_clauses)]
    covers = set(r["name"] for r in records if r["kind"] == "cover")
    okc, bad = validate_witnesses(check, "phonetic_glue", wit, to_scenario=phonetic_event_scenario, compare=phonetic_event_compare, cap=1500)
    detail = "%d paths, %d witnesses replayed natively (%d agree on typed text/flag/kind)" % (summ["paths"], min(len(wit), 1500), okc)
    name = "phonetic_glue"
    if errors:
        check.obligation(name, "mirsym", "inconclusive", "executor gave up: " + "; ".join(sorted(set(errors))[:3]))
        return
    if bad:
        check.obligation(name, "mirsym", "inconclusive", "executor model disagrees with the native build on %d witnesses, e.g. %s | %s" % (
            len(bad), bad[0][1], json.dumps(bad[0][0]["inputs"], ensure_ascii=False)[:300]))
        return
    if "cover:list_returned" not in covers:
        check.obligation(name, "mirsym", "inconclusive", "vacuity: no path returned a list")
        return
    if not vio:
        check.obligation(name, "mirsym", "held", detail + "; every property query unsat")
        return
    groups = {}
    from common import keyname_spec, published_keys
    spec = keyname_spec()
    punct_codes = set(c for n, c in published_keys() if spec.get(n, (0,))[0] in PUNCT_KEYS)
    for v in vio:
        role = "phonetic glue: %s after %s" % (v["clause"], v["inputs"]["event"]["op"])
        if v["clause"] == "selection_inside_list" and v["inputs"]["event"]["op"] == "key":
            role += " (punctuation key keeps the caller's selection)" if v["inputs"]["event"]["key"] in punct_codes else " (other key)"
        groups.setdefault(role, []).append(v)
    status = "held"
    worst = {"held": 0, "known": 1, "inconclusive": 2, "violated": 3}
    for key, vs in sorted(groups.items()):
        found = None
        if "selection_inside_list" in key and "punctuation key" in key:
            found = selection_search(vs[0])
        elif "selection_inside_list" in key or "list_not_empty" in key:
            found = selection_search_other(vs[0])
        elif vs[0]["clause"] == "recorded_preselection_is_the_assemblys_answer":
            found = stale_preselection_search()
        elif vs[0]["clause"] == "shown_list_and_preselection_are_the_assemblys_answer":
            found = shown_answer_search()
        elif vs[0]["clause"] in ("key_appends_one_char_or_nothing", "auxiliary_is_the_typed_text"):
            found = typed_text_search()
        elif vs[0]["clause"] == "commit_without_a_list_changes_nothing":
            found = listless_commit_search()
        elif vs[0]["clause"] == "memo_entries_survive_the_event":
            found = memo_eviction_search()
        elif vs[0]["clause"] in ("flag_matches_state", "terminating_event_clears_composition", "idle_backspace_starts_nothing", "backspace_progress",
                                 "nonempty_return_means_ongoing", "empty_return_ends_session"):
            found = session_search_phonetic(vs[0])
        if found is None:
            # generic: replay from the planted typed text
            for v in vs[:6]:
                sc = phonetic_event_scenario(v["inputs"])
                res = run_replay([sc])[0]
                ev = res["results"][2]
                if v["predicted"].get("panic") is not None and "panic" in ev and v["inputs"]["event"]["op"] != "commit":
                    found = (sc, ev, "phonetic %s on typed text %r panics: %s" % (json.dumps(v["inputs"]["event"]), v["inputs"]["buffer"], ev["panic"]))
                    break
        if found is None:
            st = "inconclusive"
            check.obligation(name + ":" + key, "mirsym", "inconclusive", "counterexample under the assembly contract was not re-found natively: %s" % json.dumps(vs[0]["inputs"])[:300])
        else:
            sc, obs, what = found
            check.stats["traces_validated"] += 1
            st = check.finding(key, what, dict(scenario=sc, observed=obs, solver_counterexample=vs[0]["inputs"]))
            check.sample(dict(obligation=name, counterexample=vs[0]["inputs"], role=key))
        if worst[st] > worst[status]:
            status = st
    check.obligation(name, "mirsym", status, detail + "; %d counterexample models" % len(vio))


def typed_text_search():
    """Native: the auxiliary text of every list returned while typing is the text as typed, character for character (every printable key
    alone, and words with capitals), also after a backspace; with the English option the last candidate is that text too."""
    import obl_assembly
    keys = obl_assembly.char_keys()
    texts = [ch for ch in keys if ch.isprintable()] + ["Ami", "KolM", "aBc", "AMI", "kHaB", "ami", "a.B", "(Ami)"]
    scs, meta = [], []
    for en in (False, True):
        cfg = {"layout": "avro_phonetic", "database": REPO + "/data", "opts": {"phonetic_suggestion": True, "english": en}}
        for t in texts:
            if not all(ch in keys for ch in t):
                continue
            steps = [{"op": "new", "config": cfg}] + [{"op": "key", "key": keys[ch], "sel": 0} for ch in t]
            if len(t) > 1:
                steps += [{"op": "backspace"}]
            scs.append({"steps": steps})
            meta.append((t, en))
    for (t, en), sc, r in zip(meta, scs, run_replay_parallel(scs)):
        rr = r["results"]
        if any("panic" in x for x in rr):
            continue
        for i, x in enumerate(rr[1:]):
            want = t[:i + 1] if i < len(t) else t[:-1]
            sug = x.get("suggestion", {})
            if sug.get("kind") == "full" and sug.get("aux") != want:
                return sc, x, "typed %r (English option %s): after %d events the auxiliary text is %r, the text typed so far is %r" % (t, en, i + 1, sug.get("aux"), want)
            if en and sug.get("kind") == "full" and want.isascii() and any(ch.isalpha() for ch in want) and want not in (sug.get("list") or []) and i < len(t):
                return sc, x, "typed %r with the English option on: the typed text %r is not among the candidates %s" % (t, want, sug.get("list"))
    return None


def listless_commit_search():
    """Native: a choice is learned, the word typed again and the (now preselected) learned candidate committed; the list is switched off by
    update_engine while idle; the word is typed and its single candidate committed: the store must not change, and with the list on again
    the learned candidate is still preselected."""
    import obl_assembly
    keys = obl_assembly.char_keys()
    store = "phonetic-candidate-selection.json"

    def cfg(on):
        return {"layout": "avro_phonetic", "database": REPO + "/data", "opts": {"phonetic_suggestion": on}}

    def typ(t):
        return [{"op": "key", "key": keys[ch], "sel": 0} for ch in t]
    scs, meta = [], []
    for w in ("sesh", "amar", "kotha"):
        for learn in (1, 2):
            steps = [{"op": "new", "config": cfg(True)}] + typ(w) + [{"op": "commit", "index": learn}] + typ(w) + [{"op": "commit", "index": learn}]
            steps += [{"op": "read_user_file", "name": store}, {"op": "update", "config": cfg(False)}] + typ(w) + [{"op": "commit", "index": 0}]
            steps += [{"op": "read_user_file", "name": store}, {"op": "update", "config": cfg(True)}] + typ(w) + [{"op": "get_state"}]
            scs.append({"steps": steps})
            meta.append((w, learn))
    for (w, learn), sc, r in zip(meta, scs, run_replay_parallel(scs)):
        rr = r["results"]
        if any("panic" in x for x in rr):
            continue
        reads = [x for x in rr if x.get("op") == "read_user_file"]
        shown = rr[len(w)].get("suggestion", {})
        if learn >= len(shown.get("list", [])):
            continue
        before, after = reads[0].get("content"), reads[1].get("content")
        last = rr[-2].get("suggestion", {})
        sel = rr[-1].get("state", {}).get("prev_selection")
        want = shown["list"][learn]
        got = last.get("list", [None])[sel] if sel is not None and sel < len(last.get("list", [])) else None
        if before != after or got != want:
            return sc, rr[-2:], ("%r: candidate %d (%r) learned and committed again as the preselected one; list switched off by update_engine (idle), %r typed and its only "
                                 "candidate committed: the store goes from %s to %s; with the list on again %r is preselected" % (w, learn, want, w, before, after, got))
    return None


def shown_answer_search():
    """Native: the list and the preselection shown after an edit history (punctuation typed with some selection byte and erased again, a
    letter typed and erased, a key without a character, the same word once more after a commit / finish) against a new context that
    types the surviving text directly (same user files)."""
    import obl_assembly
    keys = obl_assembly.char_keys()
    cfg = {"layout": "avro_phonetic", "database": REPO + "/data", "opts": {"phonetic_suggestion": True}}
    store = "phonetic-candidate-selection.json"

    def typ(t, ctx=0, sel=0):
        return [{"op": "key", "ctx": ctx, "key": keys[ch], "sel": sel} for ch in t]
    scs, meta = [], []
    for w in ("sesh", "amar", "a", "boi", "k"):
        hists = []
        for pc in (",", ".", "!", ";", ")", "'"):
            for sb in (0, 1, 2):
                hists.append(("%r, then %r pressed with selection byte %d, then BackSpace" % (w, pc, sb), typ(w) + typ(pc, sel=sb) + [{"op": "backspace", "ctx": 0}], {}))
        hists.append(("%r, one more letter, BackSpace" % w, typ(w) + typ("s") + [{"op": "backspace", "ctx": 0}], {}))
        hists.append(("%r, then a key without a character (keypad Enter)" % w, typ(w) + [{"op": "key", "ctx": 0, "key": 0x0E1C, "sel": 0}], {}))
        if len(w) > 1:
            hists.append(("%r, a key without a character (keypad Enter), BackSpace" % w, typ(w) + [{"op": "key", "ctx": 0, "key": 0x0E1C, "sel": 0}, {"op": "backspace", "ctx": 0}], {"target": w[:-1]}))
            hists.append(("%r, a key without a character twice, two BackSpaces, the erased letters typed again" % w,
                          typ(w) + [{"op": "key", "ctx": 0, "key": 0x0E1C, "sel": 0}] * 2 + [{"op": "backspace", "ctx": 0}] * 2 + typ(w[-2:]) if len(w) > 2 else typ(w), {}))
        for learn in (1, 2):
            hists.append(("%r typed, candidate %d committed, %r typed again at once" % (w, learn, w), typ(w) + [{"op": "commit", "ctx": 0, "index": learn}] + typ(w), {"after_commit": True}))
            hists.append(("%r typed, candidate %d committed, another word typed and finished, %r typed again" % (w, learn, w),
                          typ(w) + [{"op": "commit", "ctx": 0, "index": learn}] + typ("ki") + [{"op": "finish", "ctx": 0}] + typ(w), {"after_commit": True}))
        hists.append(("%r typed and finished, %r typed again" % (w, w), typ(w) + [{"op": "finish", "ctx": 0}] + typ(w), {}))
        for flip in ({"english": True}, {"ansi": True}, {"smart_quote": False}):
            c2 = dict(cfg, opts=dict(cfg["opts"], **flip))
            hists.append(("%r typed and finished, options changed to %s by update_engine, %r typed again" % (w, json.dumps(flip), w),
                          typ(w) + [{"op": "finish", "ctx": 0}, {"op": "update", "ctx": 0, "config": c2}] + typ(w), {"cfg2": c2}))
            hists.append(("%r typed and committed (preselected candidate), options changed to %s by update_engine, %r typed again" % (w, json.dumps(flip), w),
                          typ(w) + [{"op": "commit", "ctx": 0, "index": 0}, {"op": "update", "ctx": 0, "config": c2}] + typ(w), {"cfg2": c2}))
        for name, h, fl in hists:
            steps = [{"op": "new", "ctx": 0, "config": cfg}] + h
            a = len(steps) - 1
            steps += [{"op": "new", "ctx": 1, "config": fl.get("cfg2", cfg)}] + typ(fl.get("target", w), ctx=1)
            scs.append({"steps": steps})
            meta.append((name, fl.get("target", w), a))
    for (name, w, a), sc, r in zip(meta, scs, run_replay_parallel(scs)):
        rr = r["results"]
        if any("panic" in x for x in rr):
            continue      # a commit index outside a short list: not in contract
        x, y = rr[a].get("suggestion", {}), rr[-1].get("suggestion", {})
        if (x.get("list"), x.get("sel")) != (y.get("list"), y.get("sel")):
            return sc, [rr[a], rr[-1]], ("%s: the context shows %s with candidate %s preselected; a new context (same user files) typing %r shows %s with candidate %s preselected" % (
                name, x.get("list", [])[:4], x.get("sel"), w, y.get("list", [])[:4], y.get("sel")))
    return None


def stale_preselection_search():
    """Native: a learned word is typed again (its learned candidate preselected), then the list changes by a backspace or by a key without a
    character; committing the candidate now preselected must change nothing, committing another one must be learned."""
    import obl_assembly
    keys = obl_assembly.char_keys()
    cfg = {"layout": "avro_phonetic", "database": REPO + "/data", "opts": {"phonetic_suggestion": True}}
    store = "phonetic-candidate-selection.json"

    def typ(t):
        return [{"op": "key", "key": keys[ch], "sel": 0} for ch in t]
    scs, meta = [], []
    for w in ("sesh", "amar", "kotha", "boi"):
        for learn in (1, 2):
            head = [{"op": "new", "config": cfg}] + typ(w) + [{"op": "commit", "index": learn}] + typ(w) + [{"op": "backspace"}]
            for pick in (0, 1, 2):
                steps = head + [{"op": "read_user_file", "name": store}, {"op": "commit", "index": pick}, {"op": "read_user_file", "name": store}] + typ(w[:-1]) + [{"op": "get_state"}]
                scs.append({"steps": steps})
                meta.append((w, learn, pick, len(head)))
    for (w, learn, pick, h), sc, r in zip(meta, scs, run_replay_parallel(scs)):
        rr = r["results"]
        p = [x for x in rr if "panic" in x]
        if p:
            continue        # an index outside a short list: not in contract
        shown = rr[h - 1].get("suggestion", {})
        lst, sel = shown.get("list", []), shown.get("sel", 0)
        if pick >= len(lst):
            continue
        before, after = rr[h].get("content"), rr[h + 2].get("content")
        again = rr[-2].get("suggestion", {})
        st = rr[-1].get("state", {})
        if pick == sel and before != after:
            return sc, rr[h - 1:h + 3], ("%r learned (candidate %d), typed again and one character erased: %r is shown with candidate %d preselected; committing that preselected "
                                        "candidate rewrites the store from %s to %s" % (w, learn, w[:-1], sel, before, after))
        if pick != sel:
            l2, s2 = again.get("list", []), st.get("prev_selection", 0)
            if s2 >= len(l2) or l2[s2] != lst[pick]:
                return sc, [rr[h - 1], again, rr[h + 2]], ("%r learned (candidate %d), typed again and one character erased: %r is shown with candidate %d preselected; candidate %d (%r) is "
                                                          "committed instead, but typing %r again preselects %r (store: %s)" % (
                                                              w, learn, w[:-1], sel, pick, lst[pick], w[:-1], l2[s2] if s2 < len(l2) else None, after))
    return None


def memo_eviction_search():
    """Native: one context composes several hundred different suffixed words one after the other (each inside a bracket or quote, each
    adding entries to the memo at every key); every one of them must get the list a newly created context gives for the same keys.
    Six runs start at different places of the word list, so that whatever happens at a certain memo size happens in the middle of
    different words."""
    import obl_assembly
    keys = obl_assembly.char_keys()
    cfg = {"layout": "avro_phonetic", "database": REPO + "/data", "opts": {"phonetic_suggestion": True}}
    cons = "bcdghjklmnprstz"
    bases = [c + v for v in "aiueo" for c in cons] + [c + v + d for v in "aoi" for c in cons for d in "lmnr"]
    probes = [("(" if i % 2 == 0 else "\"") + b + ("gulo" if i % 3 else "der") for i, b in enumerate(bases)]
    fresh = [{"steps": [{"op": "new", "config": cfg}] + [{"op": "key", "key": keys[ch], "sel": 0} for ch in t]} for t in probes]
    warms, orders = [], []
    for shift in range(6):
        k = (shift * 41) % len(probes)
        order = list(range(k, len(probes))) + list(range(k))
        steps = [{"op": "new", "ctx": 0, "config": cfg}]
        marks = []
        for i in order:
            steps += [{"op": "key", "ctx": 0, "key": keys[ch], "sel": 0} for ch in probes[i]]
            marks.append(len(steps) - 1)
            steps.append({"op": "finish", "ctx": 0})
        warms.append({"steps": steps})
        orders.append((order, marks))
    res = run_replay_parallel(fresh + warms)
    ref = [r["results"][-1].get("suggestion", {}).get("list") for r in res[:len(fresh)]]
    for (order, marks), sc, r in zip(orders, warms, res[len(fresh):]):
        w = r["results"]
        for n, (i, mk) in enumerate(zip(order, marks)):
            a = w[mk]
            if "panic" in a:
                return {"steps": sc["steps"][:mk + 1]}, a, "composing %r as word %d of one context panics: %s" % (probes[i], n + 1, a["panic"])
            la = a.get("suggestion", {}).get("list")
            if la != ref[i]:
                return ({"steps": sc["steps"][:mk + 1]}, a,
                        "a context that has composed %d other words answers %r with %s; a newly created context answers the same keys with %s" % (n, probes[i], la, ref[i]))
    return None


# ------------------------------------------------------------------------- C10: user files in any state

def io_overrides(st, ctx):
    """Operating system and serde_json as nondeterministic oracles: every call may fail."""
    from mirsym.values import err, ok

    def decide(name):
        n = ctx["io_n"] = ctx.get("io_n", 0) + 1
        b = z3.Bool("io%d_%s_ok" % (n, name))
        good = st.choose([b, z3.Not(b)]) == 0
        ctx.setdefault("io_log", []).append((name, good))
        return good

    def fs_read(it, args, callee):
        if not decide("fs_read"):
            return err(Opaque("io::Error"))
        # file content: 0..4 arbitrary bytes (every short prefix an interrupted save can leave) or longer (opaque beyond the bound)
        n = ctx["io_n"]
        ln = z3.BitVec("file%d_len" % n, 8)
        k = st.choose([ln == 0, ln == 1, ln == 2, ln == 3, ln == 4, z3.UGT(ln, 4)])
        ctx.setdefault("file_lens", []).append(k)
        size = k if k < 5 else 8
        return ok(SVec([st.sym_bv("file%d_b%d" % (n, j), 8) for j in range(size)]))

    def from_slice(it, args, callee):
        if decide("from_slice"):
            m = SMap("loaded%d" % ctx["io_n"], [])
            ctx.setdefault("loaded", []).append(m)
            return ok(m)
        return err(Opaque("serde_json::Error"))

    def file_open(it, args, callee):
        return ok(Opaque("File")) if decide("file_open") else err(Opaque("io::Error"))

    def metadata(it, args, callee):
        return ok(Opaque("Metadata")) if decide("metadata") else err(Opaque("io::Error"))

    def modified(it, args, callee):
        if decide("modified"):
            n = ctx["io_n"]
            t = st.sym_bv("mtime%d" % n, 64)
            ctx.setdefault("mtimes", []).append((len(ctx.get("io_log", [])), t))
            return ok(Opaque("time", t))
        return err(Opaque("io::Error"))

    def meta_len(it, args, callee):
        return st.sym_bv("flen%d" % ctx.get("io_n", 0), 64)

    def read_to_end(it, args, callee):
        return ok(0) if decide("read_to_end") else err(Opaque("io::Error"))

    def to_string(it, args, callee):
        return ok(SString([ord("{"), ord("}")])) if decide("to_string") else err(Opaque("serde_json::Error"))

    def fs_write(it, args, callee):
        ctx["writes"] = ctx.get("writes", 0) + 1
        if decide("fs_write"):
            ctx.setdefault("saves", []).append(dict(whole=True, flags=None))
            return ok(UNIT)
        return err(Opaque("io::Error"))

    def path(it, args, callee):
        return Opaque("PathBuf", ())

    def exists(it, args, callee):
        return decide("path_exists")

    def parser(it, args, callee):
        return Opaque("Parser")

    def vec_u8(it, args, callee):
        return SVec([])

    def ps_new(it, args, callee):
        return mk_phonetic_suggestion(it.p, [], user_autocorrect=args[0])
    fw = file_write_models(ctx, decide)
    return dict(fw, **{"PhoneticSuggestion::new": ps_new, "fs::read": fs_read, "from_slice": from_slice, "File::open": file_open, "File::metadata": metadata,
            "Metadata::modified": modified, "fs::metadata": metadata, "Path::exists": exists, "Path::is_file": exists, "PathBuf::exists": exists, "Metadata::len": meta_len, "Read::read_to_end": read_to_end,
            "serde_json::to_string": to_string, "fs::write": fs_write, "Config::get_user_phonetic_selection_data": path,
            "Config::get_user_phonetic_autocorrect": path, "Parser::new_phonetic": parser, "Parser::new_regex": parser})


def make_userfile(shape):
    from fixedlib import mk_config
    ev = shape["event"]

    def build(st, it):
        prog = it.p
        ctx = dict(shape=shape)
        ov = io_overrides(st, ctx)
        it.env["overrides"] = ov
        # the constructor runs under every option combination (a context may be created with suggestions off and re-configured later)
        cfg, opts = mk_config(prog, st, {} if ev == "new" else {"phonetic_suggestion": True})
        ctx["opts"] = opts
        st.ctx = ctx
        cr = Ref([cfg], 0)

        def run():
            if ev == "new":
                fn = prog.find_fn("PhoneticMethod", "new")
                pm = it.call_function(fn, [cr])
                ctx["pm"] = pm
                return pm
            # a method object in an arbitrary state
            shown = [mk_rank(prog, "Other", [st.sym_char("o%d" % i)], st.sym_bv("od%d" % i, 8)) for i in range(2)]
            prev = st.sym_bv("prev_selection", 64)
            st.assume(z3.ULT(prev, 2))
            # learned earlier: a choice for the word now being composed and one for another word
            sel_map = SMap("selections", [[(0x61,), SString([0x0995])], [(0x62, 0x63), SString([0x0996])]])
            ctx["old_mtime"] = st.sym_bv("old_mtime", 64)
            pm = mk_phonetic_method(prog, [0x61], mk_phonetic_suggestion(prog, shown, cache=SMap("cache", [[(0x61,), SVec([mk_rank(prog, "Other", [0x0995], 10)])]])),
                                    sel_map, prev, modified=ctx["old_mtime"])
            ctx["pm"] = pm
            ctx["sel_map"] = sel_map
            ctx["before"] = [(k, tuple(v.elems)) for k, v in sel_map.entries]
            me = Ref([pm], 0, True)
            if ev == "update":
                fn = prog.find_trait_fn("PhoneticMethod", "Method", "update_engine")
                return it.call_function(fn, [me, cr])
            if ev == "update2":
                # two re-loads in a row, the environment free at each (a file that could not be read at the first may be readable at the second,
                # with whatever modification time)
                fn = prog.find_trait_fn("PhoneticMethod", "Method", "update_engine")
                it.call_function(fn, [me, cr])
                ctx["io_mark"] = len(ctx.get("io_log", []))
                ctx["loaded_mark"] = len(ctx.get("loaded", []))
                return it.call_function(fn, [me, cr])
            idx = st.sym_bv("commit_index", 64)
            st.assume(z3.ULT(idx, 2))
            ctx["index"] = idx
            fn = prog.find_trait_fn("PhoneticMethod", "Method", "candidate_committed")
            if ev == "commit2":
                # two learning commits in a row (the word typed again in between), the environment free at each save
                it.call_function(fn, [me, idx, cr])
                ctx["io_mark"] = len(ctx.get("io_log", []))
                ctx["writes_mark"] = ctx.get("writes", 0)
                cur0 = pm_field(prog, pm, "selections")
                ctx["sel_mark"] = [(k, tuple(v.elems)) for k, v in (cur0.entries if isinstance(cur0, SMap) else [])]
                pm.fields[prog.structs["PhoneticMethod"].index("buffer")] = SString([0x61])
                idx2 = st.sym_bv("commit_index2", 64)
                st.assume(z3.ULT(idx2, 2))
                ctx["index2"] = idx2
                ctx["prev2"] = pm_field(prog, pm, "prev_selection")
                return it.call_function(fn, [me, idx2, cr])
            return it.call_function(fn, [me, idx, cr])
        return run

    def on_path(st, it, out):
        prog = it.p
        c = st.ctx
        model = st.get_model()

        def inputs(m):
            return dict(event=ev, environment=[[n, bool(g)] for n, g in c.get("io_log", [])], file_lengths=c.get("file_lens", []))

        def pred(m):
            return dict(panic=out[1].message) if out[0] == "panic" else dict(ok=True)
        recs = [dict(kind="witness", inputs=inputs(model), predicted=pred(model))]
        log = c.get("io_log", [])
        failed = [n for n, g in log if not g]
        recs.append(dict(kind="cover", name="cover:%s_%s" % (ev, "fault" if failed else "clean")))
        if out[0] == "panic":
            recs.append(dict(kind="violation", clause="no_panic", inputs=inputs(model), predicted=pred(model)))
            return recs
        clauses = []
        pm = c["pm"]
        if ev == "new":
            # what the constructor loads does not depend on the options: a later update_engine only refreshes the auto-correct list, so a
            # context created under other options must already hold what a context created now would load
            names = [n for n, g in log]
            clauses.append(("constructor_consults_the_user_files_whatever_the_options",
                            "fs_read" in names and any(x in names for x in ("metadata", "file_open", "path_exists"))))
            sel = pm_field(prog, pm, "selections")
            # unreadable content is treated as if the file were absent
            sel_failed = any(n in ("fs_read", "from_slice") and not g for n, g in log[:2])
            if sel_failed:
                clauses.append(("unreadable_store_is_treated_as_absent", isinstance(sel, SMap) and len(sel.entries) == 0 and sel.oracle is None and sel not in c.get("loaded", [])))
        if ev == "update":
            # re-loading keeps working whatever the files look like: the word in progress, the list it was shown with and the learned
            # choices are what the next commit / key relies on
            ps_now = pm_field(prog, pm, "suggestion")
            shown_now = ps_now.fields[prog.structs["PhoneticSuggestion"].index("suggestions")] if isinstance(ps_now, Agg) else None
            buf = pm_field(prog, pm, "buffer").elems
            after = [(k, tuple(v.elems)) for k, v in c["sel_map"].entries]
            same_sel = pm_field(prog, pm, "selections") is c["sel_map"] and after == c["before"]
            clauses.append(("reload_keeps_the_word_in_progress", bool(isinstance(shown_now, SVec) and len(shown_now.items) == 2 and list(buf) == [0x61] and same_sel)))
        if ev == "commit2":
            mark = c.get("io_mark", len(log))
            second = log[mark:]
            tried = any(n in ("fs_write", "open", "to_writer", "write_all", "to_string") for n, _ in second)
            # a second choice that differs from the preselection is learned and its save is attempted, whatever became of the first save
            cur2 = pm_field(prog, pm, "selections")
            now = [(k, tuple(v.elems)) for k, v in (cur2.entries if isinstance(cur2, SMap) else [])]
            changed2 = len(now) != len(c.get("sel_mark", [])) or any(a[0] is not b2[0] or len(a[1]) != len(b2[1]) or any(x is not y for x, y in zip(a[1], b2[1])) for a, b2 in zip(now, c.get("sel_mark", [])))
            # whatever the second commit learned (the map in memory changed) is also put to the disk - whatever became of the first save
            clauses.append(("every_learning_commit_attempts_its_save", (not changed2) or bool(tried)))
            clauses.append(("cover:commit2", True))
        if ev == "update2":
            mark = c.get("io_mark", len(log))
            first, second = log[:mark], log[mark:]
            old = pm_field(prog, pm, "modified")
            mt = c.get("mtimes", [])
            m1 = [t for pos, t in mt if pos < mark]
            m2 = [t for pos, t in mt if pos >= mark]
            loaded1 = len(c.get("loaded", [])[:c.get("loaded_mark", 0)]) > 0 and all(g for _, g in first)
            tried2 = any(n in ("fs_read", "file_open", "read_to_end") for n, _ in second)
            if m2 and not tried2 and all(g for _, g in second):
                # the second re-load saw the file's time and did not read it: then the file is not newer than the last content that was loaded
                last_ok = m1[0] if (loaded1 and m1) else c["old_mtime"]
                clauses.append(("file_newer_than_the_last_successful_load_is_read", z3.Not(z3.UGT(m2[0], last_ok))))
            clauses.append(("cover:update2", True))
        if ev == "commit":
            # a failed save loses at most that one learned choice (the map the method holds NOW - it may be another object than before)
            cur = pm_field(prog, pm, "selections")
            after = [(k, tuple(v.elems)) for k, v in (cur.entries if isinstance(cur, SMap) else [])]
            extra = [e for e in after if e not in c["before"]]
            kept = all(e in after or any(e[0] == a[0] for a in after) for e in c["before"])
            clauses.append(("failed_save_loses_at_most_that_choice", len(extra) <= 1 and kept))
            buf = pm_field(prog, pm, "buffer").elems
            clauses.append(("commit_ends_the_word", len(buf) == 0))
            # the store on disk may hold anything (a longer damaged document, an older longer store): a save that completes replaces it all
            clauses.append(("save_replaces_the_whole_file", all(sv["whole"] for sv in c.get("saves", []))))
            # "leaks nothing": no value that owns heap memory is forgotten (its destructor skipped) on any path of the save
            clauses.append(("nothing_owned_is_forgotten", len(it.env.get("forgotten", [])) == 0))
        return recs + eval_clauses(st, clauses, lambda cn, m: dict(kind="violation", clause=cn, inputs=inputs(m), predicted=pred(m)))
    return build, on_path


USERFILE_FAULTS = [
    ("selection store is one byte long", [{"op": "write_user_file", "name": "phonetic-candidate-selection.json", "content": "{"}]),
    ("selection store is two bytes long", [{"op": "write_user_file", "name": "phonetic-candidate-selection.json", "content": "{\""}]),
    ("user auto-correct file is empty", [{"op": "write_user_file", "name": "autocorrect.json", "content": ""}]),
    ("user auto-correct file is two bytes long", [{"op": "write_user_file", "name": "autocorrect.json", "content": "{\""}]),
    ("selection store holds invalid JSON", [{"op": "write_user_file", "name": "phonetic-candidate-selection.json", "content": "{\"a\":"}]),
    ("selection store is empty", [{"op": "write_user_file", "name": "phonetic-candidate-selection.json", "content": ""}]),
    ("selection store has the wrong shape", [{"op": "write_user_file", "name": "phonetic-candidate-selection.json", "content": "[1,2]"}]),
    ("selection store holds a number value", [{"op": "write_user_file", "name": "phonetic-candidate-selection.json", "content": "{\"a\":1}"}]),
    ("user auto-correct file holds invalid JSON", [{"op": "write_user_file", "name": "autocorrect.json", "content": "{"}]),
    ("user auto-correct file has the wrong shape", [{"op": "write_user_file", "name": "autocorrect.json", "content": "{\"a\":[1]}"}]),
]


def _prefix_faults():
    """Every byte prefix of stores the engine itself writes (all crash points of the non-atomic save, cuts inside multi-byte characters
    included), and hand-edited files with non-ASCII characters outside strings."""
    out = []
    docs = [("selection store", "phonetic-candidate-selection.json", '{"ami":"আমি","sesh":"শেষ"}'), ("user auto-correct file", "autocorrect.json", '{"xyz":"ami","বাং":"bangla"}')]
    for label, fname, doc in docs:
        b = doc.encode("utf-8")
        for k in range(len(b)):
            out.append(("%s cut after %d of %d bytes" % (label, k, len(b)), [{"op": "write_user_file", "name": fname, "bytes": list(b[:k])}]))
    for label, fname, doc in (("selection store with typographic quotes", "phonetic-candidate-selection.json", '{“ami”: “আমি”}'),
                              ("user auto-correct file with a Bengali letter outside a string", "autocorrect.json", '{"ami": আমি}'),
                              ("user auto-correct file with typographic quotes", "autocorrect.json", '{“ami”: “ami”}')):
        out.append((label, [{"op": "write_user_file", "name": fname, "bytes": list(doc.encode("utf-8"))}]))
    return out


def userfile_native(vs, ev):
    """Re-find the crash natively with real files (only what a user or a crashed save can produce)."""
    global USERFILE_FAULTS
    if not getattr(userfile_native, "extended", False):
        USERFILE_FAULTS = list(USERFILE_FAULTS) + _prefix_faults()
        userfile_native.extended = True
    keys = None
    import obl_assembly
    keys = obl_assembly.char_keys()
    cfg = {"layout": "avro_phonetic", "database": REPO + "/data", "opts": {"phonetic_suggestion": True}}
    scs = []
    names = []
    if ev == "new":
        for name, steps in USERFILE_FAULTS:
            scs.append({"steps": steps + [{"op": "new", "config": cfg}, {"op": "key", "key": keys["a"], "sel": 0}]})
            names.append(name)
    elif ev == "update":
        for name, steps in [f for f in USERFILE_FAULTS if f[1][0]["name"] == "autocorrect.json"]:
            st2 = [dict(s, mtime_plus=5) for s in steps]
            scs.append({"steps": [{"op": "new", "config": cfg}, {"op": "key", "key": keys["a"], "sel": 0}, {"op": "finish"}] + st2 + [{"op": "update", "config": cfg}, {"op": "key", "key": keys["a"], "sel": 0}]})
            names.append(name + " when the configuration is re-loaded")
    else:
        for name, fault in (("user-data directory is missing", [{"op": "remove_user_dir"}]), ("user-data directory is read-only", [{"op": "chmod_user_dir", "mode": 0o555}]),
                            ("user-data directory path is a file", [{"op": "user_dir_as_file"}])):
            scs.append({"steps": [{"op": "new", "config": cfg}] + fault + [{"op": "key", "key": keys["a"], "sel": 0}, {"op": "commit", "index": 1}, {"op": "key", "key": keys["a"], "sel": 0}]})
            names.append(name + " when a learned choice is saved")
    res = run_replay(scs)
    out = []
    for name, sc, r in zip(names, scs, res):
        for x in r["results"]:
            if "panic" in x:
                out.append((name, sc, x))
                break
    return out


def constructor_options_native():
    """Native: a context created under one option set (suggestions off, English on, ANSI on ...) with both user files present, then
    re-configured to suggestions on with the same layout: the learned choice and the user auto-correct entry must act as in a context
    created with the final configuration."""
    import obl_assembly
    keys = obl_assembly.char_keys()
    store = "phonetic-candidate-selection.json"

    def cfg(o):
        return {"layout": "avro_phonetic", "database": REPO + "/data", "opts": o}
    final = {"phonetic_suggestion": True}
    starts = [("suggestions off", {"phonetic_suggestion": False}), ("suggestions off, ANSI on", {"phonetic_suggestion": False, "ansi": True}),
              ("English on", {"phonetic_suggestion": True, "english": True}), ("smart quotes off", {"phonetic_suggestion": True, "smart_quote": False}),
              ("suggestions off, English on", {"phonetic_suggestion": False, "english": True})]
    scs, names = [], []
    for name, o in starts:
        steps = [{"op": "write_user_file", "name": store, "content": json.dumps({"sesh": "শেষ"}, ensure_ascii=False)},
                 {"op": "write_user_file", "name": "autocorrect.json", "content": "{\"xyz\":\"ami\"}"},
                 {"op": "new", "ctx": 0, "config": cfg(o)}, {"op": "update", "ctx": 0, "config": cfg(final)}, {"op": "new", "ctx": 1, "config": cfg(final)}]
        for w in ("sesh", "xyz"):
            for c in (0, 1):
                steps += [{"op": "key", "ctx": c, "key": keys[ch], "sel": 0} for ch in w] + [{"op": "get_state", "ctx": c}, {"op": "finish", "ctx": c}]
        scs.append({"steps": steps})
        names.append("a context created with %s and re-configured to suggestions on" % name)
    for name, sc, r in zip(names, scs, run_replay(scs)):
        rr = r["results"]
        p = [x for x in rr if "panic" in x]
        if p:
            return name, sc, "panic: %s" % p[0]["panic"]
        states = [i for i, x in enumerate(rr) if x.get("op") == "get_state"]
        for a, b2, w in ((states[0], states[1], "sesh"), (states[2], states[3], "xyz")):
            la, lb = rr[a - 1].get("suggestion", {}), rr[b2 - 1].get("suggestion", {})
            sa, sb = rr[a].get("state", {}).get("prev_selection"), rr[b2].get("state", {}).get("prev_selection")
            if la.get("list") != lb.get("list") or sa != sb:
                return name, sc, ("typing %r: it offers %s with candidate %s preselected; a context created with the final configuration offers %s with candidate %s preselected "
                                  "(user files: a learned choice for 'sesh', an auto-correct entry for 'xyz')" % (w, la.get("list", [])[:3], sa, lb.get("list", [])[:3], sb))
    return None


def retry_after_fault_native():
    """Native: the user's auto-correct file cannot be parsed when the engine looks at it (at start-up or at a re-load); it is then put right
    WITHOUT a newer modification time (a copy that preserves the time, a repair within the same clock tick); after the next re-load its
    entry must be in use."""
    import obl_assembly
    keys = obl_assembly.char_keys()
    cfg = {"layout": "avro_phonetic", "database": REPO + "/data", "opts": {"phonetic_suggestion": True}}
    good, bad = "{\"academy\":\"ekaDemi\"}", "{\"academy\":"
    typ = [{"op": "key", "key": keys[ch], "sel": 0} for ch in "academy"]
    T = 1900000000
    scs = []
    scs.append(("damaged at start-up, repaired with the same modification time", {"steps": [
        {"op": "write_user_file", "name": "autocorrect.json", "content": bad, "mtime_at": T}, {"op": "new", "ctx": 0, "config": cfg},
        {"op": "write_user_file", "name": "autocorrect.json", "content": good, "mtime_at": T}, {"op": "update", "ctx": 0, "config": cfg}] + [dict(x, ctx=0) for x in typ] +
        [{"op": "new", "ctx": 1, "config": cfg}] + [dict(x, ctx=1) for x in typ]}))
    scs.append(("damaged at a re-load, repaired with the same modification time", {"steps": [
        {"op": "new", "ctx": 0, "config": cfg}, {"op": "write_user_file", "name": "autocorrect.json", "content": bad, "mtime_at": T}, {"op": "update", "ctx": 0, "config": cfg},
        {"op": "write_user_file", "name": "autocorrect.json", "content": good, "mtime_at": T}, {"op": "update", "ctx": 0, "config": cfg}] + [dict(x, ctx=0) for x in typ] +
        [{"op": "new", "ctx": 1, "config": cfg}] + [dict(x, ctx=1) for x in typ]}))
    for (name, sc), r in zip(scs, run_replay([x[1] for x in scs])):
        rr = r["results"]
        if any("panic" in x for x in rr):
            continue
        keyed = [x for x in rr if x.get("op") == "key"]
        a, b = keyed[len(typ) - 1].get("suggestion", {}), keyed[-1].get("suggestion", {})
        if a.get("list") != b.get("list"):
            return ("user auto-correct file " + name, sc, "the re-loaded context answers 'academy' with %s, a new context (same files) with %s" % (a.get("list", [])[:3], b.get("list", [])[:3]))
    return None


def failed_save_native():
    """Native: the store cannot be saved (user-data directory missing / read-only) or is damaged between two commits; choices learned earlier in
    the same context must still be preselected."""
    import obl_assembly
    keys = obl_assembly.char_keys()
    cfg = {"layout": "avro_phonetic", "database": REPO + "/data", "opts": {"phonetic_suggestion": True}}
    store = "phonetic-candidate-selection.json"

    def typ(t):
        return [{"op": "key", "key": keys[ch], "sel": 0} for ch in t]
    faults = [("user-data directory missing", [{"op": "remove_user_dir"}], []), ("user-data directory read-only", [{"op": "chmod_user_dir", "mode": 0o555}], []),
              ("store emptied between two commits", [], [{"op": "write_user_file", "name": store, "content": ""}]),
              ("store damaged between two commits", [], [{"op": "write_user_file", "name": store, "content": "{\"a\":"}])]
    scs = []
    for name, before, between in faults:
        steps = [{"op": "new", "config": cfg}] + before + typ("a") + [{"op": "commit", "index": 1}] + between + typ("ami") + [{"op": "commit", "index": 1}] + typ("a") + [{"op": "get_state"}]
        scs.append((name, {"steps": steps}))
    # a save fails once (directory missing), the directory then appears: the next learned choice is saved and a new context knows both
    late = {"steps": [{"op": "new", "ctx": 0, "config": cfg}, {"op": "remove_user_dir"}] + [dict(x, ctx=0) for x in typ("a")] + [{"op": "commit", "ctx": 0, "index": 1}, {"op": "create_user_dir"}]
            + [dict(x, ctx=0) for x in typ("ami")] + [{"op": "commit", "ctx": 0, "index": 1}, {"op": "read_user_file", "name": store}, {"op": "new", "ctx": 1, "config": cfg}]
            + [dict(x, ctx=1) for x in typ("ami")] + [{"op": "get_state", "ctx": 1}]}
    rr = run_replay([late])[0]["results"]
    if not any("panic" in x for x in rr):
        sel = rr[-1].get("state", {}).get("prev_selection")
        content = [x for x in rr if x.get("op") == "read_user_file"][0].get("content")
        if sel != 1:
            return ("a save that failed once: later choices are not saved", late, "user-data directory missing when 'a' was learned, created afterwards; 'ami' learned (candidate 1): the store on disk is %s; "
                    "a new context typing 'ami' preselects candidate %s" % (content, sel))
    for (name, sc), r in zip(scs, run_replay([x[1] for x in scs])):
        rr = r["results"]
        if any("panic" in x for x in rr):
            p = [x for x in rr if "panic" in x][0]
            return (name + ": panic", sc, p["panic"])
        sel = rr[-1].get("state", {}).get("prev_selection")
        if sel != 1:
            return (name + ": an earlier learned choice is lost", sc, "'a' learned (candidate 1), then 'ami' learned; typing 'a' again preselects candidate %s (store in memory: %s)" % (
                sel, json.dumps(rr[-1].get("state", {}).get("selections"), ensure_ascii=False)[:200]))
    return None


def save_leak_native():
    """Native: life cycles through the C interface in which a candidate other than the preselected one is committed (so that the store is
    saved), twice per cycle, under the allocation-counting allocator: nothing may stay allocated."""
    import obl_assembly
    keys = obl_assembly.char_keys()
    cfg = {"layout": "avro_phonetic", "database": REPO + "/data", "opts": {"phonetic_suggestion": True}}
    typ = [{"key": keys[ch], "sel": 0} for ch in "ami"]
    ev = typ + [{"commit": 1}] + typ + [{"commit": 0}]
    sc = {"steps": [{"op": "ffi_cycle", "config": cfg, "events": ev, "warmups": 3}]}
    x = run_replay([sc])[0]["results"][0]
    if x.get("panic") or x.get("error"):
        return None
    if x.get("net_blocks", 0) != 0 or x.get("net_bytes", 0) != 0:
        return ("a learning commit leaves memory allocated", sc,
                "life cycle through the C interface (type 'ami', commit candidate 1, type 'ami', commit candidate 0; every pointer freed): %d block(s) / %d byte(s) still allocated" % (x["net_blocks"], x["net_bytes"]))
    return None


def save_shrink_native():
    """Native: the store on disk is longer than the document the next save writes (a damaged long file; a healthy store in which a word is
    re-learned with a shorter candidate); after the save the file must be the new document, and a new context must know the choice."""
    import obl_assembly
    keys = obl_assembly.char_keys()
    cfg = {"layout": "avro_phonetic", "database": REPO + "/data", "opts": {"phonetic_suggestion": True}}
    store = "phonetic-candidate-selection.json"

    def typ(t, ctx):
        return [{"op": "key", "ctx": ctx, "key": keys[ch], "sel": 0} for ch in t]
    long_valid = json.dumps({"kotha": "কথাবার্তা", "manush": "মানুষজন", "boi": "বইপত্র"}, ensure_ascii=False)
    starts = [("a damaged store (a three-entry store cut one byte before its end)", long_valid[:-1]),
              ("a long store of another shape", "[" + ", ".join(["1"] * 60) + "]"),
              ("a healthy three-entry store", long_valid)]
    scs, names = [], []
    for name, content in starts:
        steps = [{"op": "write_user_file", "name": store, "content": content}, {"op": "new", "ctx": 0, "config": cfg}] + typ("sesh", 0) + \
                [{"op": "commit", "ctx": 0, "index": 1}, {"op": "read_user_file", "name": store}, {"op": "new", "ctx": 1, "config": cfg}] + typ("sesh", 1) + [{"op": "get_state", "ctx": 1}]
        scs.append({"steps": steps})
        names.append(name)
    # healthy store, a word re-learned with a shorter candidate
    steps = [{"op": "new", "ctx": 0, "config": cfg}] + typ("sesh", 0) + [{"op": "commit", "ctx": 0, "index": 1}] + typ("kkhet", 0) + [{"op": "commit", "ctx": 0, "index": 4}] + \
            typ("kkhet", 0) + [{"op": "commit", "ctx": 0, "index": 1}, {"op": "read_user_file", "name": store}, {"op": "new", "ctx": 1, "config": cfg}] + typ("sesh", 1) + [{"op": "get_state", "ctx": 1}]
    scs.append({"steps": steps})
    names.append("a store written by the engine itself, then a word re-learned with a shorter candidate")
    for name, sc, r in zip(names, scs, run_replay(scs)):
        rr = r["results"]
        p = [x for x in rr if "panic" in x]
        if p:
            return name, sc, "panic: %s" % p[0]["panic"]
        content = [x for x in rr if x.get("op") == "read_user_file"][-1].get("content")
        try:
            doc = json.loads(content)
            ok_doc = isinstance(doc, dict) and "sesh" in doc
        except (ValueError, TypeError):
            ok_doc = False
        st = rr[-1].get("state", {})
        lst = rr[-2].get("suggestion", {}).get("list", [])
        sel = st.get("prev_selection", 0)
        if not ok_doc or sel != 1:
            return name, sc, ("after 'sesh' was typed and candidate 1 committed the store file reads %r; a new context typing 'sesh' preselects candidate %d of %s "
                              "(the learned choice is candidate 1)" % (content, sel, lst[:3]))
    return None


def reload_midword_native():
    """Native: the user auto-correct file changes state (removed, emptied, damaged, rewritten) while a word is being composed and the
    configuration is re-loaded; committing any shown candidate, typing on and erasing must keep working."""
    import obl_assembly
    keys = obl_assembly.char_keys()
    cfg = {"layout": "avro_phonetic", "database": REPO + "/data", "opts": {"phonetic_suggestion": True}}
    before = [("a valid user auto-correct file", [{"op": "write_user_file", "name": "autocorrect.json", "content": "{\"xyz\":\"ami\"}"}]), ("no user auto-correct file", [])]
    faults = [("removed", [{"op": "remove_user_file", "name": "autocorrect.json"}]),
              ("emptied", [{"op": "write_user_file", "name": "autocorrect.json", "content": "", "mtime_plus": 5}]),
              ("damaged", [{"op": "write_user_file", "name": "autocorrect.json", "content": "{\"a", "mtime_plus": 5}]),
              ("rewritten", [{"op": "write_user_file", "name": "autocorrect.json", "content": "{\"abc\":\"tumi\"}", "mtime_plus": 5}]),
              ("gone with its directory", [{"op": "remove_user_dir"}])]
    scs, names = [], []
    for bn, bsteps in before:
        for fn2, fsteps in faults:
            for tail in ([{"op": "commit", "index": 1}], [{"op": "commit", "index": 0}], [{"op": "key", "key": keys["r"], "sel": 0}, {"op": "commit", "index": 1}],
                         [{"op": "backspace"}, {"op": "backspace"}, {"op": "backspace"}, {"op": "backspace"}]):
                steps = bsteps + [{"op": "new", "config": cfg}] + [{"op": "key", "key": keys[ch], "sel": 0} for ch in "ami"] + fsteps + [{"op": "update", "config": cfg}] + tail + \
                        [{"op": "key", "key": keys["a"], "sel": 0}]
                scs.append({"steps": steps})
                names.append("%s, then %s while the word 'ami' is being composed, configuration re-loaded" % (bn, fn2))
    for name, sc, r in zip(names, scs, run_replay(scs)):
        for x in r["results"]:
            if "panic" in x:
                return name, sc, x
    return None


def obl_userfiles(check, budget_s=None):
    shapes = [dict(event="new"), dict(event="update"), dict(event="commit"), dict(event="update2"), dict(event="commit2")]
    check.bounds["userfile_faults"] = dict(events="context creation (PhoneticMethod::new), update_engine, candidate_committed",
                                           environment="every file-system and serde_json call may fail or succeed independently (over-approximates absent, empty, truncated-at-any-byte, wrong-shape files, missing or read-only directory)")
    records, errors, summ = msym.run_shapes(check, "userfile_faults", shapes, make_userfile, budget_s=budget_s)
    vio = [r for r in records if r["kind"] == "violation" and (getattr(check, "only_clauses", None) is None or r["clause"] in check.only_clauses)]
    covers = set(r["name"] for r in records if r["kind"] == "cover")
    name = "userfile_faults"
    if errors:
        check.obligation(name, "mirsym", "inconclusive", "executor gave up: " + "; ".join(sorted(set(errors))[:3]))
        return
    need = ["cover:new_fault", "cover:new_clean", "cover:update_clean", "cover:commit_clean"]
    if any(n not in covers for n in need):
        check.obligation(name, "mirsym", "inconclusive", "vacuity: missing reachability witnesses %s" % [n for n in need if n not in covers])
        return
    detail = "%d paths over %d environment behaviours" % (summ["paths"], summ["paths"])
    if not vio:
        check.obligation(name, "mirsym", "held", detail + "; no panic path, state clauses unsat")
        return
    status = "held"
    worst = {"held": 0, "known": 1, "inconclusive": 2, "violated": 3}
    by_ev = {}
    for v in vio:
        by_ev.setdefault((v["inputs"]["event"], v["clause"]), []).append(v)
    for (ev, clause), vs in sorted(by_ev.items()):
        if clause == "constructor_consults_the_user_files_whatever_the_options":
            found = constructor_options_native()
            if found:
                fname, sc, obs = found
                check.stats["traces_validated"] += 1
                st = check.finding("user files: " + fname, "%s: %s" % (fname, obs), dict(scenario=sc, observed=obs, solver_counterexample=vs[0]["inputs"]))
                if worst[st] > worst[status]:
                    status = st
                continue
        if clause == "file_newer_than_the_last_successful_load_is_read":
            found = retry_after_fault_native()
            if found:
                fname, sc, obs = found
                check.stats["traces_validated"] += 1
                st = check.finding("user files: " + fname, "%s: %s" % (fname, obs), dict(scenario=sc, observed=obs, solver_counterexample=vs[0]["inputs"]))
                if worst[st] > worst[status]:
                    status = st
                continue
        if clause in ("failed_save_loses_at_most_that_choice", "every_learning_commit_attempts_its_save"):
            found = failed_save_native()
            if found:
                fname, sc, obs = found
                check.stats["traces_validated"] += 1
                st = check.finding("user files: " + fname, "%s: %s" % (fname, obs), dict(scenario=sc, observed=obs, solver_counterexample=vs[0]["inputs"]))
                if worst[st] > worst[status]:
                    status = st
                continue
        if clause == "nothing_owned_is_forgotten":
            found = save_leak_native()
            if found:
                fname, sc, obs = found
                check.stats["traces_validated"] += 1
                st = check.finding("user files: " + fname, "%s: %s" % (fname, obs), dict(scenario=sc, observed=obs, solver_counterexample=vs[0]["inputs"]))
                if worst[st] > worst[status]:
                    status = st
                continue
        if clause == "save_replaces_the_whole_file":
            found = save_shrink_native()
            if found:
                fname, sc, obs = found
                check.stats["traces_validated"] += 1
                st = check.finding("user files: " + fname, "%s: %s" % (fname, obs), dict(scenario=sc, observed=obs, solver_counterexample=vs[0]["inputs"]))
                if worst[st] > worst[status]:
                    status = st
                continue
        if clause == "reload_keeps_the_word_in_progress":
            found = reload_midword_native()
            if found:
                fname, sc, obs = found
                check.stats["traces_validated"] += 1
                st = check.finding("user files: " + fname, "%s: %s" % (fname, obs.get("panic", obs)), dict(scenario=sc, observed=obs, solver_counterexample=vs[0]["inputs"]))
                if worst[st] > worst[status]:
                    status = st
                continue
        if clause != "no_panic":
            check.obligation(name + ":" + clause, "mirsym", "inconclusive", "state clause violated under the environment oracle, no native search for it: %s" % json.dumps(vs[0]["inputs"])[:300])
            status = "inconclusive" if worst["inconclusive"] > worst[status] else status
            continue
        found = userfile_native(vs, ev)
        if not found:
            check.obligation(name + ":" + ev, "mirsym", "inconclusive", "panic path under the environment oracle was not re-found with real files: %s" % json.dumps(vs[0]["inputs"])[:300])
            status = "inconclusive" if worst["inconclusive"] > worst[status] else status
            continue
        for fname, sc, obs in found:
            check.stats["traces_validated"] += 1
            st = check.finding("user files: " + fname, "%s: %s" % (fname, obs["panic"]), dict(scenario=sc, observed=obs, solver_counterexample=vs[0]["inputs"]))
            if worst[st] > worst[status]:
                status = st
        check.sample(dict(obligation=name, counterexample=vs[0]["inputs"], native=[f[0] for f in found]))
    check.obligation(name, "mirsym", status, detail + "; %d panic paths" % len(vio))
