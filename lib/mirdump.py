"""Regenerate the MIR dump of /repo's current working tree (pinned nightly = Kani's toolchain)."""
import os
import time

from common import BUILD, NIGHTLY, REPO, Inconclusive, sh


def dump():
    """-> (mir text, seconds). Always rebuilt from the working tree (touch forces rustc to re-run)."""
    t0 = time.time()
    os.makedirs(BUILD, exist_ok=True)
    lib = os.path.join(REPO, "src", "lib.rs")
    os.utime(lib, None)
    rc, out = sh(["cargo", "+" + NIGHTLY, "rustc", "--offline", "--lib", "--", "-Zunpretty=mir",
                  "-C", "debug-assertions=off", "-C", "overflow-checks=on", "-Awarnings"],
                 cwd=REPO, env={"CARGO_TARGET_DIR": os.path.join(BUILD, "mir")}, timeout=1200)
    if rc != 0:
        raise Inconclusive("MIR dump failed (does /repo compile?):\n" + out[-3000:])
    # cargo's own messages go to stderr too; the dump starts at the first MIR item
    i = out.find("// WARNING: This output format")
    text = out[i:] if i >= 0 else out
    if "fn " not in text:
        raise Inconclusive("MIR dump is empty")
    with open(os.path.join(BUILD, "riti.%d.mir" % os.getpid()), "w", encoding="utf-8") as f:
        f.write(text)
    os.replace(os.path.join(BUILD, "riti.%d.mir" % os.getpid()), os.path.join(BUILD, "riti.mir"))
    return text, time.time() - t0
