"""Shared plumbing for /verif/check: paths, subprocess helpers, evidence, known findings,
replay driver access, spec tables."""
import hashlib
import json
import os
import re
import shutil
import subprocess
import sys
import tempfile
import time

VERIF = os.path.dirname(os.path.dirname(os.path.abspath(__file__)))
REPO = os.environ.get("VERIF_REPO", "/repo")
BUILD = os.path.join(VERIF, ".build")
NIGHTLY = "nightly-2026-08-21"
NCPU = max(1, min(16, int(os.environ.get("VERIF_NCPU", "0")) or os.cpu_count() or 1))

OFFLINE_ENV = {"CARGO_NET_OFFLINE": "true", "GOPROXY": "off", "PIP_NO_INDEX": "1"}


def env_with(extra=None):
    e = dict(os.environ)
    e.update(OFFLINE_ENV)
    if extra:
        e.update(extra)
    return e


def sh(cmd, cwd=None, env=None, timeout=None, input=None):
    """Run a command, return (rc, stdout+stderr). rc = 124 on time-out."""
    try:
        p = subprocess.run(cmd, cwd=cwd, env=env_with(env), timeout=timeout, input=input,
                           stdout=subprocess.PIPE, stderr=subprocess.STDOUT, text=True,
                           shell=isinstance(cmd, str))
        return p.returncode, p.stdout
    except subprocess.TimeoutExpired as ex:
        out = ex.stdout or ""
        if isinstance(out, bytes):
            out = out.decode("utf-8", "replace")
        return 124, out + "\n[time-out]"


class Inconclusive(Exception):
    """Raised when a check cannot reach a verdict (never reported as a pass)."""


# --------------------------------------------------------------------------- spec tables

def published_keys():
    """(name, code) pairs of every `#define VC_*` in /repo/include/riti.h, regenerated per run."""
    out = []
    with open(os.path.join(REPO, "include", "riti.h"), encoding="utf-8") as f:
        for line in f:
            m = re.match(r"#define\s+(VC_\w+)\s+(\d+|0x[0-9a-fA-F]+)\s*$", line)
            if m:
                out.append((m.group(1), int(m.group(2), 0)))
    if len(out) < 50:
        raise Inconclusive("could not read the published key set from include/riti.h")
    return out


def keyname_spec():
    """name -> (char code point or 0, layout stem, kind) from /verif/spec/keynames.tsv."""
    t = {}
    with open(os.path.join(VERIF, "spec", "keynames.tsv"), encoding="utf-8") as f:
        for line in f:
            if line.startswith("#") or not line.strip():
                continue
            name, cp, stem, kind = line.rstrip("\n").split("\t")
            t[name] = (int(cp), stem, kind)
    return t


# --------------------------------------------------------------------------- replay driver

REPLAY_BIN = os.path.join(BUILD, "replay", "release", "riti-replay")


def build_replay(force=True):
    """(Re)build the native replay driver against /repo's current working tree."""
    t0 = time.time()
    rc, out = sh(["cargo", "build", "--release", "--offline", "--manifest-path",
                  os.path.join(VERIF, "replay", "Cargo.toml")],
                 env={"CARGO_TARGET_DIR": os.path.join(BUILD, "replay"), "RUSTFLAGS": "--cfg riti_verif"}, timeout=1200)
    if rc != 0 or not os.path.exists(REPLAY_BIN):
        raise Inconclusive("replay driver does not build against /repo:\n" + out[-3000:])
    return time.time() - t0


def run_replay(scenarios, timeout=240, _depth=0, _hangs=0):
    """Play scenarios natively. Each scenario gets a private XDG_DATA_HOME under a scratch dir
    that is removed afterwards. Returns the list of result objects (same order)."""
    if not scenarios:
        return []
    scratch = tempfile.mkdtemp(prefix="riti-verif-replay-")
    try:
        path = os.path.join(scratch, "scenarios.jsonl")
        with open(path, "w", encoding="utf-8") as f:
            for i, sc in enumerate(scenarios):
                sc = dict(sc)
                sc.setdefault("id", i)
                sc["xdg"] = os.path.join(scratch, "x%d" % i)
                f.write(json.dumps(sc, ensure_ascii=False) + "\n")
        how = None
        try:
            p = subprocess.run([REPLAY_BIN, path], stdout=subprocess.PIPE, stderr=subprocess.PIPE,
                               timeout=timeout, env=env_with())
            out, errtxt, rc = p.stdout, p.stderr.decode("utf-8", "replace"), p.returncode
        except subprocess.TimeoutExpired as ex:
            out, errtxt, rc = ex.stdout or b"", (ex.stderr or b"").decode("utf-8", "replace"), None
            how = "did not return within %d s" % timeout
        lines = [l for l in out.decode("utf-8", "replace").split("\n") if l.strip()]      # not splitlines(): U+2028 etc. occur in texts
        res = []
        for l in lines:
            try:
                res.append(json.loads(l))
            except ValueError:
                break               # a line cut short by the crash
        if len(res) == len(scenarios):
            return res
        if rc == 0 and how is None:
            raise Inconclusive("replay driver returned %d results for %d scenarios (rc=%s): %s" % (len(res), len(scenarios), rc, errtxt[-2000:]))
        # the driver died (abort, stack overflow, signal) or hung inside scenario len(res): that is an observation about that scenario
        # (a Rust panic is caught and reported per step; only an abort or non-termination ends the process). The rest is played separately.
        k = len(res)
        if "WATCHDOG" in errtxt:
            how = "a step did not return within 20 s (the driver's watchdog ended the process)"
        how = how or ("process ended by signal %d" % -rc if rc is not None and rc < 0 else "process exited with status %s" % rc)
        tail = [x for x in errtxt.strip().split("\n") if x.strip()][-3:]
        # consumers index the step results of a scenario by position: the observation stands for every step from the fatal one on
        # (which step it was is not known; the steps before it are lost with the process)
        obs = {"op": "process", "abort": "%s: %s" % (how, " | ".join(tail)[:400]), "panic": "abort (not a catchable panic): %s: %s" % (how, " | ".join(tail)[:300]),
               "suggestion": {}, "state": {}}
        res.append({"id": scenarios[k].get("id", k), "crashed": True, "results": [dict(obs) for _ in range(max(8, len(scenarios[k].get("steps", [])) + 2))]})
        if rc is None or "WATCHDOG" in errtxt:
            _hangs += 1
        if _depth >= 24 or _hangs >= 2:
            # enough deaths seen: the rest is not played (marked as such)
            skip = {"op": "skipped", "skipped": True, "suggestion": {}, "state": {}}
            for j in range(k + 1, len(scenarios)):
                res.append({"id": scenarios[j].get("id", j), "skipped": True, "results": [dict(skip) for _ in range(max(8, len(scenarios[j].get("steps", [])) + 2))]})
            return res
        return res + run_replay(scenarios[k + 1:], timeout, _depth + 1, _hangs)
    finally:
        subprocess.run(["chmod", "-R", "u+rwx", scratch], stderr=subprocess.DEVNULL)
        shutil.rmtree(scratch, ignore_errors=True)


def run_replay_parallel(scenarios, jobs=None, timeout=240):
    """Same as run_replay but split over several driver processes."""
    from concurrent.futures import ThreadPoolExecutor
    jobs = jobs or NCPU
    if len(scenarios) < 64 or jobs <= 1:
        return run_replay(scenarios, timeout)
    n = len(scenarios)
    chunk = (n + jobs - 1) // jobs
    parts = [scenarios[i:i + chunk] for i in range(0, n, chunk)]
    with ThreadPoolExecutor(max_workers=len(parts)) as ex:
        outs = list(ex.map(lambda p: run_replay(p, timeout), parts))
    res = []
    for o in outs:
        res.extend(o)
    return res


# --------------------------------------------------------------------------- known findings

def load_known():
    p = os.path.join(VERIF, "known_findings.json")
    if not os.path.exists(p):
        return []
    with open(p, encoding="utf-8") as f:
        return json.load(f).get("findings", [])


# --------------------------------------------------------------------------- check context

class Check:
    """Collects obligations of one property check, writes evidence, decides the exit code."""

    def __init__(self, prop, tier, seed):
        self.prop = prop
        self.tier = tier
        self.seed = seed
        self.t0 = time.time()
        self.obligations = []      # dicts
        self.violations = []       # dicts {key, what, replay}
        self.known_hits = []
        self.inconclusive = []
        self.samples = []
        self.assumptions = []
        self.outside_claim = []
        self.functions = {}
        self.bounds = {}
        self.stats = dict(states=0, transitions=0, traces_validated=0, queries=0, queries_unsat=0,
                          queries_sat=0, solver_s=0.0, kani_harnesses=[])
        self.extra = {}
        self.known = [k for k in load_known() if k.get("property") == prop]

    # -- reporting -----------------------------------------------------------
    def log(self, *a):
        print("[%s %6.1fs]" % (self.prop, time.time() - self.t0), *a, flush=True)

    def obligation(self, name, engine, status, detail="", **kw):
        """status: held | violated | known | inconclusive"""
        o = dict(name=name, engine=engine, status=status, detail=detail)
        o.update(kw)
        self.obligations.append(o)
        self.log("obligation %-34s %-12s %s" % (name, status, detail[:200]))
        if status == "inconclusive":
            self.inconclusive.append(name + ": " + detail)
        return o

    def sample(self, s):
        if len(self.samples) < 40:
            self.samples.append(s)

    def assume(self, text):
        if text not in self.assumptions:
            self.assumptions.append(text)

    def outside(self, text):
        if text not in self.outside_claim:
            self.outside_claim.append(text)

    def match_known(self, key):
        for k in self.known:
            if k.get("status", "known") != "known":
                continue
            pat = k.get("key")
            if pat and (pat == key or re.fullmatch(pat, key)):
                return k
        return None

    def finding(self, key, what, replay_obj):
        """A counterexample that reproduced natively. Either listed (KNOWN-FINDING) or a VIOLATION.
        Returns 'known' or 'violated'."""
        k = self.match_known(key)
        if k is not None:
            if key not in [h[0] for h in self.known_hits]:
                self.known_hits.append((key, k.get("what", what)))
                print("KNOWN-FINDING: property=%s %s [%s]" % (self.prop, k.get("what", what), key), flush=True)
            return "known"
        os.makedirs(os.path.join(VERIF, "replays"), exist_ok=True)
        h = hashlib.sha1((key + json.dumps(replay_obj, sort_keys=True, ensure_ascii=False)).encode()).hexdigest()[:10]
        path = os.path.join(VERIF, "replays", "%s-%s.json" % (self.prop, h))
        with open(path, "w", encoding="utf-8") as f:
            json.dump(dict(property=self.prop, key=key, what=what, replay=replay_obj), f, ensure_ascii=False, indent=1)
        if key not in [v["key"] for v in self.violations]:
            self.violations.append(dict(key=key, what=what, replay=path))
            print("VIOLATION property=%s replay=%s" % (self.prop, path), flush=True)
            print("  what: %s [%s]" % (what, key), flush=True)
        return "violated"

    # -- evidence -------------------------------------------------------------
    def write_evidence(self):
        n_ob = len(self.obligations)
        n_dis = len([o for o in self.obligations if o["status"] in ("held", "known")])
        samples = self.samples or [o["name"] for o in self.obligations][:5] or ["(none)"]
        cov = dict(
            states=max(1, int(self.stats["states"])),
            transitions=max(1, int(self.stats["transitions"])),
            traces_validated_against_impl=int(self.stats["traces_validated"]),
            samples=samples,
            obligations=n_ob,
            discharged=n_dis,
            obligation_list=self.obligations,
            queries=int(self.stats["queries"]),
            queries_unsat=int(self.stats["queries_unsat"]),
            queries_sat=int(self.stats["queries_sat"]),
            solver_s=round(self.stats["solver_s"], 3),
            kani_harnesses=self.stats["kani_harnesses"],
            functions_encoded=self.functions,
            bounds=self.bounds,
            outside_claim=self.outside_claim,
            known_findings_hit=[dict(key=k, what=w) for k, w in self.known_hits],
            inconclusive=self.inconclusive,
            explanation=("states = feasible symbolic paths explored by the MIR executor plus Kani harnesses "
                         "decided; transitions = MIR basic blocks executed symbolically (plus SAT clauses are "
                         "listed per harness); traces_validated_against_impl = solver witnesses replayed "
                         "against the native build and found to agree with the symbolic post-state"),
        )
        cov.update(self.extra)
        ev = dict(property_id=self.prop, tier=self.tier, seed=self.seed, level="model_checking",
                  coverage=cov, assumptions=self.assumptions, wall_s=round(time.time() - self.t0, 2),
                  violations=len(self.violations))
        os.makedirs(os.path.join(VERIF, "evidence"), exist_ok=True)
        with open(os.path.join(VERIF, "evidence", self.prop + ".json"), "w", encoding="utf-8") as f:
            json.dump(ev, f, ensure_ascii=False, indent=1)

    def finish(self):
        self.write_evidence()
        held = len([o for o in self.obligations if o["status"] == "held"])
        self.log("summary: %d obligations, %d held, %d known-finding, %d violated, %d inconclusive; %d queries (%d unsat) %.1fs solver" % (
            len(self.obligations), held, len([o for o in self.obligations if o["status"] == "known"]),
            len([o for o in self.obligations if o["status"] == "violated"]), len(self.inconclusive),
            self.stats["queries"], self.stats["queries_unsat"], self.stats["solver_s"]))
        if self.bounds:
            self.log("bounds: " + json.dumps(self.bounds, ensure_ascii=False)[:1500])
        if self.violations:
            return 1
        if self.inconclusive:
            for i in self.inconclusive:
                print("INCONCLUSIVE property=%s %s" % (self.prop, i[:500]), flush=True)
            return 2
        if not self.obligations:
            print("INCONCLUSIVE property=%s no obligation was run" % self.prop, flush=True)
            return 2
        return 0
