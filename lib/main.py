"""Entry point of /verif/check."""
import argparse
import importlib
import json
import os
import sys
import traceback

sys.path.insert(0, os.path.dirname(os.path.abspath(__file__)))
sys.path.insert(0, os.path.join(os.path.dirname(os.path.dirname(os.path.abspath(__file__))), "props"))
sys.path.insert(0, os.path.join(os.path.dirname(os.path.dirname(os.path.abspath(__file__))), "spec"))

from common import Check, Inconclusive, build_replay, VERIF  # noqa: E402


def main():
    ap = argparse.ArgumentParser()
    ap.add_argument("prop")
    ap.add_argument("--tier", default=os.environ.get("VERIF_TIER", "quick"), choices=["quick", "thorough"])
    ap.add_argument("--replay", default=None)
    ap.add_argument("--only", default=None, help="comma-separated obligation names (development aid)")
    a = ap.parse_args()
    seed = int(os.environ.get("VERIF_SEED", "0") or 0)
    if a.replay:
        import replay_cmd
        sys.exit(replay_cmd.replay_file(a.replay))
    mod = importlib.import_module(a.prop)
    c = Check(a.prop, a.tier, seed)
    c.only = set(a.only.split(",")) if a.only else None
    try:
        c.log("building the native replay driver against /repo")
        build_replay()
        mod.run(c)
    except Inconclusive as ex:
        c.obligation("framework", "runner", "inconclusive", str(ex))
    except Exception:
        traceback.print_exc()
        c.obligation("framework", "runner", "inconclusive", "internal error: " + traceback.format_exc()[-3000:])
    rc = c.finish()
    sys.exit(rc)


if __name__ == "__main__":
    main()
