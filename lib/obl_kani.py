"""Obligations decided by engine K (Kani), with native confirmation of counterexamples."""
import json
import os
import re

import kani_engine as K
from common import (BUILD, REPO, Inconclusive, keyname_spec, published_keys, run_replay, sh)

PHON = {"layout": "avro_phonetic", "database": os.path.join(REPO, "data")}

_domain_cache = {}


def rank_domain():
    """Producible rank domain, computed from the emojicon tables through the native driver."""
    if "d" in _domain_cache:
        return _domain_cache["d"]
    res = run_replay([{"steps": [{"op": "emoji_tables"}]}])[0]["results"][0]
    mx = max([len(v) for v in res["names"].values()] + [len(v) for v in res["bengali"].values()])
    d = dict(max_emoji_rank=mx, max_distance=250, emoticons=len(res["emoticons"]), names=len(res["names"]),
             bengali=len(res["bengali"]))
    _domain_cache["d"] = d
    return d


def u16(v):
    return v[0] | (v[1] << 8)


# ---------------------------------------------------------------- native confirmations

def confirm_keycode_total(check, r):
    """Counterexample = a published key. Replay: press it in phonetic mode (both suggestion modes)."""
    if not r["playback"]:
        return None
    key = u16(r["playback"][0])
    names = {c: n for n, c in published_keys()}
    name = names.get(key, "0x%04x" % key)
    scs = []
    for sug in (True, False):
        cfg = dict(PHON, opts={"phonetic_suggestion": sug})
        scs.append({"steps": [{"op": "new", "config": cfg}, {"op": "key", "key": key, "mod": 0, "sel": 0}]})
    out = run_replay(scs)
    for sc, o in zip(scs, out):
        res = o["results"][1]
        if "panic" in res:
            return dict(key="phonetic key %s panics" % name,
                        what="phonetic get_suggestion_for_key(%s=%d) panics: %s" % (name, key, res["panic"]),
                        replay=dict(scenario=sc, observed=res))
        sug = res.get("suggestion", {})
        text = sug.get("aux", sug.get("text", ""))
        if any(ord(ch) >= 0x7f or ord(ch) < 0x20 for ch in text) and sug.get("kind") == "full":
            return dict(key="key %s types non-ASCII" % name,
                        what="key %s puts a non printable-ASCII character into the phonetic buffer: %r" % (name, text),
                        replay=dict(scenario=sc, observed=res))
    return False


def confirm_keycode_table(check, r):
    if not r["playback"]:
        return None
    key = u16(r["playback"][0])
    names = {c: n for n, c in published_keys()}
    name = names.get(key, "0x%04x" % key)
    want = keyname_spec().get(name, (0,))[0]
    cfg = dict(PHON, opts={"phonetic_suggestion": True})
    sc = {"steps": [{"op": "new", "config": cfg}, {"op": "key", "key": key}]}
    res = run_replay([sc])[0]["results"][1]
    if "panic" in res:
        return False  # C01's business
    aux = res.get("suggestion", {}).get("aux")
    if want and aux != chr(want):
        return dict(key="key %s types %r" % (name, aux),
                    what="key %s types %r in phonetic mode, its name says %r" % (name, aux, chr(want)),
                    replay=dict(scenario=sc, observed=res, expected_aux=chr(want)))
    return False


def confirm_get_modifiers(check, r):
    if not r["playback"]:
        return None
    m = r["playback"][0][0]
    lay = {"Key_a_Normal": "ক", "Key_a_AltGr": "খ"}
    sc = {"steps": [{"op": "new", "config": {"layout_json": lay, "opts": {}}}, {"op": "key", "key": 0xA096, "mod": m}]}
    res = run_replay([sc])[0]["results"][1]
    want = "খ" if (m & 2) else "ক"
    got = res.get("suggestion", {}).get("text")
    if got != want:
        return dict(key="modifier byte selects wrong plane", what="modifier byte %d selects %r, expected %r" % (m, got, want),
                    replay=dict(scenario=sc, observed=res, expected=want))
    return False


def confirm_english_mask(check, r):
    """Native: both methods, both orders of the two setter calls; the raw typed text must be offered iff English on and ANSI off."""
    scs = []
    fixed = {"layout": REPO + "/data/Probhat.json", "database": REPO + "/data"}
    for first in (False, True):
        for e in (False, True):
            for a in (False, True):
                o = {"phonetic_suggestion": True, "fixed_suggestion": True, "english": e, "ansi": a, "_ansi_first": first}
                for base, raw in ((PHON, "k"), (fixed, "j")):
                    scs.append(({"steps": [{"op": "new", "config": dict(base, opts=o)}, {"op": "key", "key": 0xA0A0 if base is PHON else 0xA09F}]}, e, a, first, raw))
    # ... and setter histories on one Config object (a front end re-applying its settings): what counts is the last value given to each
    import itertools
    for n in (1, 2, 3):
        for hist in itertools.product([("english", False), ("english", True), ("ansi", False), ("ansi", True)], repeat=n):
            e = a = False
            for k, v in hist:
                if k == "english":
                    e = v
                else:
                    a = v
            o = {"phonetic_suggestion": True, "fixed_suggestion": True, "english": False, "ansi": False, "_then": [list(x) for x in hist]}
            for base, raw in ((PHON, "k"), (fixed, "j")):
                scs.append(({"steps": [{"op": "new", "config": dict(base, opts=o)}, {"op": "key", "key": 0xA0A0 if base is PHON else 0xA09F}]}, e, a, list(hist), raw))
    from common import run_replay_parallel
    out = run_replay_parallel([s[0] for s in scs])
    for (sc, e, a, first, raw), o in zip(scs, out):
        res = o["results"][1]
        lst = res.get("suggestion", {}).get("list", [])
        has = raw in lst
        if has != (e and not a):
            order = ("setter calls %s on one Config object" % first) if isinstance(first, list) else ("options set in the order %s" % ("ANSI then English" if first else "English then ANSI"))
            return dict(key="english candidate mask",
                        what="%s, English=%s ANSI=%s at the end (%s method): raw typed text offered=%s, list %s" % (
                            order, e, a, "phonetic" if raw == "k" else "fixed", has, lst),
                        replay=dict(scenario=sc, observed=res))
    return False


def confirm_moved_selection(check, r):
    """Native: phonetic method, a word with several candidates, then a punctuation key pressed with every selection byte inside the list:
    the pre-edit text of every candidate is the encoder's output for that candidate (ANSI on) / the candidate (ANSI off)."""
    scs, meta = [], []
    for ansi in (True, False):
        for word in ("ami", "sesh", "k"):
            for sel in (0, 1, 2):
                for p in (",", ".", "?"):
                    cfg = dict(PHON, opts={"phonetic_suggestion": True, "ansi": ansi})
                    ks = obl_keys()
                    scs.append({"steps": [{"op": "new", "config": cfg}] + [{"op": "key", "key": ks[ch], "sel": 0} for ch in word] + [{"op": "key", "key": ks[p], "sel": sel}]})
                    meta.append((ansi, word, sel, p))
    out = run_replay(scs)
    second, m2 = [], []
    for (ansi, word, sel, p), sc, o in zip(meta, scs, out):
        last = o["results"][-1]
        sg = last.get("suggestion", {})
        if "panic" in last or sg.get("kind") != "full" or sel >= sg.get("len", 0):
            continue
        second.append({"steps": [{"op": "bijoy", "text": t} for t in sg["list"]]})
        m2.append((ansi, word, sel, p, sc, sg))
    for (ansi, word, sel, p, sc, sg), o in zip(m2, run_replay(second) if second else []):
        want = [x.get("text") for x in o["results"]] if ansi else sg["list"]
        if sg.get("preedit") != want:
            return dict(key="suggestion read-out", what="phonetic, ANSI %s: %r typed, then %r pressed with selection %d: the list is %s, the pre-edit texts are %s, %s" % (
                ansi, word, p, sel, sg["list"], sg.get("preedit"), ("the encoder gives %s" % want) if ansi else "not the candidates"),
                replay=dict(scenario=sc, observed=sg))
    return False


def obl_keys():
    import obl_assembly
    return obl_assembly.char_keys()


def confirm_accessors(check, r):
    """Read-out of Suggestion values built through the public constructors."""
    scs = []
    for ansi in (False, True):
        scs.append({"steps": [{"op": "suggestion_new", "aux": "xy", "items": [[0, "হাই", 0], [3, "c", 2]], "sel": 1, "ansi": ansi},
                              {"op": "suggestion_new", "single": "হাই", "ansi": ansi},
                              {"op": "suggestion_new", "empty": True},
                              {"op": "bijoy", "text": "হাই"}, {"op": "bijoy", "text": "c"},
                              {"op": "suggestion_new", "aux": "..", "items": [[0, "।", 0], [3, "(।)", 2], [2, "১২", 10], [2, "ab", 10]], "sel": 0, "ansi": ansi},
                              {"op": "bijoy", "text": "।"}, {"op": "bijoy", "text": "(।)"}, {"op": "bijoy", "text": "১২"}, {"op": "bijoy", "text": "ab"},
                              {"op": "suggestion_new", "single": "।", "ansi": ansi},
                              # the auxiliary text is the composition as it is (Bengali in the fixed method), whatever the encoding of the pre-edit text
                              {"op": "suggestion_new", "aux": "হাই", "items": [[0, "হাই", 0]], "sel": 0, "ansi": ansi}]})
    out = run_replay(scs)
    for sc, o, ansi in zip(scs, out, (False, True)):
        full, single, empty, b0, b1, full2, c0, c1, c2, c3, single2, full3 = o["results"]
        if "panic" in full3 or full3.get("suggestion", {}).get("aux") != "হাই":
            return dict(key="suggestion read-out", what="a list suggestion built with auxiliary text 'হাই' and ansi=%s reports the auxiliary text %r" % (ansi, full3.get("suggestion", {}).get("aux")),
                        replay=dict(scenario=sc, observed=[full3]))
        if "panic" in full2 or "panic" in single2:
            return dict(key="suggestion accessor panics", what="accessor panics", replay=dict(scenario=sc, observed=o))
        f2 = full2["suggestion"]
        want2 = [c0["text"], c1["text"], c2["text"], c3["text"]] if ansi else f2["list"]
        if f2["preedit"] != want2 or single2["suggestion"]["preedit0"] != (c0["text"] if ansi else "।"):
            return dict(key="suggestion read-out", what="pre-edit text of %s under ansi=%s is %s, the encoder gives %s" % (f2["list"], ansi, f2["preedit"], want2),
                        replay=dict(scenario=sc, observed=[full2, single2]))
        if "panic" in full or "panic" in single or "panic" in empty:
            return dict(key="suggestion accessor panics", what="accessor panics", replay=dict(scenario=sc, observed=o))
        f = full["suggestion"]
        want = [b0["text"], b1["text"]] if ansi else f["list"]
        ok = (f["len"] == 2 and f["sel"] == 1 and f["aux"] == "xy" and f["list"] == ["হাই", "c"]
              and f["preedit"] == want)
        s = single["suggestion"]
        ok = ok and s["text"] == "হাই" and s["preedit0"] == (b0["text"] if ansi else s["text"])
        e = empty["suggestion"]
        ok = ok and e["empty"] and e["preedit0"] == ""
        if not ok:
            return dict(key="suggestion read-out", what="Suggestion read-out differs from the constructed value (ansi=%s)" % ansi,
                        replay=dict(scenario=sc, observed=o))
    return False


def confirm_playback(harness):
    """Generic: re-run the harness natively on the solver's values with `cargo kani playback`."""
    def f(check, r):
        rc, out = sh(["cargo", "kani", "--target-dir", K.TARGET, "--harness", "verif_kani::" + harness, "--exact", "-Z", "stubbing",
                      "-Z", "concrete-playback", "--concrete-playback=inplace"], cwd=REPO,
                     env={"RITI_VERIF_KANI": K.STAGE}, timeout=900)
        rc, out = sh(["cargo", "kani", "playback", "-Z", "concrete-playback", "--", "kani_concrete_playback_" + harness],
                     cwd=REPO, env={"RITI_VERIF_KANI": K.STAGE, "CARGO_TARGET_DIR": os.path.join(BUILD, "kani_pb")}, timeout=900)
        m = re.search(r"test result: (\w+)\. (\d+) passed; (\d+) failed", out)
        if m and int(m.group(3)) > 0:
            msg = re.search(r"panicked at ([^\n]*)\n([^\n]*)", out)
            what = "%s fails natively on the solver's values: %s" % (harness, (msg.group(2) if msg else "")[:200])
            return dict(key=harness + " natively reproduced", what=what,
                        replay=dict(kani_harness=harness, concrete_vals=r["playback"],
                                    failed_checks=[f["description"] for f in r["failed"]][:5]))
        if m:
            return False
        raise Inconclusive("kani playback of %s did not run: %s" % (harness, out[-1500:]))
    return f


def ffi_cycle_scenarios():
    """Full life cycles through the C interface only (config, context, events, every read-out, frees), both methods, ANSI on and off,
    with texts whose candidate lists contain an empty string, emoticons, an empty suggestion after the last backspace."""
    from obl_assembly import char_keys
    keys = char_keys()
    db = REPO + "/data"
    cfgs = []
    for ansi in (False, True):
        for eng in (False, True):
            cfgs.append(("phonetic list", {"layout": "avro_phonetic", "database": db, "opts": {"phonetic_suggestion": True, "english": eng, "ansi": ansi}}))
            cfgs.append(("fixed list", {"layout": db + "/Probhat.json", "database": db, "opts": {"fixed_suggestion": True, "english": eng, "ansi": ansi, "vowel": True, "kar": True}}))
        cfgs.append(("phonetic single", {"layout": "avro_phonetic", "database": db, "opts": {"phonetic_suggestion": False, "ansi": ansi}}))
        cfgs.append(("fixed single", {"layout": db + "/Probhat.json", "database": db, "opts": {"fixed_suggestion": False, "ansi": ansi}}))
    texts = ["ami", "`", "``", "a`", ":)", "kotha.", "\"k\""]
    # re-configuration in the middle of a life cycle: other options, the other method, the same data directory under another spelling
    alt = {"layout": "avro_phonetic", "database": db + "/../data", "opts": {"phonetic_suggestion": True}}
    alt_fixed = {"layout": db + "/Probhat.json", "database": db, "opts": {"fixed_suggestion": True}}
    tails = [[], [{"backspace": False}] * 7, [{"backspace": True}], [{"commit": 0}], [{"finish": 1}, {"backspace": False}],
             [{"finish": 1}, {"update": alt}, {"key": keys["a"], "sel": 0}, {"finish": 1}, {"update": alt_fixed}, {"key": keys["k"], "sel": 0}]]
    # learning commits: a candidate other than the preselected one, so that the store is saved (twice per cycle: the second commit
    # undoes the first, every cycle starts from the same store)
    learn = [{"commit": 1}] + [{"key": keys[ch], "sel": 0} for ch in "ami"] + [{"commit": 0}]
    scs, meta = [], []
    for label, cfg in cfgs:
        for t in texts:
            if not all(ch in keys for ch in t):
                continue
            for ti, tail in enumerate(tails + ([learn] if (t == "ami" and label == "phonetic list") else [])):
                for late in (False, True, "suggestions first"):
                    if late and ti not in (0, 1):
                        continue
                    ev = [{"key": keys[ch], "sel": 0} for ch in t] + tail
                    scs.append({"steps": [{"op": "ffi_cycle", "config": cfg, "events": ev, "late_free": bool(late), "suggestions_freed_first": late == "suggestions first"}]})
                    meta.append((label, cfg, t, tail, late))
    return scs, meta


def confirm_ffi_cycle(harness):
    """Native confirmation for the C-interface harnesses: life cycles through the exported functions under an allocation-counting
    allocator; a read-out that differs from the Rust value, a panic, or live blocks left after everything was freed confirms."""
    def f(check, r):
        from common import run_replay_parallel
        scs, meta = ffi_cycle_scenarios()
        res = run_replay_parallel(scs)
        for (label, cfg, t, tail, late), sc, rr in zip(meta, scs, res):
            x = rr["results"][0]
            what = None
            if x.get("panic"):
                what = "panics: %s" % x["panic"]
            elif x.get("error"):
                continue
            elif x.get("mismatches"):
                what = x["mismatches"][0]
            elif x.get("net_blocks", 0) != 0 or x.get("net_bytes", 0) != 0:
                what = "%d block(s) / %d byte(s) still allocated after every returned pointer was given to its free function" % (x["net_blocks"], x["net_bytes"])
            if what:
                return dict(key=harness + " natively reproduced",
                            what="C interface life cycle (%s, options %s): typed %r%s%s: %s" % (
                                label, json.dumps(cfg["opts"]), t, (" then %s" % json.dumps(tail)) if tail else "", (", strings read again after their suggestions were freed" if late == "suggestions first" else ", strings freed after the context") if late else "", what),
                            replay=dict(scenario=sc, observed=x, kani_harness=harness, failed_checks=[q["description"] for q in r["failed"]][:5]))
        return False
    return f


def obl_ffi_lifecycle_validation(check):
    """Validation of the C-interface harnesses' model against the real build: the stubbed ownership transfer (CString::from_raw) and the
    tagging encoder stand for the real ones only if real life cycles agree - every read-out equal to the Rust value, zero blocks left."""
    from common import run_replay_parallel
    scs, meta = ffi_cycle_scenarios()
    res = run_replay_parallel(scs)
    strings = 0
    for (label, cfg, t, tail, late), sc, rr in zip(meta, scs, res):
        x = rr["results"][0]
        if x.get("error"):
            check.obligation("ffi_lifecycle_validation", "native validation", "inconclusive", "life cycle did not run: %s" % x["error"])
            return
        strings += x.get("strings", 0)
        what = None
        if x.get("panic"):
            what = "panics: %s" % x["panic"]
        elif x.get("mismatches"):
            what = x["mismatches"][0]
        elif x.get("net_blocks", 0) != 0 or x.get("net_bytes", 0) != 0:
            what = "%d block(s) / %d byte(s) still allocated after every returned pointer was given to its free function" % (x["net_blocks"], x["net_bytes"])
        if what:
            st = check.finding("C interface life cycle", "C interface life cycle (%s, options %s): typed %r%s%s: %s" % (
                label, json.dumps(cfg["opts"]), t, (" then %s" % json.dumps(tail)) if tail else "", (", strings read again after their suggestions were freed" if late == "suggestions first" else ", strings freed after the context") if late else "", what),
                dict(scenario=sc, observed=x))
            check.obligation("ffi_lifecycle_validation", "native validation", st, "a real life cycle contradicts the harness model")
            return
    check.stats["traces_validated"] += len(scs)
    check.obligation("ffi_lifecycle_validation", "native validation", "held",
                     "%d real life cycles through the exported functions (%d strings read, compared and freed; allocation-counting allocator: 0 blocks left)" % (len(scs), strings))


HARNESSES = {
    "k_keycode_total": dict(confirm=confirm_keycode_total, bound="all 2^16 key codes"),
    "k_keycode_table": dict(confirm=confirm_keycode_table, bound="all published keys whose name denotes a character"),
    "k_get_modifiers": dict(confirm=confirm_get_modifiers, bound="all 256 modifier bytes"),
    "k_english_mask": dict(confirm=confirm_english_mask, bound="both flags symbolic"),
    "k_rank_cmp_antisym": dict(confirm=confirm_playback("k_rank_cmp_antisym"), bound="two ranks, all variants x all u8 payloads"),
    "k_rank_cmp_ignores_text": dict(confirm=confirm_playback("k_rank_cmp_ignores_text"), bound="pairs of same-class ranks with different texts, all u8 numbers"),
    "k_rank_sort_stable_4": dict(confirm=confirm_playback("k_rank_sort_stable_4"), bound="4 ranks from the producible domain, real slice::sort"),
    "k_rank_sort_unstable_4": dict(confirm=confirm_playback("k_rank_sort_unstable_4"), bound="4 ranks, real slice::sort_unstable"),
    "k_rank_sort_stable_6": dict(confirm=confirm_playback("k_rank_sort_stable_6"), bound="6 ranks from the producible domain, real slice::sort"),
    "k_rank_sort_unstable_6": dict(confirm=confirm_playback("k_rank_sort_unstable_6"), bound="6 ranks, real slice::sort_unstable"),
    "k_rank_sort_stability": dict(confirm=confirm_playback("k_rank_sort_stability"), bound="4 dictionary ranks with symbolic distances"),
    "k_suggestion_full_accessors": dict(confirm=confirm_accessors, bound="list of 1-2 candidates, symbolic selection/ansi/index; encoder stubbed by a tagging function"),
    "k_suggestion_selection_moved": dict(confirm=confirm_moved_selection, bound="list of 2 candidates, selection at construction and after the move, ansi and index symbolic; encoder stubbed by a tagging function"),
    "k_suggestion_single_accessors": dict(confirm=confirm_accessors, bound="single-string and empty suggestion, symbolic ansi; encoder stubbed"),
    "k_ffi_suggestion_full": dict(confirm=confirm_playback("k_ffi_suggestion_full"), bound="list suggestion with 2 candidates, 2 symbolic non-NUL ASCII bytes, symbolic selection; CBMC pointer checks on"),
    "k_ffi_suggestion_single": dict(confirm=confirm_playback("k_ffi_suggestion_single"), bound="single suggestion, empty or one symbolic byte; pointer checks on"),
    "k_ffi_strings_match_and_are_reclaimed": dict(confirm=confirm_ffi_cycle("k_ffi_strings_match_and_are_reclaimed"),
                                                  bound="list suggestion with 2 candidates (the first empty or not), ANSI on/off, symbolic index; every returned string equals the Rust value and is taken back exactly once by riti_string_free (counting stub of CString::from_raw)"),
    "k_ffi_single_strings_match_and_are_reclaimed": dict(confirm=confirm_ffi_cycle("k_ffi_single_strings_match_and_are_reclaimed"),
                                                         bound="single suggestion (empty or one byte), ANSI on/off; read-outs equal the Rust value and are taken back exactly once"),
    "k_ffi_config": dict(confirm=confirm_playback("k_ffi_config"), bound="config object through all 11 boolean setters, two symbolic flags"),
}


def run(check, names, timeout=900):
    """Run K harnesses as obligations of `check`. Counterexamples are confirmed natively first."""
    domain = rank_domain()
    check.bounds.setdefault("kani", {})
    check.bounds["kani"]["rank_domain"] = {k: domain[k] for k in ("max_emoji_rank", "max_distance")}
    results = K.run_harnesses(names, domain, timeout=timeout)
    for name in names:
        r = results[name]
        K.record(check, name, r)
        check.bounds["kani"][name] = HARNESSES[name]["bound"]
        verdict, why = K.classify(r)
        check.functions["kani:" + name] = "harness in /verif/kani/harness.rs over the compiled crate"
        if verdict == "held":
            check.obligation(name, "kani", "held", why)
            check.sample(dict(kani_harness=name, result="SUCCESSFUL", vars=r["vars"], clauses=r["clauses"]))
            continue
        if verdict == "inconclusive":
            check.obligation(name, "kani", "inconclusive", why)
            continue
        # failed: confirm natively before reporting
        try:
            conf = HARNESSES[name]["confirm"](check, r)
        except Inconclusive as ex:
            check.obligation(name, "kani", "inconclusive", "counterexample could not be replayed: %s" % ex)
            continue
        if conf is None:
            check.obligation(name, "kani", "inconclusive", "Kani reported a failure without concrete values: " + why)
        elif conf is False:
            check.obligation(name, "kani", "inconclusive",
                             "Kani counterexample did not reproduce natively (harness or stub mismatch): " + why)
        else:
            check.stats["traces_validated"] += 1
            st = check.finding(conf["key"], conf["what"], conf["replay"])
            check.obligation(name, "kani", st, conf["what"])
            check.sample(dict(kani_harness=name, counterexample=conf["replay"]))
