"""`check --replay <file>`: re-run a stored counterexample natively and print what happens."""
import json

from common import build_replay, run_replay


def replay_file(path):
    with open(path, encoding="utf-8") as f:
        obj = json.load(f)
    rp = obj.get("replay", {})
    print("property:", obj.get("property"), "| key:", obj.get("key"))
    print("what:", obj.get("what"))
    sc = rp.get("scenario")
    if sc is None:
        print("no native scenario stored (Kani harness counterexample):", json.dumps(rp, ensure_ascii=False)[:2000])
        return 0
    build_replay()
    out = run_replay([sc])[0]
    print(json.dumps(out, ensure_ascii=False, indent=1))
    if "expected" in rp or "predicted" in rp:
        print("expected/predicted:", json.dumps(rp.get("expected", rp.get("predicted")), ensure_ascii=False))
    return 0
