"""Candidate assembly of the phonetic method (PhoneticSuggestion::suggest and below) executed from MIR with the
data sources replaced by oracles (DESIGN 2.3). Serves C03 C05 C07 C08 C09 C11 C16 C17 C18 (+C01/C02 clauses)."""
import itertools
import json
import os

import z3

import classes as CL
import msym
from common import REPO, Inconclusive, run_replay, run_replay_parallel
from fixedlib import OPT_JSON, config_via_setters, mk_config, opts_json, struct_of
from mirsym.interp import PanicPath, PathAbort, Unsupported
from mirsym.models import elems_of
from mirsym.values import (Agg, Opaque, Ref, SMap, SString, SVec, Str, UNIT, bv, deep_copy, is_sym, none, simp, some)
from msym import model_string, model_value
from obl_fixed import seq_eq, zb, zeq, zin
from obl_phonetic import (ALNUM, eval_clauses, mk_phonetic_suggestion, mk_rank, ps_field)

BENGALI_LO, BENGALI_HI = 0x0985, 0x09DF      # oracle strings: letters of the Bengali block (3-byte UTF-8)
EMOJI_LO, EMOJI_HI = 0x1F300, 0x1FAFF


def key_of_elems(elems):
    return tuple(e.get_id() if is_sym(e) else int(e) for e in elems)


class Oracles:
    """Nondeterministic, memoised environment of one path. Every answer is recorded so that a model of the path
    yields a concrete description of the data the path assumed."""

    def __init__(self, st, shape, conv_table=None, concrete=None):
        self.st = st
        self.shape = shape
        self.memo = {}
        self.log = []
        self.n = 0
        self.conv_table = conv_table or {}
        self.concrete = concrete          # dict of concrete data for translator validation, or None
        self.convs = []                   # (arg elems, result elems) for functional consistency
        self.strings = []
        self.keys = {}                    # memo key -> the key's code points (for functional consistency of the tables)

    def fresh(self, prefix):
        self.n += 1
        return "%s%d" % (prefix, self.n)

    def sym_string(self, prefix, length, lo, hi):
        name = self.fresh(prefix)
        r = [self.st.sym_char("%s_%d" % (name, i), lo, hi) for i in range(length)]
        if self.shape.get("distinct") and length > 0 and not prefix.startswith(("stale", "pbuf")):
            # prune: data answers pairwise different (duplicate handling is the business of the obligations that leave this off)
            for other in self.strings:
                if len(other) == length:
                    self.st.assume(z3.Not(seq_eq(other, r)))
            self.strings.append(r)
        return r

    # ---- okkhor ---------------------------------------------------------------
    def conv(self, arg):
        arg = tuple(arg)
        if len(arg) == 0:
            return []
        k = ("conv", key_of_elems(arg))
        if k in self.memo:
            return list(self.memo[k])
        if all(not is_sym(c) for c in arg):
            text = "".join(chr(c) for c in arg)
            if text in self.conv_table:
                r = [ord(ch) for ch in self.conv_table[text]]
                self.memo[k] = r
                return list(r)
            if self.concrete is not None:
                # concrete validation: a text the up-front table did not foresee is converted by the real okkhor now
                try:
                    out = run_replay([{"steps": [{"op": "okkhor", "text": text}]}])[0]["results"][0]["text"]
                except Exception:
                    raise Unsupported("conversion of %r not tabulated" % text)
                self.conv_table[text] = out
                r = [ord(ch) for ch in out]
                self.memo[k] = r
                return list(r)
        if self.concrete is not None:
            raise Unsupported("symbolic conversion in concrete mode")
        L = self.shape.get("conv_len", 1)
        r = self.sym_string("conv", L, BENGALI_LO, BENGALI_HI)
        # a function of its argument: equal arguments give equal results
        for a2, r2 in self.convs:
            if len(a2) == len(arg) and len(r2) == len(r):
                self.st.assume(z3.Implies(seq_eq(list(a2), list(arg)), seq_eq(r2, r)))
        self.convs.append((arg, r))
        self.memo[k] = r
        self.log.append(("conv", arg, r))
        return list(r)

    # ---- finite partial functions ------------------------------------------------
    def lookup(self, name, arg, make_value, allow=True):
        """Memoised optional answer; forks present/absent."""
        k = (name, key_of_elems(arg))
        if k in self.memo:
            return self.memo[k]
        # a table is a function of the key: another look-up whose key may be the same string (other symbols, equal values) forks on that
        for (n2, k2), v2 in list(self.memo.items()):
            if n2 == name and isinstance(k2, tuple) and (n2, k2) in self.keys and len(self.keys[(n2, k2)]) == len(arg) and any(is_sym(c) for c in list(arg) + list(self.keys[(n2, k2)])):
                e = seq_eq(list(self.keys[(n2, k2)]), list(arg))
                if e is False:
                    continue
                if e is True or self.st.branch(e):
                    self.memo[k] = v2
                    self.keys[k] = tuple(arg)
                    return v2
        self.keys[k] = tuple(arg)
        real = self.shape.get("real_tables")
        if real is not None and name in real and all(not is_sym(ch) for ch in arg):
            # concrete argument on a special-term shape: the bundled table answers (an over-approximating oracle would claim
            # that e.g. "'\\'" is an emoticon)
            v = real[name].get("".join(chr(ch) for ch in arg))
            val = None if v is None else make_value(v)
            self.memo[k] = val
            self.log.append((name, tuple(arg), val))
            return val
        if len(arg) == 0 and self.concrete is None:
            # data contract (validated on the bundled files at run time): no table has an empty key
            self.memo[k] = None
            return None
        if self.concrete is not None:
            text = "".join(chr(c) for c in arg)
            v = self.concrete.get(name, {}).get(text)
            val = None if v is None else make_value(v)
            self.memo[k] = val
            return val
        val = None
        if allow:
            b = z3.Bool(self.fresh(name + "_present"))
            if self.st.choose([b, z3.Not(b)]) == 0:
                val = make_value(None)
        self.memo[k] = val
        self.log.append((name, tuple(arg), val))
        return val


def rank_json(prog, model, r):
    names = {v: k for k, v in prog.enums["Rank"].items()}
    kind = names[r.variant]
    text = model_string(model, r.fields[0].elems)
    n = int(model_value(model, r.fields[1])) if len(r.fields) > 1 else 0
    return [kind, text, n]


def assembly_overrides(st, ctx, orc):
    prog = ctx["prog"]
    shape = ctx["shape"]

    def convert(it, args, callee):
        return SString(orc.conv(elems_of(args[1])))

    def convert_into(it, args, callee):
        out = args[2].get()
        out.elems[:] = orc.conv(elems_of(args[1]))
        return UNIT

    def include_from_dictionary(it, args, callee):
        word = elems_of(args[1])
        sugg = args[3].get()
        if orc.concrete is not None:
            for kind, text, n in orc.concrete["dict"].get("".join(chr(c) for c in word), []):
                sugg.items.append(mk_rank(prog, "Other", [ord(ch) for ch in text], n))
            return UNIT
        k = ("dict", key_of_elems(word))
        if k not in orc.memo:
            items = []
            for i in range(shape.get("dict_max", 1) if len(word) > 0 else 0):
                b = z3.Bool(orc.fresh("dict_more"))
                if st.choose([b, z3.Not(b)]) != 0:
                    break
                dd = st.sym_bv(orc.fresh("dd"), 8) if shape.get("dist_mode", "symbolic") == "symbolic" else 10 * (i + 1)
                items.append((orc.sym_string("dw", shape.get("dict_len", 1), BENGALI_LO, BENGALI_HI), dd))
            orc.memo[k] = items
            orc.log.append(("dict", tuple(word), items))
        for w, d in orc.memo[k]:
            sugg.items.append(mk_rank(prog, "Other", w, d))
        return UNIT

    def find_suffix(it, args, callee):
        arg = elems_of(args[1])
        v = orc.lookup("suffix", arg, lambda c: [ord(ch) for ch in c] if c is not None else orc.sym_string("sfx", shape.get("suffix_len", 1), 0x0985, 0x09DF),
                       allow=shape.get("suffixes", True))
        return some(Str(v)) if v is not None else none()

    def search_corrected(it, args, callee):
        arg = elems_of(args[1])
        v = orc.lookup("autocorrect", arg, lambda c: [ord(ch) for ch in c] if c is not None else orc.sym_string("acv", 1, 0x61, 0x7a),
                       allow=shape.get("autocorrect", True))
        return some(Str(v)) if v is not None else none()

    def emoticon(it, args, callee):
        arg = elems_of(args[1])
        v = orc.lookup("emoticon", arg, lambda c: [ord(ch) for ch in c] if c is not None else orc.sym_string("emo", 1, EMOJI_LO, EMOJI_HI),
                       allow=shape.get("emoticons", True))
        return some(Str(v)) if v is not None else none()

    def emoji_by_name(it, args, callee):
        from mirsym.models import ItOwned
        arg = elems_of(args[1])

        def mk(c):
            if c is not None:
                return [[ord(ch) for ch in e] for e in c]
            ems = [orc.sym_string("emj", 1, EMOJI_LO, EMOJI_HI) for _ in range(shape.get("emoji_count", 2))]
            for a in range(len(ems)):
                for b2 in range(a + 1, len(ems)):
                    st.assume(z3.Not(seq_eq(ems[a], ems[b2])))     # table contract: the emoji listed for one name are distinct
            return ems
        v = orc.lookup("emoji_name", arg, mk, allow=shape.get("emoji_names", True))
        return some(ItOwned([Str(e) for e in v])) if v is not None else none()
    def parser_new(it, args, callee):
        return Opaque("Parser")

    # The oracles sit at the boundary of the crate: the bundled tables (hash maps filled by serde) and the emojicon crate. `Data`'s own
    # accessor functions run from MIR, so that a change inside them (another key, another order of look-ups) is executed, not replaced.
    def map_oracle(fn2):
        def oracle(it2, m, key):
            o = fn2(it2, [None, Str(list(key))], "oracle")
            return SString(list(o.fields[0].elems)) if o.variant == 1 else None
        return oracle
    ctx["data_oracles"] = dict(suffix=map_oracle(find_suffix), autocorrect=map_oracle(search_corrected))
    ov = {"Parser::convert": convert, "Parser::convert_into": convert_into, "Parser::new_phonetic": parser_new, "Parser::new_regex": parser_new,
          "PhoneticSuggestion::include_from_dictionary": include_from_dictionary,
          "Emojicon::get_by_emoticon": emoticon, "Emojicon::get_by_name": emoji_by_name, "BengaliEmoji::get": emoji_by_name}
    if not (set(("suffix", "autocorrect", "emojicon", "bengali_emoji")) <= set(prog.structs.get("Data") or [])):
        # another representation of `Data`: fall back to its accessors as the cut points
        ov.update({"Data::find_suffix": find_suffix, "Data::search_corrected": search_corrected, "Data::get_emoji_by_emoticon": emoticon,
                   "Data::get_emoji_by_name": emoji_by_name, "Data::get_emoji_by_bengali": emoji_by_name})
    # for the harness itself (fixing table answers up front)
    ctx["ask"] = {"emoticon": emoticon, "emoji_name": emoji_by_name, "suffix": find_suffix}
    return ov


def mk_assembly_data(prog, st, ctx):
    """`Data` with its tables as oracle-backed maps (see assembly_overrides)."""
    from fixedlib import mk_data
    d = mk_data(prog, st)
    order = prog.structs.get("Data") or []
    orcs = ctx.get("data_oracles")
    if isinstance(d, Agg) and orcs and set(("suffix", "autocorrect", "emojicon", "bengali_emoji")) <= set(order):
        d.fields[order.index("suffix")] = SMap("suffix", [], orcs["suffix"])
        d.fields[order.index("autocorrect")] = SMap("autocorrect", [], orcs["autocorrect"])
    return d


def user_ac_oracle(orc, shape):
    def oracle(it, m, key):
        v = orc.lookup("user_autocorrect", key, lambda c: [ord(ch) for ch in c] if c is not None else orc.sym_string("uacv", 1, 0x61, 0x7a),
                       allow=shape.get("user_autocorrect", True))
        return SString(v) if v is not None else None
    return oracle


def list_of(vec):
    return vec.items if isinstance(vec, SVec) else vec


def rank_text(r):
    return r.fields[0].elems


def run_suggest(it, st, ctx, ps, term, selections, cfg):
    prog = it.p
    fn = prog.find_fn("PhoneticSuggestion", "suggest")
    if "data" not in ctx:
        ctx["data"] = mk_assembly_data(prog, st, ctx)
    ret = it.call_function(fn, [Ref([ps], 0, True), Str(term), Ref([ctx["data"]], 0), Ref([selections], 0, True), Ref([cfg], 0)])
    return ret.fields[0], ret.fields[1]


# ------------------------------------------------------------------------- translator validation on concrete inputs

VALIDATION_TERMS = [":)", ";)", "{a}", "\"", "\"e\"", "a", "ami", "amar", "kotha", "{kotha}", ",ah,,", "sesh", "\"sesh\"", "'sesh'",
                    "bisoyta", "apnader", "school", "academy", "obosthay", "kkhet", "ebong", "computer", "cool", "help", "(a)", "a:", "a.",
                    "kt:`", "kt:", "ami.", "amake", "desher", "gulo", "", "1", "12", "ei", "oi", "bangla", "bhasha", "xD", ":P", "<3", "smile",
                    "sorkar", "sorkarer", "kortechi", "hoy", "hoye", "ache", "achhe", "amra", "tumi", "tomar", "fire", "sun", "sunglasses"]


def char_keys():
    from common import keyname_spec, published_keys
    codes = {n: c for n, c in published_keys()}
    out = {}
    for name, (cp, stem, kind) in keyname_spec().items():
        if cp and kind == "key" and name in codes:
            out[chr(cp)] = codes[name]
    return out


_DATA = {}


def bundled_data():
    if not _DATA:
        _DATA["suffix"] = json.load(open(os.path.join(REPO, "data", "suffix.json"), encoding="utf-8"))
        _DATA["autocorrect"] = json.load(open(os.path.join(REPO, "data", "autocorrect.json"), encoding="utf-8"))
        res = run_replay([{"steps": [{"op": "emoji_tables"}]}])[0]["results"][0]
        _DATA["emoticon"] = res["emoticons"]
        _DATA["emoji_name"] = res["names"]
        _DATA["emoji_bengali"] = res["bengali"]
    return _DATA


def validate_assembly_concrete(check, terms=None, option_sets=None):
    """Push concrete typed texts through the executor (assembly from MIR, data answered from the bundled files /
    the native memo dump) and through the native build; the ranked lists and preselections must be identical."""
    prog, models = msym.load(check)
    from mirsym.interp import Explorer
    terms = [t for t in (terms or VALIDATION_TERMS) if t != ""]
    option_sets = option_sets or [dict(english=False, ansi=False, smart_quote=True), dict(english=True, ansi=False, smart_quote=False),
                                  dict(english=True, ansi=True, smart_quote=True)]
    keys = char_keys()
    data = bundled_data()
    scs = []
    meta = []
    for t in terms:
        if any(ch not in keys for ch in t):
            continue
        for o in option_sets:
            cfg = {"layout": "avro_phonetic", "database": REPO + "/data", "opts": dict(o, phonetic_suggestion=True)}
            steps = [{"op": "new", "config": cfg}] + [{"op": "key", "key": keys[ch], "sel": 0} for ch in t] + [{"op": "get_state"}, {"op": "split", "text": t, "colon": False}]
            scs.append({"steps": steps})
            meta.append((t, o))
    res = run_replay_parallel(scs)
    # second native pass: conversions the executor will ask for
    need = set()
    for (t, o), r in zip(meta, res):
        parts = r["results"][-1]["parts"]
        for p in parts:
            need.add(p)
        w = parts[1]
        for src in (data["autocorrect"],):
            if w in src:
                need.add(src[w])
    need = sorted(x for x in need if x)
    conv = {}
    out = run_replay([{"steps": [{"op": "okkhor", "text": x} for x in need]}])[0]["results"]
    for x, r in zip(need, out):
        conv[x] = r["text"]
    names = {v: k for k, v in prog.enums["Rank"].items()}
    kinds = ["First", "Emoji", "Other", "Last"]
    mismatches = []
    done = 0
    for (t, o), r in zip(meta, res):
        rr = r["results"]
        last = rr[-3]
        if "panic" in last or "suggestion" not in last:
            continue
        state = rr[-2]["state"]
        parts = rr[-1]["parts"]
        word = parts[1]
        native_list = [[kinds[k], text, n if kinds[k] != "First" else 0] for k, text, n in state["suggestions"]]
        native_sel = state["prev_selection"]   # the assembly's own preselection (punctuation keys echo the caller's byte)
        cache = dict(state["cache"])
        own = cache.pop(word, None)
        concrete = dict(suffix=data["suffix"], autocorrect=data["autocorrect"], emoticon=data["emoticon"],
                        emoji_name=data["emoji_name"], user_autocorrect={},
                        dict={word: [x for x in (own or []) if kinds[x[0]] == "Other"]})
        ex = Explorer(prog, models)
        got = {}

        def build(st, it, t=t, o=o, cache=cache, concrete=concrete):
            shape = dict()
            orc = Oracles(st, shape, conv_table=conv, concrete=concrete)
            ctx = dict(prog=prog, shape=shape)
            it.env["overrides"] = assembly_overrides(st, ctx, orc)
            cm = SMap("cache", [[tuple(ord(ch) for ch in k), SVec([mk_rank(prog, kinds[x[0]], [ord(ch) for ch in x[1]], x[2]) for x in v])]
                                for k, v in cache.items()])
            ps = mk_phonetic_suggestion(prog, [], cache=cm, user_autocorrect=SMap("user_autocorrect", [], user_ac_oracle(orc, shape)))
            cfg = config_via_setters(prog, it, st, {"include_english": o["english"], "ansi": o["ansi"], "smart_quote": o["smart_quote"], "phonetic_suggestion": True})
            sel = SMap("selections", [])

            def run():
                return run_suggest(it, st, ctx, ps, [ord(ch) for ch in t], sel, cfg)
            return run

        def on_path(st, it, out):
            # several paths arise only when the crate's Data holds a field this machinery cannot read from the bundled files
            # (then it is unconstrained): the native answer must be among the executor's answers
            if out[0] == "panic":
                got.setdefault("all", []).append(("panic", out[1].message))
                got["panic"] = out[1].message
                return []
            lst, s = out[1]
            m = st.get_model()
            cur = ([rank_json(prog, m, x) for x in lst.items], int(model_value(m, s)))
            got.setdefault("all", []).append(cur)
            norm = [[k, text, n if k != "First" else 0] for k, text, n in cur[0]]
            if "list" not in got or (norm == native_list and cur[1] == native_sel):
                got["list"], got["sel"] = cur
                if norm == native_list and cur[1] == native_sel:
                    got.pop("panic", None)
            return []
        ex.explore(build, on_path)
        done += 1
        if ex.errors:
            mismatches.append((t, o, "executor: " + ex.errors[0][:300]))
            continue
        mine = [[k, text, n if k != "First" else 0] for k, text, n in got.get("list", [])]
        matched = any(e[0] != "panic" and [[k, text, n if k != "First" else 0] for k, text, n in e[0]] == native_list and e[1] == native_sel
                      for e in got.get("all", []))
        if not matched:
            mismatches.append((t, o, "native %s sel %s | executor %s sel %s %s" % (json.dumps(native_list, ensure_ascii=False)[:400], native_sel,
                                                                                   json.dumps(mine, ensure_ascii=False)[:400], got.get("sel"), got.get("panic", ""))))
        for fnm, h in ex.stats.functions.items():
            check.functions[fnm] = h
        check.stats["transitions"] += ex.stats.blocks
    check.stats["traces_validated"] += done - len(mismatches)
    check.extra["assembly_translation_validation"] = dict(concrete_runs=done, agree=done - len(mismatches))
    if mismatches:
        t, o, d = mismatches[0]
        check.obligation("assembly_models_vs_native", "mirsym", "inconclusive",
                         "executor and native build disagree on %d of %d concrete typed texts, e.g. %r %s: %s" % (len(mismatches), done, t, o, d))
        return False
    check.obligation("assembly_models_vs_native", "mirsym", "held",
                     "%d concrete typed texts x option sets: ranked list (text, class, number) and preselection identical to the native build" % done)
    check.sample(dict(obligation="assembly_models_vs_native", term=meta[0][0], options=meta[0][1]))
    return True


# ------------------------------------------------------------------------- symbolic assembly

BENGALI_LO = 0x0981


def ref_join(base, sfx):
    """Reference suffix joining (property C08): -> (silent, [(cond, elems)])"""
    rmc, lmc = base[-1], sfx[0]
    vowel = zin(rmc, [v for v in CL.VOWELS + CL.KARS if v not in CL.RARE])
    kar = zin(lmc, CL.KARS)
    silent = z3.Or(zin(rmc, CL.RARE), zin(lmc, CL.RARE))
    c1 = z3.And(vowel, kar)
    c2 = z3.And(z3.Not(c1), zeq(rmc, CL.KHANDA_TA))
    c3 = z3.And(z3.Not(c1), zeq(rmc, CL.ANUSVARA))
    c4 = z3.Not(z3.Or(c1, c2, c3))
    return silent, [(c1, list(base) + [CL.B_YYA] + list(sfx)), (c2, list(base[:-1]) + [CL.B_T] + list(sfx)),
                    (c3, list(base[:-1]) + [CL.B_NGA] + list(sfx)), (c4, list(base) + list(sfx))]


def ref_quote(elems, closing):
    out = []
    for c in elems:
        if c == 0x27:
            out.append(0x2019 if closing else 0x2018)
        elif c == 0x22:
            out.append(0x201D if closing else 0x201C)
        else:
            out.append(c)
    return out


def uncurl(elems):
    m = {0x2018: 0x27, 0x2019: 0x27, 0x201C: 0x22, 0x201D: 0x22}
    out = []
    for c in elems:
        if is_sym(c):
            e = c
            for k, v in m.items():
                e = z3.If(c == k, z3.BitVecVal(v, 32), e)
            out.append(e)
        else:
            out.append(m.get(c, c))
    return out


def texts_equal_any(texts, target):
    return z3.Or([seq_eq(t, target) for t in texts]) if texts else z3.BoolVal(False)


def count_equal(texts, target):
    return z3.Sum([z3.If(seq_eq(t, target), 1, 0) for t in texts]) if texts else z3.IntVal(0)


def make_suggest(shape):
    """suggest() (and optionally a second run / a commit round trip) from MIR with oracles."""
    pre = [ord(c) for c in shape.get("pre", "")]
    trail = [ord(c) for c in shape.get("trail", "")]
    wlen = shape["wlen"]
    if wlen == 0:
        pre, trail = pre + trail, []        # without a word the whole text is leading punctuation
    conv_table = shape["conv_table"]
    mode = shape.get("mode", "single")        # single | quote_pair | warm_pair | learn | reload

    def build(st, it):
        prog = it.p
        orc = Oracles(st, shape, conv_table=conv_table)
        ctx = dict(prog=prog, shape=shape, orc=orc)
        it.env["overrides"] = assembly_overrides(st, ctx, orc)
        if shape.get("term") is not None:
            word = None
            term = [ord(c) for c in shape["term"]]
        else:
            word = [st.sym_char("w%d" % i, 0x2d if shape.get("inner_marks") else 0x30, 0x7a) for i in range(wlen)]
            for i, c in enumerate(word):
                # inside a word a hyphen or an underscore is part of the word (emoji names such as `t-rex`)
                st.assume(zin(c, ALNUM + ([0x2d, 0x5f] if shape.get("inner_marks") and 0 < i < wlen - 1 else [])))
            term = pre + word + trail
        # memo pre-state: every proper prefix of the word was the word earlier (stack discipline of the typed text)
        cache_entries = []
        base_items = {}
        if word is not None:
            for i in range(1, shape.get("pair_base", wlen)):
                items = []
                for j in range(shape.get("prefix_items", 1)):
                    kind = shape.get("prefix_kind", "Other")
                    txt = orc.sym_string("base", shape.get("base_len", 1), BENGALI_LO, 0x09DF)
                    if j == 0 and shape.get("first_base_may_be_empty"):
                        # an auto-correct entry whose expansion converts to nothing sits in the memo entry as an empty candidate
                        eb = z3.Bool(orc.fresh("base_empty"))
                        if st.choose([eb, z3.Not(eb)]) == 0:
                            txt = []
                    bd = st.sym_bv(orc.fresh("based"), 8) if shape.get("dist_mode", "symbolic") == "symbolic" else 10 * (i + j)
                    items.append(mk_rank(prog, kind, txt, bd) if kind != "First" else mk_rank(prog, "First", txt))
                base_items[i] = items
                cache_entries.append([tuple(word[:i]), SVec(items)])
        cache = SMap("cache", cache_entries)
        if shape.get("memo_extra"):
            # a context that has composed any number of other words: the memo holds that many entries this run never names
            others = st.sym_bv("memo_other_entries", 64)
            st.assume(z3.ULT(others, 1 << 32))
            cache.extra = others
        stale = [mk_rank(prog, "Other", orc.sym_string("stale", 1, 0x20, 0x9FF), st.sym_bv(orc.fresh("staled"), 8))] if shape.get("stale_scratch", True) else []
        ps = mk_phonetic_suggestion(prog, stale, cache=cache, user_autocorrect=SMap("user_autocorrect", [], user_ac_oracle(orc, shape)),
                                    pbuffer=orc.sym_string("pbuf", 1, 0x20, 0x9FF) if shape.get("stale_scratch", True) else ())
        fixed = {"phonetic_suggestion": True}
        fixed.update(shape.get("fixed", {}))
        cfg, opts = mk_config(prog, st, fixed)

        def learned_value(c):
            if shape.get("learned_kind") == "anything_once_offered" and word is not None:
                # what an earlier commit (possibly under other options) can have stored for this word: a Bengali candidate, the first emoji
                # of the word's name, or the raw typed word
                em = orc.memo.get(("emoji_name", key_of_elems(word)))
                alts = ["bengali", "raw"] + (["emoji"] if em else [])
                n = orc.fresh("learned_kind")
                k = st.choose([z3.Int(n) == i for i in range(len(alts))])
                if alts[k] == "raw":
                    return list(word)
                if alts[k] == "emoji":
                    return list(em[0])
            return orc.sym_string("learned", shape.get("learned_len", 1), BENGALI_LO, 0x09DF)

        def sel_oracle(it2, m, key):
            v = orc.lookup("selection", key, learned_value, allow=shape.get("selections", True))
            return SString(v) if v is not None else None
        selections = SMap("selections", [], sel_oracle)
        ctx.update(word=word, term=term, ps=ps, cfg=cfg, opts=opts, selections=selections, base_items=base_items, cache=cache, pre=pre, trail=trail)
        st.ctx = ctx
        if word is not None and wlen > 2 and shape.get("suffixes", True) and mode in ("single", "suffix_pair"):
            # the table's answers for the tails of the word exactly as typed are fixed up front: the clauses speak about them whatever key the
            # code asks the table for
            for i in range(1, wlen):
                ctx["ask"]["suffix"](it, [None, Str(list(word[i:]))], "pre")
        if shape.get("preselect_base") and word is not None:
            # the suffix table's answers for the tails and the learned choices of the word and of its proper prefixes are fixed up front: the
            # clause speaks about them whether or not the code asks
            for i in range(1, wlen):
                ctx["ask"]["suffix"](it, [None, Str(list(word[i:]))], "pre")
            sel_oracle(it, None, list(word))
            for i in range(1, wlen):
                sel_oracle(it, None, list(word[:i]))
        if shape.get("preconsult_emoji"):
            # fix the table answers for the whole text and for the word part up front: the clauses then speak about both, whichever the code asks first
            ctx["ask"]["emoticon"](it, [None, Str(term)], "pre")
            if word is not None and len(word) > 0:
                ctx["ask"]["emoji_name"](it, [None, Str(word)], "pre")

        def run():
            res = {}
            if mode == "suffix_pair":
                # the base alone first (what it is offered is what must come back joined), then the whole word on the same object
                b0 = run_suggest(it, st, ctx, ps, list(word[:shape["pair_base"]]), selections, cfg)
                res["base_list"] = [deep_copy(x) for x in b0[0].items]
            res["first"] = run_suggest(it, st, ctx, ps, term, selections, cfg)
            res["first_list"] = [deep_copy(x) for x in res["first"][0].items]
            if mode == "quote_pair":
                # same text, same oracles, smart quotes flipped
                idx = prog.structs["Config"].index("smart_quote")
                cfg2 = deep_copy(cfg)
                q = cfg.fields[idx]
                cfg2.fields[idx] = simp(z3.Not(q)) if is_sym(q) else (not q)
                ps2 = mk_phonetic_suggestion(prog, [], cache=deep_copy(cache0), user_autocorrect=ps_field(prog, ps, "user_autocorrect"))
                res["second"] = run_suggest(it, st, ctx, ps2, term, selections, cfg2)
            if mode == "warm_pair":
                # a context that has already composed this and other words: memo holds the word's own entry, scratch arbitrary
                res["second"] = run_suggest(it, st, ctx, ps, term, selections, cfg)
                # and a pristine object, as the crate's own constructor makes it (every field - also one this machinery does not know -
                # at its initial value), with the memo a new context has after typing this text key by key
                try:
                    ps3 = it.call_function(prog.find_fn("PhoneticSuggestion", "new"), [ps_field(prog, ps, "user_autocorrect")])
                    c3 = deep_copy(cache0)
                    c3.extra = None            # the new context has composed nothing else
                    ps3.fields[prog.structs["PhoneticSuggestion"].index("cache")] = c3
                    res["pristine"] = run_suggest(it, st, ctx, ps3, term, selections, cfg)
                except Unsupported as ex:
                    ctx["pristine_refused"] = str(ex)
            if mode == "reconfig_pair":
                # the same object after the front end changed options (update_engine keeps the method object when the layout stays): the second
                # configuration's English / ANSI / smart-quote switches are independent symbols; against a pristine object under that configuration
                cfg2, opts2 = mk_config(prog, st, dict({"phonetic_suggestion": True}, **shape.get("fixed2", {})), tag="opt2_")
                ctx["opts2"] = opts2
                res["second"] = run_suggest(it, st, ctx, ps, term, selections, cfg2)
                ps3 = it.call_function(prog.find_fn("PhoneticSuggestion", "new"), [ps_field(prog, ps, "user_autocorrect")])
                ps3.fields[prog.structs["PhoneticSuggestion"].index("cache")] = deep_copy(cache0)
                res["pristine"] = run_suggest(it, st, ctx, ps3, term, selections, cfg2)
            if mode == "learn":
                res.update(learn_roundtrip(it, st, ctx, res["first"]))
            return res
        cache0 = deep_copy(cache)
        ctx["cache0"] = cache0
        return run

    def on_path(st, it, out):
        prog = it.p
        c = st.ctx
        model = st.get_model()

        def inputs(m):
            orc = c["orc"]
            d = dict(term=model_string(m, c["term"]), opts=opts_json(m, c["opts"]), mode=mode, oracle_answers=[])
            if "opts2" in c:
                d["opts_after_update"] = opts_json(m, c["opts2"])
            for e in orc.log[:40]:
                name = e[0]
                arg = model_string(m, e[1])
                if name == "dict":
                    d["oracle_answers"].append(["dict", arg, [[model_string(m, w), int(model_value(m, dd))] for w, dd in e[2]]])
                elif name == "conv":
                    d["oracle_answers"].append(["conv", arg, model_string(m, e[2])])
                else:
                    v = e[2]
                    if v is not None and v and isinstance(v[0], list):
                        v = [model_string(m, x) for x in v]
                    elif v is not None:
                        v = model_string(m, v)
                    d["oracle_answers"].append([name, arg, v])
            return d

        def pred(m):
            if out[0] == "panic":
                return dict(panic=out[1].message)
            lst, s = out[1]["first"]
            d = dict(list=[rank_json(prog, m, x) for x in lst.items], sel=int(model_value(m, s)))
            if "commit_index" in out[1]:
                d["commit_index"] = int(model_value(m, out[1]["commit_index"]))
                l2, s2 = out[1]["again"]
                d["again"] = dict(list=[rank_json(prog, m, x) for x in l2.items], sel=int(model_value(m, s2)))
                d["stored"] = [[model_string(m, k), model_string(m, v.elems)] for k, v in c["selections"].entries]
            if "second" in out[1]:
                l2, s2 = out[1]["second"]
                d["second"] = dict(list=[rank_json(prog, m, x) for x in l2.items], sel=int(model_value(m, s2)))
            return d
        recs = []
        if out[0] == "panic":
            recs.append(dict(kind="violation", clause="no_panic", inputs=inputs(model), predicted=pred(model)))
            return recs
        clauses = suggest_clauses(st, it, c, out[1], mode)
        return recs + eval_clauses(st, clauses, lambda cn, m: dict(kind="violation", clause=cn, inputs=inputs(m), predicted=pred(m)))
    return build, on_path


def learn_roundtrip(it, st, ctx, first):
    """Commit a candidate other than the preselected one through PhoneticMethod::candidate_committed (from MIR),
    then ask for the same text again."""
    prog = it.p
    from obl_phonetic import mk_phonetic_method, pm_field, glue_overrides
    lst, s = first
    idx = st.sym_bv("commit_index", 64)
    st.assume(z3.ULT(idx, len(lst.items)))
    st.assume(idx != bv(s, 64))
    st.require_feasible()
    # a choice learned earlier for a longer word (key = this word + one more letter): a commit for this word must leave it alone
    if ctx.get("word") is not None and len(ctx["word"]) > 0 and not ctx["shape"].get("no_extra_entry"):
        ek = list(ctx["word"]) + [st.sym_char("extra_key", 0x61, 0x7a)]
        ev = [st.sym_char("extra_val%d" % i, BENGALI_LO, 0x09DF) for i in range(2)]
        ctx["selections"].entries.append([tuple(ek), SString(ev)])
        ctx["extra_entry"] = (ek, ev)
    pm = mk_phonetic_method(prog, ctx["term"], ctx["ps"], ctx["selections"], s)
    ov = dict(it.env["overrides"])
    g = glue_overrides(st, ctx, 1)
    for k in ("serde_json::to_string", "fs::write", "Config::get_user_phonetic_selection_data", "Config::get_user_phonetic_autocorrect"):
        ov[k] = g[k]
    it.env["overrides"] = ov
    it._ov_cache = {}
    fn = prog.find_trait_fn("PhoneticMethod", "Method", "candidate_committed")
    it.call_function(fn, [Ref([pm], 0, True), idx, Ref([ctx["cfg"]], 0)])
    again = run_suggest(it, st, ctx, ctx["ps"], ctx["term"], ctx["selections"], ctx["cfg"])
    return dict(commit_index=idx, again=again, writes=ctx.get("writes", 0))


def suggest_clauses(st, it, c, res, mode):
    prog = it.p
    orc = c["orc"]
    shape = c["shape"]
    opts = c["opts"]
    lst, sel = res["first"]
    items = lst.items
    texts = [rank_text(x) for x in items]
    V = prog.enums["Rank"]
    clauses = []
    ansi = zb(opts["ansi"])
    english = z3.And(zb(opts["include_english"]), z3.Not(ansi))
    quote = zb(opts["smart_quote"])
    term = c["term"]
    word = c["word"]
    L = len(items)
    # ---- C02
    clauses.append(("list_not_empty", L >= 1))
    clauses.append(("preselection_inside_list", z3.ULT(bv(sel, 64), L) if is_sym(sel) else sel < L))
    # ---- split used by the code (reference = leading/trailing punctuation of the concrete wrappers)
    if word is not None:
        wl = len(word)
        convw = orc.memo.get(("conv", key_of_elems(word))) if wl else []
        cpre = orc.conv(c["pre"]) if c["pre"] else []
        ctrail = orc.conv(c["trail"]) if c["trail"] else []
        if wl > 0:
            qpre_on, qtrail_on = ref_quote(cpre, False), ref_quote(ctrail, True)
        else:
            qpre_on, qtrail_on = cpre, ctrail
        # ---- C03: the transliteration is always a candidate
        if convw is None and wl > 0 and not shape.get("concrete_only"):
            # the code never converted the word as typed (it converted something else, or nothing): the transliteration of the typed word is
            # still what must be offered - whatever the converter answers for it
            convw = orc.conv(word)
        if convw is not None:
            tr_on = qpre_on + list(convw) + qtrail_on
            tr_off = cpre + list(convw) + ctrail
            clauses.append(("transliteration_is_a_candidate",
                            z3.If(quote, texts_equal_any(texts, tr_on), texts_equal_any(texts, tr_off))))
            clauses.append(("cover:transliteration", True))
    # ---- C03 on concrete special texts: the split is the native one, the conversions the real okkhor's
    if word is None and shape.get("parts"):
        p0, w0, t0 = [[ord(ch) for ch in x] for x in shape["parts"]]
        cv = lambda x: [ord(ch) for ch in shape["conv_table"].get("".join(chr(k) for k in x), "")] if x else []
        if all(("".join(chr(k) for k in x) in shape["conv_table"]) or not x for x in (p0, w0, t0)):
            cp, cw, ctr = cv(p0), cv(w0), cv(t0)
            on = (ref_quote(cp, False) + cw + ref_quote(ctr, True)) if w0 else (cp + cw + ctr)
            clauses.append(("transliteration_is_a_candidate", z3.If(quote, texts_equal_any(texts, on), texts_equal_any(texts, cp + cw + ctr))))
            clauses.append(("cover:transliteration", True))
    # ---- C07: the auto-correct entry of the typed word (user entry before bundled entry) is first
    if word is not None and len(word) > 0 and mode == "single":
        uk = orc.memo.get(("user_autocorrect", key_of_elems(word)))
        bk = orc.memo.get(("autocorrect", key_of_elems(word)))
        entry = uk if uk is not None else bk
        # only when the word's own memo entry was computed on this path (not planted)
        if entry is not None and not any(len(k) == len(word) and all(a is b2 for a, b2 in zip(k, word)) for k, _ in c["cache0"].entries):
            ce = orc.memo.get(("conv", key_of_elems(entry)))
            if ce is not None and L >= 1:
                won, woff = qpre_on + list(ce) + qtrail_on, cpre + list(ce) + ctrail
                clauses.append(("autocorrect_entry_is_first", z3.And(z3.BoolVal(items[0].variant == V["First"]),
                                                                    z3.If(quote, seq_eq(texts[0], won), seq_eq(texts[0], woff)))))
                clauses.append(("cover:autocorrect_first", True))
            else:
                clauses.append(("autocorrect_entry_is_first", False))
    # ---- C07 ordering on the returned list
    def cls(x):
        return x.variant

    def num(x):
        return x.fields[1] if len(x.fields) > 1 else 0
    order = []
    for i in range(L):
        for j in range(i + 1, L):
            a, b = items[i], items[j]
            if cls(b) == V["First"] and cls(a) != V["First"]:
                order.append(z3.BoolVal(False))
            if cls(a) == V["Other"] and cls(b) == V["Other"]:
                order.append(z3.ULE(bv(num(a), 8), bv(num(b), 8)))
            if cls(a) == V["Last"] and cls(b) in (V["Other"], V["Emoji"]):
                order.append(z3.BoolVal(False))
            if cls(a) == V["Last"] and cls(b) == V["Last"]:
                order.append(z3.ULE(bv(num(a), 8), bv(num(b), 8)))
            if cls(a) == V["Emoji"] and cls(b) == V["Other"]:
                order.append(bv(num(b), 8) != 0)
    clauses.append(("ranked_best_first", z3.And(order) if order else True))
    # raw English text last when on; never with ANSI
    raw = [i for i, x in enumerate(items) if cls(x) == V["Last"] and not is_sym(num(x)) and num(x) == 3]
    clauses.append(("english_candidate_only_when_enabled_and_not_ansi", z3.Implies(z3.Not(english), z3.BoolVal(len(raw) == 0))))
    if raw:
        clauses.append(("english_candidate_is_last_and_is_the_typed_text", z3.And(z3.BoolVal(raw == [L - 1]), seq_eq(texts[raw[0]], term))))
    # no candidate text twice
    dist = [z3.Not(seq_eq(texts[i], texts[j])) for i in range(L) for j in range(i + 1, L)]
    clauses.append(("no_candidate_twice", z3.And(dist) if dist else True))
    # ---- C16: ANSI never offers emoji / raw text
    emo = [i for i, x in enumerate(items) if cls(x) == V["Emoji"]]
    lit = [i for i, x in enumerate(items) if cls(x) == V["Last"] and not is_sym(num(x)) and num(x) == 1]
    clauses.append(("ansi_offers_no_emoji_or_raw_text", z3.Implies(ansi, z3.BoolVal(len(emo) == 0 and len(lit) == 0 and len(raw) == 0))))
    # ... whatever class it carries, no candidate IS the typed text (unless the typed text is its own transliteration) or an emoji of the tables
    if word is not None and len(word) > 0:
        cw0 = orc.memo.get(("conv", key_of_elems(word)))
        raw_differs0 = z3.Not(seq_eq(list(cw0), list(word))) if cw0 is not None and len(cw0) == len(word) else z3.BoolVal(True)
        banned0 = [list(e) for e in (orc.memo.get(("emoji_name", key_of_elems(word))) or [])]
        ek0 = orc.memo.get(("emoticon", key_of_elems(term)))
        hits0 = [texts_equal_any(texts, cpre + b0 + ctrail) for b0 in banned0] + [z3.And(raw_differs0, texts_equal_any(texts, list(term)))]
        if ek0:
            hits0.append(texts_equal_any(texts, list(ek0)))
        clauses.append(("ansi_offers_nothing_it_cannot_encode", z3.Implies(ansi, z3.Not(z3.Or(hits0)))))
    # ---- C18: emoticon / emoji names
    ek = ("emoticon", key_of_elems(term))
    if ek in orc.memo and orc.memo[ek] is not None:
        e = orc.memo[ek]
        clauses.append(("emoticon_offers_its_emoji_and_keeps_the_literal_text",
                        z3.Implies(z3.Not(ansi), z3.And(texts_equal_any(texts, e), count_equal(texts, term) >= 1))))
        clauses.append(("cover:emoticon", z3.Not(ansi)))
    elif word is not None and len(word) > 0:
        nk = ("emoji_name", key_of_elems(word))
        if nk in orc.memo and orc.memo[nk] is not None:
            ems = orc.memo[nk]
            wrapped = [(qpre_on + list(e) + qtrail_on, cpre + list(e) + ctrail) for e in ems]
            # all present, in table order
            pos_terms = []
            for k, (won, woff) in enumerate(wrapped):
                pos_terms.append(z3.If(quote, texts_equal_any(texts, won), texts_equal_any(texts, woff)))
            inorder = []
            positions = [i for i in emo]
            if len(positions) == len(wrapped):
                for k, (won, woff) in enumerate(wrapped):
                    inorder.append(z3.If(quote, seq_eq(texts[positions[k]], won), seq_eq(texts[positions[k]], woff)))
            else:
                inorder.append(z3.BoolVal(False))
            clauses.append(("emoji_name_offers_all_its_emoji_in_table_order_wrapped", z3.Implies(z3.Not(ansi), z3.And(pos_terms + inorder))))
            clauses.append(("cover:emoji_name", z3.Not(ansi)))
    # ---- C08: suffix forms complete and justified
    if word is not None and len(word) > 2 and shape.get("suffixes", True):
        direct = c["cache"].entries
        own = None
        for k, v in direct:
            if len(k) == len(word) and all((a is b) or (not is_sym(a) and not is_sym(b) and a == b) for a, b in zip(k, word)):
                own = v
        complete = []
        just = {i: [] for i in range(L)}       # per list item: (it is this dictionary-derived form, it carries that form's distance)
        own_hits = orc.memo.get(("dict", key_of_elems(word))) or []
        for w2, d2 in own_hits:
            won, woff = qpre_on + list(w2) + qtrail_on, cpre + list(w2) + ctrail
            for i2, x in enumerate(items):
                if cls(x) == V["Other"]:
                    just[i2].append((z3.If(quote, seq_eq(texts[i2], won), seq_eq(texts[i2], woff)), simp(bv(num(x), 8) == bv(d2, 8))))
        for i in range(1, len(word)):
            sk = ("suffix", key_of_elems(word[i:]))
            sfx = orc.memo.get(sk)
            if sfx is None:
                continue
            for base in c["base_items"].get(i, []):
                if len(rank_text(base)) == 0 or len(sfx) == 0:
                    continue        # nothing to join (empty stored string): only panic-freedom is asserted there
                silent, cases = ref_join(rank_text(base), sfx)
                for cond, joined in cases:
                    won, woff = qpre_on + joined + qtrail_on, cpre + joined + ctrail
                    present = z3.If(quote, texts_equal_any(texts, won), texts_equal_any(texts, woff))
                    complete.append(z3.Implies(z3.And(z3.Not(silent), cond), present))
                    if cls(base) == V["Other"]:
                        for i2, x in enumerate(items):
                            if cls(x) == V["Other"]:
                                just[i2].append((z3.And(z3.Not(silent), cond, z3.If(quote, seq_eq(texts[i2], won), seq_eq(texts[i2], woff))),
                                                 simp(bv(num(x), 8) == bv(num(base), 8))))
                clauses.append(("cover:suffix_join", z3.Not(silent)))
        clauses.append(("suffix_forms_complete", z3.And(complete) if complete else True))
        # ... and justified: every auto-correct / dictionary-class candidate is the word's own auto-correct entry, one of its own dictionary
        # words, or a memoised candidate of a proper prefix joined to the form of the remaining part - that part being a suffix the table knows
        planted_own = any(len(k) == len(word) and all((a is b) or (not is_sym(a) and not is_sym(b) and a == b) for a, b in zip(k, word)) for k, _ in c["cache0"].entries)
        if mode == "single" and not planted_own:
            srcs = []
            for w2, d2 in own_hits:
                srcs.append((z3.BoolVal(True), list(w2)))
            for nm in ("user_autocorrect", "autocorrect"):
                en = orc.memo.get((nm, key_of_elems(word)))
                if en is not None:
                    ce = orc.memo.get(("conv", key_of_elems(en)))
                    if ce is not None:
                        srcs.append((z3.BoolVal(True), list(ce)))
            for i in range(1, len(word)):
                sfx = orc.memo.get(("suffix", key_of_elems(word[i:])))
                if sfx is None or len(sfx) == 0:
                    continue
                for base in c["base_items"].get(i, []):
                    if len(rank_text(base)) == 0:
                        continue
                    silent, cases = ref_join(rank_text(base), sfx)
                    for cond, joined in cases:
                        srcs.append((z3.Or(silent, cond), joined))
            just2 = []
            for i2, x in enumerate(items):
                if cls(x) not in (V["First"], V["Other"]):
                    continue
                alts = [z3.And(cnd, z3.If(quote, seq_eq(texts[i2], qpre_on + t_ + qtrail_on), seq_eq(texts[i2], cpre + t_ + ctrail))) for cnd, t_ in srcs]
                just2.append(z3.Or(alts) if alts else z3.BoolVal(False))
            clauses.append(("candidates_are_justified", z3.And(just2) if just2 else True))
        # a suffix-built word inherits the distance of its base, a dictionary word carries its own: the number the sort sees is that distance
        carry = []
        for i2, alts in just.items():
            if alts:
                carry.append(z3.Implies(z3.Or([m_ for m_, _ in alts]), z3.Or([z3.And(m_, e_) for m_, e_ in alts])))
        clauses.append(("dictionary_candidates_carry_their_distance", z3.And(carry) if carry else True))
    # ---- C09: a word without a learned choice of its own, read as a word with a learned choice followed by a known suffix (one such reading):
    # the joined form is preselected whenever it is offered
    if shape.get("preselect_base") and word is not None and mode == "single":
        own_choice = orc.memo.get(("selection", key_of_elems(word)))
        readings = []
        for i in range(1, len(word)):
            sfx = orc.memo.get(("suffix", key_of_elems(word[i:])))
            lb = orc.memo.get(("selection", key_of_elems(word[:i])))
            if sfx is not None and lb is not None and len(sfx) > 0 and len(lb) > 0:
                readings.append((list(lb), list(sfx)))
        if own_choice is None and len(readings) >= 1:
            # the joined form of every reading, as a case split over the joining rule that applies to it
            silents, offered_all, sel_is_one = [], [], []
            for lb, sfx in readings:
                silent, cases = ref_join(lb, sfx)
                silents.append(silent)
                offered_all.append(z3.Or([z3.And(cond, texts_equal_any(texts, cpre + joined + ctrail)) for cond, joined in cases]))
                for cond, joined in cases:
                    want = cpre + joined + ctrail
                    for j in range(L):
                        firstj = z3.And([seq_eq(texts[j], want)] + [z3.Not(seq_eq(texts[k], want)) for k in range(j)])
                        sel_is_one.append(z3.And(cond, firstj, bv(sel, 64) == j))
            quiet = z3.Or(silents + [quote])
            # one reading: its joined form is preselected whenever offered; several: one of them is, when all of them are offered
            clauses.append(("learned_base_choice_selects_the_joined_candidate", z3.Implies(z3.And(z3.Not(quiet), z3.And(offered_all)), z3.Or(sel_is_one))))
            clauses.append(("cover:base_choice_joined", z3.And(z3.Not(quiet), z3.And(offered_all))))
            if len(readings) > 1:
                clauses.append(("cover:two_readings", z3.And(z3.Not(quiet), z3.And(offered_all))))
    # ---- C08, as the property words it: every direct candidate OFFERED for the base alone comes back joined when base + known suffix is typed
    if mode == "suffix_pair" and word is not None:
        b = shape["pair_base"]
        sfx = orc.memo.get(("suffix", key_of_elems(word[b:])))
        back = []
        if sfx is not None and len(sfx) > 0:
            for x in res["base_list"]:
                if cls(x) not in (V["First"], V["Other"]) or len(rank_text(x)) == 0:
                    continue
                silent, cases = ref_join(rank_text(x), sfx)
                for cond, joined in cases:
                    won, woff = qpre_on + joined + qtrail_on, cpre + joined + ctrail
                    back.append(z3.Implies(z3.And(z3.Not(silent), cond), z3.If(quote, texts_equal_any(texts, won), texts_equal_any(texts, woff))))
                clauses.append(("cover:base_then_suffix", z3.Not(silent)))
        clauses.append(("candidates_of_the_base_come_back_joined", z3.And(back) if back else True))
    # ---- C05/C08: the memo entry written for the word holds its direct candidates only (what the suffix joining of longer words relies on)
    if word is not None and len(word) > 0 and mode == "single":
        def same_key(k1, k2):
            return len(k1) == len(k2) and all((a is b2) or (not is_sym(a) and not is_sym(b2) and a == b2) for a, b2 in zip(k1, k2))
        ent = None
        planted = any(same_key(k, word) for k, _ in c["cache0"].entries)
        fresh_entries = [(k, v2) for k, v2 in c["cache"].entries if not any(same_key(k, k0) for k0, _ in c["cache0"].entries)]
        # the memo gains at most the word's own entry, under the word exactly as typed (two different words never share an entry)
        if planted:
            clauses.append(("memo_entry_is_keyed_by_the_word", len(fresh_entries) == 0))
        else:
            if len(fresh_entries) == 1 and len(fresh_entries[0][0]) == len(word):
                clauses.append(("memo_entry_is_keyed_by_the_word", seq_eq(list(fresh_entries[0][0]), list(word))))
                ent = fresh_entries[0][1]
            else:
                clauses.append(("memo_entry_is_keyed_by_the_word", False))
        if ent is not None and not planted:
            dk2 = orc.memo.get(("dict", key_of_elems(word)), [])
            uk2 = orc.memo.get(("user_autocorrect", key_of_elems(word)))
            bk2 = orc.memo.get(("autocorrect", key_of_elems(word)))
            en2 = uk2 if uk2 is not None else bk2
            want = []
            if en2 is not None:
                ce2 = orc.memo.get(("conv", key_of_elems(en2)))
                want.append(list(ce2) if ce2 is not None else None)
            want += [list(w2) for w2, d2 in dk2]
            got = [rank_text(x) for x in ent.items]
            if None in want or len(got) != len(want):
                clauses.append(("memo_entry_holds_direct_candidates_only", z3.BoolVal(None not in want and len(got) == len(want))))
            else:
                clauses.append(("memo_entry_holds_direct_candidates_only", z3.And([seq_eq(a, b2) for a, b2 in zip(got, want)]) if got else True))
    # ---- C09 learn round trip
    if mode == "learn":
        idx = res["commit_index"]
        lst2, sel2 = res["again"]
        t2 = [rank_text(x) for x in lst2.items]
        # the committed candidate's text
        alts = []
        for i, t in enumerate(texts):
            first_pos = z3.And([z3.Not(seq_eq(t2[j], t)) for j in range(min(len(t2), L)) if j < len(t2) and False] or [z3.BoolVal(True)])
            ok_i = z3.Or([z3.And(bv(sel2, 64) == j, seq_eq(t2[j], t)) for j in range(len(t2))]) if t2 else z3.BoolVal(False)
            alts.append(z3.Implies(idx == i, ok_i))
        silent_learn = z3.BoolVal(False)
        clauses.append(("learned_choice_is_preselected_next_time", z3.And(alts)))
        if c.get("extra_entry"):
            ek, ev = c["extra_entry"]
            kept = [z3.And(seq_eq(list(k), ek), seq_eq(v2.elems, ev)) for k, v2 in c["selections"].entries if len(k) == len(ek) and len(v2.elems) == len(ev)]
            clauses.append(("other_learned_entries_survive_a_commit", z3.Or(kept) if kept else False))
        clauses.append(("cover:learn", True))
    # ---- C11 / C16 / C18: an option change takes effect at once, whatever the object has memoised under the old options
    if mode == "reconfig_pair":
        lst2, sel2 = res["second"]
        lst3, sel3 = res["pristine"]
        t2 = [rank_text(x) for x in lst2.items]
        t3 = [rank_text(x) for x in lst3.items]
        same = z3.And([seq_eq(a, b) for a, b in zip(t2, t3)]) if len(t2) == len(t3) else z3.BoolVal(False)
        clauses.append(("preselection_inside_list", z3.ULT(bv(sel2, 64), len(lst2.items)) if is_sym(sel2) else sel2 < len(lst2.items)))
        clauses.append(("list_not_empty", len(lst2.items) >= 1))
        clauses.append(("reconfigured_context_gives_the_list_of_a_new_one", same))
        clauses.append(("reconfigured_context_gives_the_preselection_of_a_new_one", simp(bv(sel2, 64) == bv(sel3, 64))))
        ansi2 = zb(c["opts2"]["ansi"])
        emo2 = [i for i, x in enumerate(lst2.items) if cls(x) == V["Emoji"]]
        raw2 = [i for i, x in enumerate(lst2.items) if cls(x) == V["Last"] and not is_sym(num(x)) and num(x) in (1, 3)]
        clauses.append(("ansi_offers_no_emoji_or_raw_text", z3.Implies(ansi2, z3.BoolVal(len(emo2) == 0 and len(raw2) == 0))))
        # ... whatever class the item carries: no candidate IS an emoji of the word's name or the raw typed word
        if word is not None and len(word) > 0:
            banned = [list(e) for e in (orc.memo.get(("emoji_name", key_of_elems(word))) or [])]
            cw = orc.memo.get(("conv", key_of_elems(word)))
            raw_differs = z3.Not(seq_eq(list(cw), list(word))) if cw is not None and len(cw) == len(word) else z3.BoolVal(True)
            hits = [texts_equal_any(t2, cpre + b + ctrail) for b in banned] + [z3.And(raw_differs, texts_equal_any(t2, list(term)))]
            clauses.append(("ansi_offers_nothing_it_cannot_encode", z3.Implies(ansi2, z3.Not(z3.Or(hits)))))
        clauses.append(("cover:reconfigured", True))
    # ---- C17 / C05 pairing
    if mode in ("quote_pair", "warm_pair"):
        lst2, sel2 = res["second"]
        t1 = [rank_text(x) for x in res["first_list"]]
        t2 = [rank_text(x) for x in lst2.items]
        if mode == "warm_pair":
            same = z3.And([seq_eq(a, b) for a, b in zip(t1, t2)]) if len(t1) == len(t2) else z3.BoolVal(False)
            clauses.append(("warm_context_gives_the_same_list", same))
            clauses.append(("warm_context_gives_the_same_preselection", simp(bv(sel, 64) == bv(sel2, 64))))
            clauses.append(("cover:warm", True))
            if "pristine" in res:
                lst3, sel3 = res["pristine"]
                t3 = [rank_text(x) for x in lst3.items]
                same3 = z3.And([seq_eq(a, b) for a, b in zip(t1, t3)]) if len(t1) == len(t3) else z3.BoolVal(False)
                clauses.append(("context_with_history_gives_the_list_of_a_new_one", same3))
                clauses.append(("context_with_history_gives_the_preselection_of_a_new_one", simp(bv(sel, 64) == bv(sel3, 64))))
                clauses.append(("cover:pristine", True))
        else:
            if len(t1) != len(t2):
                clauses.append(("smart_quotes_keep_length_and_order", False))
            else:
                pair = []
                for a, b, x in zip(t1, t2, res["first_list"]):
                    israw = cls(x) == V["Last"] and not is_sym(num(x)) and num(x) in (1, 3)
                    pair.append(seq_eq(a, b) if israw else seq_eq(uncurl(a), uncurl(b)))
                clauses.append(("smart_quotes_keep_length_and_order", z3.And(pair) if pair else True))
            clauses.append(("smart_quotes_keep_preselection", simp(bv(sel, 64) == bv(sel2, 64))))
            # with the option on every candidate but the raw typed text carries the curled wrappers
            if word is not None and len(word) > 0 and len(t1) == len(t2):
                curl = []
                npre, ntr = len(cpre), len(ctrail)
                emoticon_here = orc.memo.get(("emoticon", key_of_elems(term))) is not None
                for a, b, x in zip(t1, t2, res["first_list"]):
                    if cls(x) == V["Last"] and not is_sym(num(x)) and num(x) in (1, 3):
                        continue
                    if cls(x) == V["Emoji"] and emoticon_here:
                        continue        # the emoji of an emoticon stands for the whole text and is not wrapped
                    if len(a) != len(b) or len(a) < npre + ntr:
                        curl.append(z3.BoolVal(False))
                        continue
                    t_on = [z3.If(quote, bv(p_, 32), bv(q_, 32)) for p_, q_ in zip(a, b)]
                    t_off = [z3.If(quote, bv(q_, 32), bv(p_, 32)) for p_, q_ in zip(a, b)]
                    want = ref_quote(cpre, False) + t_off[npre:len(t_off) - ntr] + ref_quote(ctrail, True)
                    curl.append(seq_eq(t_on, want))
                clauses.append(("smart_quotes_curl_every_candidate", z3.And(curl) if curl else True))
            clauses.append(("cover:quote_pair", True))
    return clauses


QUOTE_THEN_CONVERTED = [("\"", "\":`"), ("\"", "\",,"), ("'", "':`")]
WRAPPERS_QUICK = [("", ""), ("\"", "\""), ("'", ""), ("(", ")"), ("", "."), ("", ","), ("\"'", "'\""), ("", "!"), ("-", ""), ("", "?")]


def conv_table_for(strings):
    strings = list(strings) + [a + b for a, b in WRAPPERS_QUICK] + [a for a, b in WRAPPERS_QUICK] + [b for a, b in WRAPPERS_QUICK] + [",,", "..", "..."]
    need = sorted(set(s for s in strings if s))
    out = run_replay([{"steps": [{"op": "okkhor", "text": x} for x in need]}])[0]["results"]
    return {x: r["text"] for x, r in zip(need, out) if "text" in r}


SPECIAL_TERMS = ["\"\\\"", "'\\'", "\"^\"", "ab:`", "\"ab:`\"", ":`", "a`", "\"`\"", "a;", ";a", "\\", "a\\", "$", "\"$\"", "k`:", "a:b", "(a:`)"]
# texts that are keys of the bundled auto-correct list as a whole, quotes included (the split word is only a part of them)
QUOTED_AUTOCORRECT_TERMS = [":'(", ":-\"", "d'-'", ":\">", "d'_'", "md."]


def special_term_shapes(terms, **kw):
    """Concrete typed texts with characters the splitter treats specially (colon, back-tick, backslash ...): the split parts are
    obtained natively and converted by the real okkhor, the data sources stay oracles."""
    res = run_replay([{"steps": [{"op": "split", "text": t, "colon": False} for t in terms]}])[0]["results"]
    parts = set()
    for r in res:
        for p in r.get("parts", []):
            parts.add(p)
    data = bundled_data()
    extra = [data["autocorrect"][x] for x in list(parts) + list(terms) if x in data["autocorrect"]] if kw.get("real_autocorrect") else []
    table = conv_table_for(list(parts) + list(terms) + extra)
    real = dict(emoticon=data["emoticon"], emoji_name=data["emoji_name"])
    if kw.get("real_autocorrect"):
        real["autocorrect"] = data["autocorrect"]
    shapes = []
    for t, r in zip(terms, res):
        d = dict(term=t, wlen=0, pre="", trail="", conv_table=table, real_tables=real, parts=r.get("parts"))
        d.update(kw)
        shapes.append(d)
    return shapes


def classify_suggest(v):
    return "phonetic assembly: %s" % v["clause"]


def describe_suggest(v):
    i = v["inputs"]
    return "typed %r (options %s) with data answers %s gives %s: %s" % (
        i["term"], ",".join(k for k, x in i["opts"].items() if x), json.dumps(i["oracle_answers"], ensure_ascii=False)[:500],
        json.dumps(v["predicted"], ensure_ascii=False)[:400], v["clause"])


def run_suggest_obligation(check, name, shapes, required_covers, confirmers=None, budget_s=None):
    """Explore the shapes; counterexamples are confirmed by clause-specific native searches (the oracles' answers
    cannot be planted into the real data files)."""
    records, errors, summ = msym.run_shapes(check, name, shapes, make_suggest, budget_s=budget_s)
    vio = [r for r in records if r["kind"] == "violation" and (getattr(check, "only_clauses", None) is None or r["clause"] in check.only_clauses)]
    covers = {}
    for r in records:
        if r["kind"] == "cover":
            covers[r["name"]] = covers.get(r["name"], 0) + 1
    check.extra.setdefault("covers", {}).update({name + "/" + k: v for k, v in covers.items()})
    detail = "%d shapes, %d paths" % (len(shapes), summ["paths"])
    if errors:
        check.obligation(name, "mirsym", "inconclusive", "executor gave up: " + "; ".join(sorted(set(errors))[:3]))
        return
    if summ["paths"] == 0:
        check.obligation(name, "mirsym", "inconclusive", "no feasible path (vacuous)")
        return
    missing = [k for k in required_covers if k not in covers]
    if missing:
        check.obligation(name, "mirsym", "inconclusive", "vacuity: reachability witnesses never satisfied: %s" % missing)
        return
    if not vio:
        check.obligation(name, "mirsym", "held", detail + "; %d reachability witnesses; every property query unsat" % len(covers))
        return
    groups = {}
    for v in vio:
        groups.setdefault(classify_suggest(v), []).append(v)
    status = "held"
    worst = {"held": 0, "known": 1, "inconclusive": 2, "violated": 3}
    for key, vs in sorted(groups.items()):
        found = None
        fn = (confirmers or {}).get(vs[0]["clause"])
        if fn is not None:
            found = fn(vs)
        if found is None:
            st = "inconclusive"
            check.obligation(name + ":" + key, "mirsym", "inconclusive",
                             "counterexample under the data oracles was not re-found natively: %s" % describe_suggest(vs[0])[:500])
        else:
            st = "held"
            for sc, obs, what, role in (found if isinstance(found, list) else [found]):
                check.stats["traces_validated"] += 1
                st1 = check.finding(role or key, what, dict(scenario=sc, observed=obs, solver_counterexample=vs[0]["inputs"]))
                check.sample(dict(obligation=name, counterexample=vs[0]["inputs"], role=role or key))
                if worst[st1] > worst[st]:
                    st = st1
        if worst[st] > worst[status]:
            status = st
    check.obligation(name, "mirsym", status, detail + "; %d counterexample models" % len(vio))


def base_shapes(wrappers, wlens, conv_table, **kw):
    shapes = []
    for pre, trail in wrappers:
        for wl in wlens:
            d = dict(pre=pre, trail=trail, wlen=wl, conv_table=conv_table)
            d.update(kw)
            shapes.append(d)
    return shapes


# ------------------------------------------------------------------------- native confirmation searches

def type_steps(keys, text, sel_track=True):
    return [{"op": "key", "key": keys[ch], "sel": 0, "_ch": ch} for ch in text]


def play_typed(texts_opts, commit_fn=None):
    """Type texts natively passing the previously returned selection with every key (front-end contract)."""
    raise NotImplementedError


def base_choice_search(vs):
    """Native: a non-preselected candidate is committed for a word; the word is then typed followed by a known suffix (same context, and a new
    context over the same user files): whenever the joined form is offered it is the preselected one."""
    keys = char_keys()
    data = bundled_data()
    cfg = {"layout": "avro_phonetic", "database": REPO + "/data", "opts": {"phonetic_suggestion": True}}
    bases = ["t", "a", "s", "c", "z", "k", "ma", "sesh", "ami", "boi"]
    sufs = [sk for sk in data["suffix"] if all(ch in keys for ch in sk)]
    sufs = [sk for sk in sufs if len(sk) == 1] + [sk for sk in sufs if len(sk) == 2][:6] + [sk for sk in sufs if len(sk) > 2][:4]

    def typ(t, ctx=0):
        return [{"op": "key", "ctx": ctx, "key": keys[ch], "sel": 0} for ch in t]
    first = run_replay_parallel([{"steps": [{"op": "new", "ctx": 0, "config": cfg}] + typ(b)} for b in bases])
    scs, meta = [], []
    for b, r in zip(bases, first):
        sg = r["results"][-1].get("suggestion", {})
        lst, sel = sg.get("list", []), sg.get("sel", 0)
        for i, cand in enumerate(lst[:5]):
            if i == sel:
                continue
            for sk in sufs:
                steps = [{"op": "new", "ctx": 0, "config": cfg}] + typ(b) + [{"op": "commit", "ctx": 0, "index": i}] + typ(b + sk)
                a = len(steps) - 1
                steps += [{"op": "new", "ctx": 1, "config": cfg}] + typ(b + sk, ctx=1)
                scs.append({"steps": steps})
                meta.append((b, cand, sk, a))
    for (b, cand, sk, a), sc, r in zip(meta, scs, run_replay_parallel(scs, timeout=1800)):
        rr = r["results"]
        if any("panic" in x for x in rr):
            continue
        j = join_concrete(cand, data["suffix"][sk])
        # every reading of the text as (word with a choice, learned or derived from one while the text was typed) + known suffix is acceptable
        store = {b: cand}
        text = b + sk
        for n in range(1, len(text) + 1):
            p_ = text[:n]
            if p_ in store:
                continue
            for i in range(1, len(p_)):
                if p_[i:] in data["suffix"] and p_[:i] in store:
                    jj = join_concrete(store[p_[:i]], data["suffix"][p_[i:]])
                    if jj is not None:
                        store.setdefault(p_, jj)
        acceptable = set()
        for i in range(1, len(text)):
            if text[i:] in data["suffix"] and text[:i] in store:
                jj = join_concrete(store[text[:i]], data["suffix"][text[i:]])
                if jj is not None:
                    acceptable.add(jj)
        for where, x in (("the same context", rr[a]), ("a new context over the same user files", rr[-1])):
            sg = x.get("suggestion", {})
            lst = sg.get("list", [])
            if j is not None and j in lst and sg.get("sel") != lst.index(j) and lst[sg.get("sel", 0)] not in acceptable:
                return sc, x, ("%r typed and candidate %r chosen; %r (that word + the suffix %r = %r) typed in %s offers the joined form %r at index %d but preselects index %s (%r)" % (
                    b, cand, b + sk, sk, data["suffix"][sk], where, j, lst.index(j), sg.get("sel"), lst[sg.get("sel", 0)] if lst else None)), "the learned choice of a word is not carried over to word + suffix"
    return None


def learn_search(vs):
    """Re-find 'a committed candidate is not preselected next time' on the real data, only in-contract calls."""
    keys = char_keys()
    v = vs[0]
    opts = dict(v["inputs"]["opts"])
    jopts = {"phonetic_suggestion": True, "english": bool(opts.get("english")), "smart_quote": bool(opts.get("smart_quote")), "ansi": False}
    term = v["inputs"]["term"]
    i = 0
    while i < len(term) and not term[i].isalnum():
        i += 1
    j = len(term)
    while j > i and not term[j - 1].isalnum():
        j -= 1
    pre, trail = term[:i], term[j:]
    words = ["sesh", "ami", "kotha"]
    cfg = {"layout": "avro_phonetic", "database": REPO + "/data", "opts": jopts}
    texts = [pre + w + trail for w in words] + [w + "." for w in words] + ["\"" + w + "\"" for w in words] + [w + ":`" for w in words]
    texts = [t for t in dict.fromkeys(texts) if all(ch in keys for ch in t)]
    # pass 1: lists
    scs = [{"steps": [{"op": "new", "config": cfg}] + [{"op": "key", "key": keys[ch], "sel": 0} for ch in t]} for t in texts]
    res = run_replay(scs)
    scs2 = []
    meta = []
    for t, r in zip(texts, res):
        last = r["results"][-1]
        if "suggestion" not in last or last["suggestion"]["kind"] != "full":
            continue
        lst, sel = last["suggestion"]["list"], last["suggestion"]["sel"]
        for i in range(len(lst)):
            if i == sel:
                continue
            steps = [{"op": "new", "config": cfg}] + [{"op": "key", "key": keys[ch], "sel": 0} for ch in t]
            steps.append({"op": "commit", "index": i})
            steps += [{"op": "key", "key": keys[ch], "sel": 0} for ch in t[:-1]]
            steps.append({"op": "get_state"})     # preselection computed by the engine before the last (punctuation) key echoes the caller's byte
            steps.append({"op": "key", "key": keys[t[-1]], "sel": 0})
            steps.append({"op": "get_state"})
            steps.append({"op": "read_user_file", "name": "phonetic-candidate-selection.json"})
            scs2.append({"steps": steps})
            meta.append((t, i, lst))
    out = run_replay_parallel(scs2)
    found = {}
    for (t, i, lst), r in zip(meta, out):
        rr = r["results"]
        last = rr[-3]
        if "suggestion" not in last:
            continue
        st = rr[-2]["state"]
        l2 = last["suggestion"]["list"]
        s2 = st["prev_selection"]
        if s2 >= len(l2) or l2[s2] != lst[i]:
            israw = (lst[i] == t)
            role = ("learned choice lost: raw English candidate of a word whose wrapping punctuation is converted or curled" if israw
                    else "learned choice lost")
            what = "typed %r, committed candidate %d (%r); typed again: engine preselects %d (%r); store: %s" % (
                t, i, lst[i], s2, l2[s2] if s2 < len(l2) else None, rr[-1].get("content"))
            if role not in found:      # one finding per role: a listed known finding must not hide another kind of loss
                found[role] = ({"steps": scs2[meta.index((t, i, lst))]["steps"]}, rr[-3:], what, role)
    # a choice learned for a BASE decides the preselection of base + suffix; committing another candidate of the suffixed word then (the
    # first one included) must be remembered for the suffixed word
    cfg0 = {"layout": "avro_phonetic", "database": REPO + "/data", "opts": {"phonetic_suggestion": True}}
    two = []
    for base in ("as", "boi", "kal", "desh"):
        for sfx in ("e", "er", "gulo"):
            for pick in (0, 1):
                steps = [{"op": "new", "config": cfg0}] + [{"op": "key", "key": keys[ch], "sel": 0} for ch in base] + [{"op": "commit", "index": 1}]
                steps += [{"op": "key", "key": keys[ch], "sel": 0} for ch in base + sfx] + [{"op": "get_state"}]
                two.append((base, sfx, pick, steps))
    firsts = run_replay_parallel([{"steps": x[3]} for x in two])
    seconds = []
    for (base, sfx, pick, steps), r in zip(two, firsts):
        rr = r["results"]
        if any("panic" in x for x in rr):
            continue
        lst = rr[-2].get("suggestion", {}).get("list", [])
        sel = rr[-1].get("state", {}).get("prev_selection", 0)
        if pick == sel or pick >= len(lst):
            continue
        st3 = steps[:-1] + [{"op": "commit", "index": pick}] + [{"op": "key", "key": keys[ch], "sel": 0} for ch in base + sfx] + [{"op": "get_state"}, {"op": "read_user_file", "name": "phonetic-candidate-selection.json"}]
        seconds.append((base, sfx, pick, lst, sel, {"steps": st3}))
    for (base, sfx, pick, lst, sel, sc), r in zip(seconds, run_replay_parallel([x[5] for x in seconds])):
        rr = r["results"]
        if any("panic" in x for x in rr):
            continue
        l2 = rr[-3].get("suggestion", {}).get("list", [])
        s2 = rr[-2].get("state", {}).get("prev_selection", 0)
        if s2 >= len(l2) or l2[s2] != lst[pick]:
            role = "learned choice lost: a suffixed word whose preselection came from its base"
            if role not in found:
                found[role] = (sc, rr[-3:], "%r learned (candidate 1); %r then shows %s with candidate %d preselected (from the base); candidate %d (%r) committed instead; typed again: "
                               "candidate %s (%r) is preselected; store: %s" % (base, base + sfx, lst[:4], sel, pick, lst[pick], s2, l2[s2] if s2 < len(l2) else None, rr[-1].get("content")), role)
    return list(found.values()) or None


def survive_search(vs):
    """Re-find 'a commit loses another learned entry' natively: learned choices are made through the API (type, commit), for words that are
    prefixes / extensions of each other and unrelated ones, then one more word is committed and every earlier entry must still be stored
    and still be preselected."""
    keys = char_keys()
    cfg = {"layout": "avro_phonetic", "database": REPO + "/data", "opts": {"phonetic_suggestion": True}}
    groups = [["bar", "bari", "bar"], ["ami", "amar", "ami"], ["sesh", "kotha", "sesh"], ["kotha", "kothay", "kotha"], ["k", "kk", "k"], ["kori", "korim", "kori"]]
    # pass 1: candidate lists
    words = sorted(set(w for g in groups for w in g))
    res = run_replay([{"steps": [{"op": "new", "config": cfg}] + [{"op": "key", "key": keys[ch], "sel": 0} for ch in w]} for w in words])
    lists = {w: r["results"][-1].get("suggestion", {}).get("list", []) for w, r in zip(words, res)}
    scs, meta = [], []
    for g in groups:
        w1, w2, w3 = g
        l1, l2 = lists[w1], lists[w2]
        if len(l1) < 2 or len(l2) < 2:
            continue
        for i1 in range(1, min(len(l1), 3)):
            # prefer a choice of the longer word that begins with the shorter word's choice
            c2 = [j for j in range(1, len(l2)) if l2[j].startswith(l1[i1])] + [j for j in range(1, min(len(l2), 3))]
            for i2 in list(dict.fromkeys(c2))[:3]:
                for i3 in (0, (i1 + 1) % len(l1)):
                    steps = [{"op": "new", "config": cfg}]
                    for w, idx in ((w1, i1), (w2, i2), (w3, i3)):
                        steps += [{"op": "key", "key": keys[ch], "sel": 0} for ch in w]
                        steps.append({"op": "commit", "index": idx})
                    steps += [{"op": "key", "key": keys[ch], "sel": 0} for ch in w2]
                    steps.append({"op": "get_state"})
                    steps.append({"op": "read_user_file", "name": "phonetic-candidate-selection.json"})
                    scs.append({"steps": steps})
                    meta.append((g, i1, i2, i3, l2[i2]))
    out = run_replay_parallel(scs)
    for (g, i1, i2, i3, want), sc, r in zip(meta, scs, out):
        rr = r["results"]
        p = [x for x in rr if "panic" in x]
        if p:
            return sc, p[0], "learning %s panics: %s" % (g, p[0]["panic"]), None
        last = rr[-3]
        if "suggestion" not in last:
            continue
        l2 = last["suggestion"]["list"]
        s2 = rr[-2]["state"]["prev_selection"]
        try:
            stored = json.loads(rr[-1].get("content") or "{}").get(g[1])
        except ValueError:
            stored = None
        if stored != want or s2 >= len(l2) or l2[s2] != want:
            what = "committed candidate %d of %r, candidate %d (%r) of %r, then candidate %d of %r again; typing %r now preselects %r and the store holds %r for it" % (
                i1, g[0], i2, want, g[1], i3, g[2], g[1], l2[s2] if s2 < len(l2) else None, stored)
            return sc, rr[-3:], what, "learned choice of another word lost by a commit"
    return None


def stacked_suffix_search(vs):
    """Native confirmation that memo entries are used as direct candidates only: a word whose prefixes are themselves base+suffix is typed
    key by key through the API (so every prefix has been the word before); the list must equal the one of a reference context whose memo
    was planted (state hook) with the *direct* candidates of every prefix - each obtained in isolation, with an empty memo."""
    keys = char_keys()
    cfg = {"layout": "avro_phonetic", "database": REPO + "/data", "opts": {"phonetic_suggestion": True}}
    words = ["amio", "amakeo", "deshero", "boigulor", "tumio", "asguloi", "kothagulor", "manushero"]

    def typ(t):
        return [{"op": "key", "key": keys[ch], "sel": 0} for ch in t]
    # 1. direct candidates of every prefix, each in isolation
    prefixes = sorted(set(w[:i] for w in words for i in range(1, len(w))))
    iso = [{"steps": [{"op": "new", "config": cfg}, {"op": "set_state", "state": {"buffer": x[:-1], "cache": {}}}] + typ(x[-1]) + [{"op": "get_state"}]} for x in prefixes]
    direct = {}
    for x, r in zip(prefixes, run_replay_parallel(iso)):
        st = r["results"][-1].get("state")
        if st is None or x not in st["cache"]:
            return None
        direct[x] = st["cache"][x]
    # 2. key by key through the API vs. the reference context
    scs = []
    for w in words:
        scs.append({"steps": [{"op": "new", "config": cfg}] + typ(w) + [{"op": "get_state"}]})
        planted = {w[:i]: direct[w[:i]] for i in range(1, len(w))}
        scs.append({"steps": [{"op": "new", "config": cfg}, {"op": "set_state", "state": {"buffer": w[:-1], "cache": planted}}] + typ(w[-1])})
    res = run_replay_parallel(scs)
    for k, w in enumerate(words):
        a = res[2 * k]["results"]
        b2 = res[2 * k + 1]["results"]
        p = [x for x in a if "panic" in x]
        if p:
            return scs[2 * k], p[0], "typing %r key by key panics: %s" % (w, p[0]["panic"]), None
        la = a[-2].get("suggestion", {}).get("list")
        lb = b2[-1].get("suggestion", {}).get("list")
        if la != lb:
            extra = [x for x in (la or []) if x not in (lb or [])]
            missing = [x for x in (lb or []) if x not in (la or [])]
            return (scs[2 * k], [a[-2], b2[-1]],
                    "typing %r key by key offers %s; with every shorter form's direct candidates (each computed in isolation) the engine's own joining gives %s "
                    "(not justified: %s; missing: %s)" % (w, la, lb, extra, missing), "suffix forms built from memo entries that are not direct candidates")
    return None


def warm_search(vs):
    """Native confirmation of a history-dependent list: pairs of related texts (same letters in another case, one a prefix of the other,
    wrapped or not) composed one after the other in one context - by finishing the first, or by erasing back to the common prefix -
    against a newly created context that gets the second text only."""
    keys = char_keys()
    cfg = {"layout": "avro_phonetic", "database": REPO + "/data", "opts": {"phonetic_suggestion": True}}
    texts = ["ami", "Ami", "AMI", "aMi", "am", "Am", "kal", "Kal", "KAL", "a", "A", "kotha", "kothagulo", "Kothagulo", "boi", "boigulo", "\"ami\"", "(ami", "ami.",
             "bhalo", "Bhalo", "BHALO", "k", "K", "ke", "Ke"]
    texts = [t for t in texts if all(ch in keys for ch in t)]

    def typ(t, ctx):
        return [{"op": "key", "ctx": ctx, "key": keys[ch], "sel": 0} for ch in t]

    def core(t):
        return "".join(ch for ch in t if ch.isalnum()).lower()
    fresh = {t: None for t in texts}
    res = run_replay_parallel([{"steps": [{"op": "new", "config": cfg}] + typ(t, 0)} for t in texts])
    for t, r in zip(texts, res):
        fresh[t] = r["results"][-1].get("suggestion")
    scs, meta = [], []
    for t1 in texts:
        for t2 in texts:
            if t1 == t2 or not (core(t1).startswith(core(t2)) or core(t2).startswith(core(t1))):
                continue
            scs.append({"steps": [{"op": "new", "ctx": 0, "config": cfg}] + typ(t1, 0) + [{"op": "finish", "ctx": 0}] + typ(t2, 0)})
            meta.append((t1, t2, "finished"))
            k = 0
            while k < min(len(t1), len(t2)) and t1[k] == t2[k]:
                k += 1
            if k < len(t2):
                scs.append({"steps": [{"op": "new", "ctx": 0, "config": cfg}] + typ(t1, 0) + [{"op": "backspace", "ctx": 0}] * (len(t1) - k) + typ(t2[k:], 0)})
                meta.append((t1, t2, "erased back to %r" % t2[:k]))
    # the suggestion list switched off for a word in between (update_engine while idle, both ways): the scratch objects of the assembly are
    # used by the list-less path too
    off = dict(cfg, opts={"phonetic_suggestion": False})
    for t1 in ("e", "?", "a", "(", "k", "ami"):
        for mid in ("tumi", "ki", "a"):
            if any(ch not in keys for ch in t1 + mid):
                continue
            scs.append({"steps": [{"op": "new", "ctx": 0, "config": cfg}] + typ(t1, 0) + [{"op": "commit", "ctx": 0, "index": 0}, {"op": "update", "ctx": 0, "config": off}] +
                                 typ(mid, 0) + [{"op": "commit", "ctx": 0, "index": 0}, {"op": "update", "ctx": 0, "config": cfg}] + typ(t1, 0)})
            meta.append((t1, t1, "committed, the list switched off, %r composed and committed, the list switched on again" % mid))
            if t1 not in fresh:
                fresh[t1] = run_replay([{"steps": [{"op": "new", "config": cfg}] + typ(t1, 0)}])[0]["results"][-1].get("suggestion")
    # a learned choice in between: the word is committed with another candidate, then typed again; the new context reads the same store
    learned = []
    for t in ("a", "k", "ami", "kal"):
        for idx in (1, 2):
            steps = [{"op": "new", "ctx": 0, "config": cfg}] + typ(t, 0) + [{"op": "commit", "ctx": 0, "index": idx}] + typ(t, 0) + [{"op": "get_state", "ctx": 0}] + \
                    [{"op": "new", "ctx": 1, "config": cfg}] + typ(t, 1) + [{"op": "get_state", "ctx": 1}]
            learned.append(({"steps": steps}, t, idx))
    for (sc, t, idx), r in zip(learned, run_replay_parallel([x[0] for x in learned])):
        rr = r["results"]
        if any("panic" in x for x in rr):
            continue
        states = [i for i, x in enumerate(rr) if x.get("op") == "get_state"]
        a, b3 = states[0], states[1]
        la, lb = rr[a - 1].get("suggestion", {}).get("list"), rr[b3 - 1].get("suggestion", {}).get("list")
        sa, sb = rr[a]["state"]["prev_selection"], rr[b3]["state"]["prev_selection"]
        if la != lb or sa != sb:
            return (sc, [rr[a - 1], rr[b3 - 1]], "one context composed %r, committed candidate %d and composed %r again: it offers %s with candidate %s preselected; a newly created context "
                    "(same user files) offers %s with candidate %s preselected" % (t, idx, t, la, sa, lb, sb), "suggestions depend on what the context composed before")
    out = run_replay_parallel(scs)
    for (t1, t2, how), sc, r in zip(meta, scs, out):
        rr = r["results"]
        p = [x for x in rr if "panic" in x]
        if p:
            return sc, p[0], "%r %s, then %r: panics: %s" % (t1, how, t2, p[0]["panic"]), None
        got = rr[-1].get("suggestion")
        want = fresh[t2]
        if got is None or want is None:
            continue
        if got.get("list") != want.get("list") or (how == "finished" and got.get("sel") != want.get("sel")):
            return (sc, [rr[-1], want], "one context composed %r (%s) and then %r: it offers %s (preselected %s); a newly created context offers %s (preselected %s) for the same text" % (
                t1, how, t2, got.get("list"), got.get("sel"), want.get("list"), want.get("sel")), "suggestions depend on what the context composed before")
    return None


def warm_or_long_history_search(vs):
    found = warm_search(vs)
    if found is None:
        import obl_phonetic
        f2 = obl_phonetic.memo_eviction_search()
        if f2 is not None:
            found = (f2[0], f2[1], f2[2], "suggestions depend on how many words the context composed before")
    return found


def autocorrect_search(vs):
    """Re-find 'the auto-correct entry is not first' natively with a user auto-correct file (identity, overriding and plain entries)."""
    keys = char_keys()
    cfg = {"layout": "avro_phonetic", "database": REPO + "/data", "opts": {"phonetic_suggestion": True}}
    entries = {"jokhon": "jokhon", "sesh": "sesh", "hostel": "ami", "xyz": "tumi", "k": "k", "ami": "amra"}
    need = sorted(set(entries.values()))
    conv = {x: r["text"] for x, r in zip(need, run_replay([{"steps": [{"op": "okkhor", "text": x} for x in need]}])[0]["results"])}
    scs = []
    for w in entries:
        scs.append({"steps": [{"op": "write_user_file", "name": "autocorrect.json", "content": json.dumps(entries)}, {"op": "new", "config": cfg}] +
                             [{"op": "key", "key": keys[ch], "sel": 0} for ch in w]})
    res = run_replay(scs)
    for w, sc, r in zip(entries, scs, res):
        last = r["results"][-1]
        if "panic" in last:
            return sc, last, "user auto-correct entry %r: typing the word panics: %s" % (w, last["panic"]), None
        lst = last.get("suggestion", {}).get("list", [])
        if not lst or lst[0] != conv[entries[w]]:
            return sc, last, "user auto-correct entry %r -> %r (converted %r): typing %r offers %s, the entry is not first" % (
                w, entries[w], conv[entries[w]], w, lst), "assembly: user auto-correct entry is not ranked first"
    return None


def duplicate_search(vs):
    """Re-find 'a candidate text occurs twice' natively; every kind of repeat found is returned with its own role (a repeat the
    known-findings file lists does not hide another one): words that transliterate to themselves (raw English = transliteration), the one
    word the bundled dictionary lists twice, auto-correct entries whose target is also a dictionary hit, suffix-built forms."""
    keys = char_keys()
    data = bundled_data()
    texts = ["\"\\\"", "\\", "'\\'", "(\\)", "\\\\", "a\\", "k", "ami", "\"a\"", "rajzokkhma", "rajjokkhma", "rajzokkhmar", "amra", "apni", "tumi", "boigulo", "kothagulo",
             "asgulo", "bhalo", "kemon", "desher"]
    texts += [k for k in list(data["autocorrect"])[:400] if k.isalnum() and k.isascii()][:120]
    texts = [t for t in dict.fromkeys(texts) if all(ch in keys for ch in t)]
    scs = []
    meta = []
    for t in texts:
        for sq in (False, True):
            for en in (True, False):
                cfg = {"layout": "avro_phonetic", "database": REPO + "/data", "opts": {"phonetic_suggestion": True, "english": en, "smart_quote": sq}}
                scs.append({"steps": [{"op": "new", "config": cfg}] + [{"op": "key", "key": keys[ch], "sel": 0} for ch in t] + [{"op": "get_state"}]})
                meta.append((t, sq, en))
    res = run_replay_parallel(scs)
    found = {}
    kinds = ["First", "Emoji", "Other", "Last"]
    for (t, sq, en), sc, r in zip(meta, scs, res):
        last = r["results"][-2]
        lst = last.get("suggestion", {}).get("list", [])
        if len(set(lst)) == len(lst):
            continue
        ranks = r["results"][-1].get("state", {}).get("suggestions", [])
        dup = next(x for x in lst if lst.count(x) > 1)
        cls = sorted(kinds[k] + ("/raw" if kinds[k] == "Last" and n == 3 else "") for k, text, n in ranks if text == dup) if ranks else []
        if lst.count(t) > 1 and "Last/raw" in cls:
            role = "assembly: the raw English candidate repeats the transliteration of a word that transliterates to itself"
        else:
            role = "assembly: a candidate text occurs twice (%s)" % " and ".join(cls or ["?"])
        if role not in found:
            found[role] = (sc, last, "typed %r (English %s, smart quotes %s) offers %s: %r occurs %d times" % (t, en, sq, lst, dup, lst.count(dup)), role)
    return list(found.values()) or None


def obl_order(check, conv_table, thorough=False, budget_s=None):
    kw = dict(mode="single", dict_max=2, emoji_count=1, suffixes=False, selections=thorough)
    shapes = base_shapes([("", "")], [1], conv_table, **dict(kw, fixed={"smart_quote": False}))
    shapes += base_shapes([("\"", "\"")] + ([("(", ")"), ("", ".")] if thorough else []), [1], conv_table, **kw)
    shapes += special_term_shapes(SPECIAL_TERMS[:6] if not thorough else SPECIAL_TERMS, **dict(kw, dict_max=1, selections=False))
    shapes += base_shapes([("", "")], [3], conv_table, **dict(kw, suffixes=True, prefix_kind="First", dict_max=0, emoji_names=False, emoticons=False, selections=False,
                                                           distinct=True, fixed={"smart_quote": False, "ansi": False, "include_english": False}))
    # suffix-built words inherit the distance of their base: bases that are dictionary words with symbolic distances
    shapes += base_shapes([("", "")], [3], conv_table, **dict(kw, suffixes=True, dict_max=1, emoji_names=False, emoticons=False, selections=False, autocorrect=False, user_autocorrect=False,
                                                           distinct=True, fixed={"smart_quote": False, "ansi": False, "include_english": False}))
    check.bounds["assembly_order"] = dict(word="1 symbolic letter/digit (no suffix split points)", wrappers=[s["pre"] + "W" + s["trail"] for s in shapes],
                                          data="user/bundled auto-correct present or absent, 0-2 dictionary words with symbolic distances, emoticon / emoji name present or absent, learned selection any",
                                          options="English, ANSI, smart quotes symbolic")
    run_suggest_obligation(check, "assembly_order", shapes, ["cover:transliteration", "cover:emoticon", "cover:emoji_name", "cover:autocorrect_first"],
                           confirmers={"autocorrect_entry_is_first": autocorrect_search, "no_candidate_twice": duplicate_search,
                                       "dictionary_candidates_carry_their_distance": suffix_rank_search,
                                       "memo_entry_is_keyed_by_the_word": warm_search, "memo_entry_holds_direct_candidates_only": stacked_suffix_search}, budget_s=budget_s)


# ------------------------------------------------------------------------- C07: the number a dictionary word is ranked by

def make_dictionary_rank(shape):
    """`Rank::new_suggestion(item, base)` from MIR, both strings symbolic; the edit-distance crate is an uninterpreted function that records
    what it is asked. The candidate carries 10 x that function's answer for exactly (base, item)."""
    la, lb = shape["item_len"], shape["base_len"]

    def build(st, it):
        prog = it.p
        item = [st.sym_char("i%d" % i, 0x0980, 0x09FF) for i in range(la)]
        base = [st.sym_char("b%d" % i, 0x0980, 0x09FF) for i in range(lb)]
        asked = []

        def edit_distance(it2, args, callee):
            a, b = list(elems_of(args[0])), list(elems_of(args[1]))
            d = st.sym_bv("ed%d" % len(asked), 64)
            st.assume(z3.ULE(d, 25))
            asked.append((a, b, d))
            return d
        it.env["overrides"] = {"edit_distance": edit_distance}
        st.ctx = dict(item=item, base=base, asked=asked)
        fn = prog.find_fn("Rank", "new_suggestion")

        def run():
            return it.call_function(fn, [SString(list(item)), Str(list(base))])
        return run

    def on_path(st, it, out):
        prog = it.p
        c = st.ctx
        model = st.get_model()

        def inputs(m):
            return dict(item=model_string(m, c["item"]), base=model_string(m, c["base"]), edit_distance_asked=[[model_string(m, a), model_string(m, b), int(model_value(m, d))] for a, b, d in c["asked"]])

        def pred(m):
            if out[0] == "panic":
                return dict(panic=out[1].message)
            r = out[1]
            return dict(rank=rank_json(prog, m, r))
        if out[0] == "panic":
            return [dict(kind="violation", clause="no_panic", inputs=inputs(model), predicted=pred(model))]
        r = out[1]
        V = prog.enums["Rank"]
        ok = z3.BoolVal(False)
        if isinstance(r, Agg) and r.variant == V["Other"] and len(c["asked"]) >= 1:
            a, b, d = c["asked"][-1]
            right_pair = z3.And(seq_eq(a, c["base"]) if len(a) == len(c["base"]) else z3.BoolVal(False), seq_eq(b, c["item"]) if len(b) == len(c["item"]) else z3.BoolVal(False))
            num = r.fields[1]
            ok = z3.And(right_pair, seq_eq(list(r.fields[0].elems), c["item"]) if len(r.fields[0].elems) == len(c["item"]) else z3.BoolVal(False),
                        simp(bv(num, 8) == z3.Extract(7, 0, bv(d, 64) * 10)))
        clauses = [("dictionary_word_is_ranked_by_its_edit_distance", ok), ("cover:ranked", True)]
        return eval_clauses(st, clauses, lambda cn, m: dict(kind="violation", clause=cn, inputs=inputs(m), predicted=pred(m)))
    return build, on_path


def levenshtein(a, b):
    prev = list(range(len(b) + 1))
    for i, x in enumerate(a, 1):
        cur = [i]
        for j, y in enumerate(b, 1):
            cur.append(min(prev[j] + 1, cur[j - 1] + 1, prev[j - 1] + (x != y)))
        prev = cur
    return prev[-1]


def distance_search(vs):
    """Native: words typed in the phonetic method; every dictionary candidate of the memo entry of the word carries 10 x the edit distance
    (computed here, code point by code point) between the word's plain transliteration and the candidate."""
    keys = char_keys()
    data = bundled_data()
    cfg = {"layout": "avro_phonetic", "database": REPO + "/data", "opts": {"phonetic_suggestion": True}}
    words = ["kothao", "prosob", "ikonomiks", "ami", "kotha", "bhalo", "manush", "somoy", "prithibi", "shikkha", "bangla", "desh", "jibon", "kobita", "sondha", "nodi", "akash",
             "batas", "bristi", "rod", "megh", "pakhi", "ful", "gach", "pata", "mati", "jol", "agun", "sagor", "pahar", "rasta", "bari", "ghor", "dorja", "janala", "chabi",
             "boi", "khata", "kolom", "chithi", "khobor", "golpo", "gan", "sur", "chobi", "rong", "alo", "ondhokar", "sokal", "dupur", "bikal", "rat", "din", "mas", "bochor"]
    words += [k for k in data["autocorrect"] if k.isalpha() and k.isascii() and 4 <= len(k) <= 9][:600]
    words = [w for w in dict.fromkeys(words) if all(ch in keys for ch in w)]
    scs = [{"steps": [{"op": "new", "config": cfg}] + [{"op": "key", "key": keys[ch], "sel": 0} for ch in w] + [{"op": "get_state"}] +
                     [{"op": "okkhor", "text": w[:n]} for n in range(1, len(w) + 1)]} for w in words]
    for w, sc, r in zip(words, scs, run_replay_parallel(scs, timeout=1800)):
        rr = r["results"]
        st_i = len(w) + 1
        if any("panic" in x for x in rr) or "state" not in rr[st_i]:
            continue
        # every typed prefix has its memo entry: the dictionary candidates of each against the transliteration of that prefix
        for n in range(1, len(w) + 1):
            base = rr[st_i + n].get("text")
            for kind, text, num in rr[st_i]["state"].get("cache", {}).get(w[:n], []):
                if kind != 2 or base is None:
                    continue
                want = (10 * levenshtein(base, text)) & 0xFF
                if num != want:
                    return sc, rr[st_i], ("typed %r: the memo entry of %r (plain transliteration %r) holds the dictionary candidate %r ranked by %d; ten times its edit distance is %d" % (
                        w, w[:n], base, text, num, want)), "a dictionary candidate is not ranked by its edit distance"
    return None


def obl_dictionary_rank(check, budget_s=None):
    shapes = [dict(item_len=a, base_len=b) for a in (1, 2, 3) for b in (1, 2, 3)]
    name = "dictionary_rank"
    check.bounds[name] = dict(item="1-3 symbolic Bengali-block characters", base="1-3 symbolic Bengali-block characters", edit_distance="uninterpreted function (0..25) that records its arguments")
    records, errors, summ = msym.run_shapes(check, name, shapes, make_dictionary_rank, budget_s=budget_s)
    vio = [r for r in records if r["kind"] == "violation" and (getattr(check, "only_clauses", None) is None or r["clause"] in check.only_clauses)]
    covers = set(r["name"] for r in records if r["kind"] == "cover")
    if errors:
        check.obligation(name, "mirsym", "inconclusive", "executor gave up: " + "; ".join(sorted(set(errors))[:3]))
        return
    if "cover:ranked" not in covers:
        check.obligation(name, "mirsym", "inconclusive", "vacuity: no candidate was built")
        return
    if not vio:
        check.obligation(name, "mirsym", "held", "%d paths; the candidate carries ten times the edit-distance function's answer for (base, word) on every path" % summ["paths"])
        return
    found = distance_search(vio)
    if found is None:
        check.obligation(name, "mirsym", "inconclusive", "counterexample not re-found natively: %s -> %s" % (json.dumps(vio[0]["inputs"], ensure_ascii=False)[:300], json.dumps(vio[0]["predicted"], ensure_ascii=False)[:200]))
        return
    sc, obs, what, role = found
    check.stats["traces_validated"] += 1
    st = check.finding(role, what, dict(scenario=sc, observed=obs, solver_counterexample=vio[0]["inputs"]))
    check.obligation(name, "mirsym", st, "%d paths; %d counterexample models" % (summ["paths"], len(vio)))


def join_concrete(base, sfx):
    """Reference joining on concrete strings (None when the reference is silent)."""
    rmc, lmc = ord(base[-1]), ord(sfx[0])
    if rmc in CL.RARE or lmc in CL.RARE:
        return None
    if (rmc in CL.VOWELS or rmc in CL.KARS) and lmc in CL.KARS:
        return base + chr(CL.B_YYA) + sfx
    if rmc == CL.KHANDA_TA:
        return base[:-1] + chr(CL.B_T) + sfx
    if rmc == CL.ANUSVARA:
        return base[:-1] + chr(CL.B_NGA) + sfx
    return base + sfx


def suffix_or_eviction_search(vs):
    found = suffix_search(vs)
    if found is None:
        import obl_phonetic
        f2 = obl_phonetic.memo_eviction_search()
        if f2 is not None:
            found = (f2[0], f2[1], f2[2], "suffix forms depend on how many words the context composed before")
    return found


def suffix_search(vs):
    """Native confirmation of a missing suffix form: a few bases x every key of suffix.json, typed in one context so that the base is
    memoised; every direct candidate of the base must appear joined."""
    keys = char_keys()
    data = bundled_data()
    bases = ["boi", "kolom", "desh", "hothat", "bidyut", "rong", "ma"]       # candidates ending in a vowel, a consonant, khanda-ta, anusvara, a vowel sign
    cfg = {"layout": "avro_phonetic", "database": REPO + "/data", "opts": {"phonetic_suggestion": True}}
    scs = []
    meta = []
    for bi, b2 in enumerate(bases):
        for si, (sk, sv) in enumerate(data["suffix"].items()):
            if any(ch not in keys for ch in sk) or (si + bi) % 3:
                continue        # every third key of suffix.json per base, shifted from base to base (all keys are walked, each with 2-3 bases)
            steps = [{"op": "new", "config": cfg}] + [{"op": "key", "key": keys[ch], "sel": 0} for ch in b2 + sk] + [{"op": "get_state"}]
            scs.append({"steps": steps})
            meta.append((b2, sk, sv))
    # bases that have a user auto-correct entry (one of them overriding a bundled entry): what is offered for the base alone must come back joined
    user_ac = {"bd": "bangladesh", "atm": "oTOmeTik", "xq": "kotha", "as": "", "forma": "o`"}     # the last two convert to nothing
    ucfg = dict(cfg)
    for b2 in user_ac:
        steps0 = [{"op": "write_user_file", "name": "autocorrect.json", "content": json.dumps(user_ac)}, {"op": "new", "config": ucfg}] + [{"op": "key", "key": keys[ch], "sel": 0} for ch in b2]
        for sk, sv in list(data["suffix"].items())[:60]:
            if any(ch not in keys for ch in sk):
                continue
            steps = list(steps0) + [{"op": "get_state", "_base": True}] + [{"op": "key", "key": keys[ch], "sel": 0} for ch in sk] + [{"op": "get_state"}]
            scs.append({"steps": steps})
            meta.append((b2, sk, sv))
    res = run_replay_parallel(scs, timeout=1800)
    for (b2, sk, sv), sc, r in zip(meta, scs, res):
        rr = r["results"]
        last = rr[-2]
        if "panic" in last:
            return sc, last, "typing %r panics: %s" % (b2 + sk, last["panic"]), None
        lst = last.get("suggestion", {}).get("list", [])
        if b2 in user_ac:
            # the list shown for the base alone: its First / Other candidates
            bi = [i for i, stp in enumerate(sc["steps"]) if stp.get("_base")][0]
            shown = [(k, t) for k, t, n in rr[bi].get("state", {}).get("suggestions", []) if k in (0, 2)]
            for kind, text in shown:
                j = join_concrete(text, sv) if text else None
                if j is not None and j not in lst:
                    return sc, last, ("user auto-correct file %s: %r alone is offered %r; typed on as %r (suffix %r = %r) the joined form %r is not offered; list %s" % (
                        json.dumps(user_ac), b2, text, b2 + sk, sk, sv, j, lst[:8])), "a candidate offered for the base alone does not come back joined"
            continue
        direct = rr[-1]["state"]["cache"].get(b2, [])
        for kind, text, n in direct:
            if not text:
                continue
            j = join_concrete(text, sv)
            if j is not None and j not in lst:
                return sc, last, ("typed %r = base %r + suffix %r (%r): the base candidate %r is not offered in joined form %r; list %s" % (
                    b2 + sk, b2, sk, sv, text, j, lst[:8])), "suffix form missing for a known base|suffix split"
    return None


def suffix_rank_search(vs):
    """Native: a suffix-built candidate carries the rank number of its base (bases x every key of suffix.json, typed key by key so that the
    base is memoised; rank numbers read from the state dump)."""
    keys = char_keys()
    data = bundled_data()
    bases = ["boi", "kolom", "rag", "ghor"]
    cfg = {"layout": "avro_phonetic", "database": REPO + "/data", "opts": {"phonetic_suggestion": True}}
    scs, meta = [], []
    for b2 in bases:
        for sk, sv in list(data["suffix"].items())[:400]:
            if any(ch not in keys for ch in sk):
                continue
            scs.append({"steps": [{"op": "new", "config": cfg}] + [{"op": "key", "key": keys[ch], "sel": 0} for ch in b2 + sk] + [{"op": "get_state"}]})
            meta.append((b2, sk, sv))
    for (b2, sk, sv), sc, r in zip(meta, scs, run_replay_parallel(scs, timeout=1800)):
        rr = r["results"]
        if any("panic" in x for x in rr):
            continue
        state = rr[-1].get("state", {})
        ranks = state.get("suggestions", [])
        own = set(t for _, t, _ in state.get("cache", {}).get(b2 + sk, []))
        for kind, text, n in state.get("cache", {}).get(b2, []):
            if kind != 2 or not text:
                continue
            j = join_concrete(text, sv)
            if j is None or j in own:
                continue
            for k2, t2, n2 in ranks:
                if t2 == j and k2 == 2 and n2 != n:
                    return sc, rr[-2], ("typed %r = base %r + suffix %r: the base candidate %r has distance number %d, the joined form %r is ranked with %d (list %s)" % (
                        b2 + sk, b2, sk, text, n, j, n2, rr[-2].get("suggestion", {}).get("list", [])[:8])), "suffix-built candidate does not inherit the distance of its base"
    return None


def unjustified_search(vs):
    """Native: words whose tail is NOT a key of suffix.json although something close to it is (another letter case), typed key by key: every
    dictionary-class candidate must be a memoised candidate of the word itself, or a memoised candidate of a prefix joined to the form of a
    tail that is a key of the table exactly as typed."""
    keys = char_keys()
    data = bundled_data()
    cfg = {"layout": "avro_phonetic", "database": REPO + "/data", "opts": {"phonetic_suggestion": True}}
    bases = ["manush", "boi", "desh", "kolom"]
    tails = []
    for sk in list(data["suffix"])[:200]:
        for j, ch in enumerate(sk):
            if ch.isalpha() and ch.islower():
                t = sk[:j] + ch.upper() + sk[j + 1:]
                if t not in data["suffix"] and all(c2 in keys for c2 in t):
                    tails.append(t)
                    break
    tails = list(dict.fromkeys(tails))[:120]
    scs, meta = [], []
    for b2 in bases:
        for t in tails:
            scs.append({"steps": [{"op": "new", "config": cfg}] + [{"op": "key", "key": keys[ch], "sel": 0} for ch in b2 + t] + [{"op": "get_state"}]})
            meta.append((b2, t))
    for (b2, t), sc, r in zip(meta, scs, run_replay_parallel(scs, timeout=1800)):
        rr = r["results"]
        if any("panic" in x for x in rr):
            continue
        state = rr[-1].get("state", {})
        w = b2 + t
        cache = state.get("cache", {})
        own = set(x[1] for x in cache.get(w, []))
        ok_texts = set(own)
        for i in range(1, len(w)):
            sv = data["suffix"].get(w[i:])
            if sv is None:
                continue
            for kind, text, n in cache.get(w[:i], []):
                j = join_concrete(text, sv) if text else None
                if j is not None:
                    ok_texts.add(j)
        for kind, text, n in state.get("suggestions", []):
            if kind in (0, 2) and text not in ok_texts:
                return sc, rr[-2], ("typed %r: the candidate %r is neither one of the word's own auto-correct / dictionary candidates %s nor a candidate of a prefix joined to the "
                                    "form of a tail that suffix.json lists (tails of this word in the table: %s)" % (
                                        w, text, sorted(own)[:4], [w[i:] for i in range(1, len(w)) if w[i:] in data["suffix"]])), "a candidate that nothing justifies"
    return None


def obl_suffix(check, conv_table, thorough=False, budget_s=None):
    kw = dict(mode="single", dict_max=1, emoji_names=False, emoticons=False, autocorrect=False, user_autocorrect=False, selections=False,
              fixed={"include_english": False, "ansi": False}, dist_mode="fixed", distinct=True)
    shapes = base_shapes([("", "")], [3] + ([4] if thorough else []), conv_table, **dict(kw, fixed={"include_english": False, "ansi": False, "smart_quote": False}))
    shapes += base_shapes([("\"", "\"")], [3], conv_table, **kw)
    shapes += base_shapes([("", "")], [3], conv_table, **dict(kw, prefix_kind="First", fixed={"include_english": False, "ansi": False, "smart_quote": False}))
    if thorough:
        shapes += base_shapes([("", "")], [3], conv_table, **dict(kw, distinct=False, fixed={"include_english": False, "ansi": False, "smart_quote": False}))
    # the base typed first (its list computed by the code from the oracles: dictionary word, bundled / user auto-correct entry), then the suffix
    # a context that has composed any number of other words before this one (memo of any size): the forms are as complete
    shapes += base_shapes([("", "")], [3], conv_table, **dict(kw, memo_extra=True, fixed={"include_english": False, "ansi": False, "smart_quote": False}))
    # two candidates per base, the first possibly empty (an auto-correct expansion that converts to nothing): the other one is joined all the same
    shapes += base_shapes([("", "")], [3], conv_table, **dict(kw, prefix_items=2, first_base_may_be_empty=True, dict_max=0, fixed={"include_english": False, "ansi": False, "smart_quote": False}))
    for ac, uac, dm in (((True, False, 1), (False, True, 1), (True, True, 0)) if thorough else ((False, False, 1), (True, True, 0))):
        shapes += base_shapes([("", "")], [3] + ([4] if thorough and dm else []), conv_table, **dict(kw, mode="suffix_pair", pair_base=2, autocorrect=ac, user_autocorrect=uac, dict_max=dm,
                                                                                                   fixed={"include_english": False, "ansi": False, "smart_quote": False}))
    check.bounds["assembly_suffix"] = dict(word="3%s symbolic letters/digits: every split point, suffix known or not" % (" or 4" if thorough else ""),
                                           memo="every proper prefix holds one candidate (dictionary word or auto-correct entry) of 1 symbolic Bengali-block code point",
                                           suffix_value="1 symbolic Bengali-block code point", wrappers=["W", "\"W\""])
    run_suggest_obligation(check, "assembly_suffix", shapes, ["cover:suffix_join"], budget_s=budget_s,
                           confirmers={"suffix_forms_complete": suffix_or_eviction_search, "memo_entry_holds_direct_candidates_only": stacked_suffix_search,
                                       "memo_entry_is_keyed_by_the_word": warm_search, "dictionary_candidates_carry_their_distance": suffix_rank_search,
                                       "candidates_of_the_base_come_back_joined": suffix_search, "candidates_are_justified": unjustified_search})


def emoji_search(vs):
    """Native confirmation for the emoticon / emoji-name clauses: walk the emojicon tables (confirmation only; the verdict is the solver's)."""
    keys = char_keys()
    data = bundled_data()
    cfg = {"layout": "avro_phonetic", "database": REPO + "/data", "opts": {"phonetic_suggestion": True, "smart_quote": False}}
    scs = []
    meta = []
    for emo, emoji in data["emoticon"].items():
        if all(ch in keys for ch in emo):
            scs.append({"steps": [{"op": "new", "config": cfg}] + [{"op": "key", "key": keys[ch], "sel": 0} for ch in emo]})
            meta.append(("emoticon", emo, [emoji]))
    for name, ems in list(data["emoji_name"].items()):
        # names that can be typed as a word: the splitter takes punctuation at the ends for punctuation, a name made of it alone has no word part
        if all(ch in keys for ch in name) and name not in data["emoticon"] and name[0].isalnum() and name[-1].isalnum():
            for pre, trail in (("", ""), ("(", ")")):
                t = pre + name + trail
                if t in data["emoticon"]:
                    continue
                scs.append({"steps": [{"op": "new", "config": cfg}] + [{"op": "key", "key": keys[ch], "sel": 0} for ch in t]})
                meta.append(("name", t, [pre + e + trail for e in ems]))
    res = run_replay_parallel(scs, timeout=1800)
    for (kind, t, want), sc, r in zip(meta, scs, res):
        last = r["results"][-1]
        if "panic" in last:
            return sc, last, "typing %r panics: %s" % (t, last["panic"]), None
        lst = last.get("suggestion", {}).get("list", [])
        if kind == "emoticon":
            if want[0] not in lst or lst.count(t) < 1:      # "stays available": at least once (a repeat is C07's business)
                return sc, last, "emoticon %r: offered %s; its emoji %r %s, the literal text occurs %d time(s)" % (
                    t, lst, want[0], "is offered" if want[0] in lst else "is missing", lst.count(t)), "emoticon does not offer its emoji / literal text"
        else:
            pos = [lst.index(e) if e in lst else -1 for e in want]
            if -1 in pos or pos != sorted(pos):
                return sc, last, "emoji name text %r: offered %s, expected all of %s in table order" % (t, lst, want), "emoji name does not offer all its emoji in order"
    return None


def translit_search(vs):
    """Native confirmation for `transliteration_is_a_candidate`: words x punctuation runs, smart quotes off, against the real okkhor."""
    keys = char_keys()
    words = ["ah", "kt", "ami", "a"]
    runs = ["", ",", ",,", ".", "..", "...", "!", "?", "(", ")", "\"", "-", ";", ",,,", ".,", "()"]
    texts = [p + w + t for w in words for p in runs[:8] for t in runs]
    texts += [t for t in SPECIAL_TERMS + [":`)", "(:`)", ":`:`", "a:`", "`", "``", ":`", ".", "..", ",,", ";)", "()"] if all(ch in keys for ch in t)]
    # letter case carries meaning in Avro, alone and next to a neighbour: every pair of letters in both cases, and pairs inside a word
    import string
    texts += [a + b for a in string.ascii_letters for b in string.ascii_letters]
    texts += [x + a + b + y for a in "nNgGjJ" for b in "gGjJhH" for x in ("b", "bho") for y in ("o", "al")]
    texts = list(dict.fromkeys(texts))
    scs = []
    for t in texts:
        cfg = {"layout": "avro_phonetic", "database": REPO + "/data", "opts": {"phonetic_suggestion": True, "smart_quote": False}}
        scs.append({"steps": [{"op": "new", "config": cfg}] + [{"op": "key", "key": keys[ch], "sel": 0} for ch in t] + [{"op": "split", "text": t, "colon": False}]})
    res = run_replay_parallel(scs)
    need = set()
    for r in res:
        for p in r["results"][-1].get("parts", []):
            need.add(p)
    table = conv_table_for(list(need))
    for t, sc, r in zip(texts, scs, res):
        rr = r["results"]
        last = rr[-2]
        if "panic" in last:
            return sc, last, "typing %r panics: %s" % (t, last["panic"]), None
        parts = rr[-1]["parts"]
        want = "".join(table.get(p, "") if p else "" for p in parts)
        lst = last.get("suggestion", {}).get("list", [])
        if want not in lst:
            return sc, last, "typed %r: the transliteration %r of its parts %s is not among the candidates %s" % (t, want, parts, lst), "transliteration is not a candidate"
    return None


def ansi_text_search(vs):
    """Native: with ANSI output on (from the start, or switched on by update_engine while idle) no candidate of any bundled emoticon, emoji
    name or auto-correct key is the typed text itself or an emoji."""
    keys = char_keys()
    data = bundled_data()
    tables = run_replay([{"steps": [{"op": "emoji_tables"}]}])[0]["results"][0]
    all_emoji = set(e for v in tables.get("names", {}).values() for e in v) | set(tables.get("emoticons", {}).values())
    texts = [t for t in list(tables.get("emoticons", {}))[:400] + list(tables.get("names", {}))[:150] + [k for k, v in data["autocorrect"].items() if k == v][:200] + ["ami", "cool"]
             if t and all(ch in keys for ch in t)]
    texts = list(dict.fromkeys(texts))
    scs, meta = [], []
    for t in texts:
        for eng in (False, True):
            on = {"layout": "avro_phonetic", "database": REPO + "/data", "opts": {"phonetic_suggestion": True, "ansi": True, "english": eng, "smart_quote": False}}
            scs.append({"steps": [{"op": "new", "config": on}] + [{"op": "key", "key": keys[ch], "sel": 0} for ch in t] + [{"op": "okkhor", "text": t}]})
            meta.append((t, eng))
    for (t, eng), sc, r in zip(meta, scs, run_replay_parallel(scs)):
        rr = r["results"]
        last = rr[-2]
        if "panic" in last:
            continue
        lst = last.get("suggestion", {}).get("list", [])
        tr = rr[-1].get("text")
        bad = [x for x in lst if x in all_emoji or (x == t and tr != t)]
        if bad:
            return sc, last, "ANSI output on (English option %s): typed %r offers %s - %r cannot be encoded" % (eng, t, lst, bad[0]), "ANSI mode offers the typed text or an emoji"
    return None


def obl_emoji(check, conv_table, thorough=False, budget_s=None):
    kw = dict(mode="single", dict_max=1, emoji_count=2, suffixes=False, selections=False, autocorrect=False, user_autocorrect=False, dist_mode="fixed",
              preconsult_emoji=True)
    shapes = base_shapes((WRAPPERS_QUICK + [("", ",,"), (",,", "")]) if thorough else (WRAPPERS_QUICK[:6] + [("", ",,")]), [1, 2] if thorough else [1], conv_table, **kw)
    shapes += special_term_shapes(SPECIAL_TERMS + [":`)", "(:`)", ":`:`", "a:`", "`", "``"], **dict(kw, preconsult_emoji=False))
    # auto-correct entries (bundled and the user's, values any letters - also the key itself): under ANSI nothing of the typed text comes through
    shapes += base_shapes([("", ""), ("\"", "\"")], [1], conv_table, **dict(kw, autocorrect=True, user_autocorrect=True, emoji_names=False, emoticons=False, preconsult_emoji=False))
    # names with a hyphen or an underscore inside (`t-rex`): the middle character of a three-character word ranges over them too
    shapes += base_shapes([("", "")], [3], conv_table, **dict(kw, inner_marks=True, emoticons=False, dict_max=0, fixed={"smart_quote": False, "include_english": False}))
    # emoticons with a hyphen inside (`X-D`): the table's answer for the text exactly as typed is fixed before the code runs
    shapes += base_shapes([("", "")], [3], conv_table, **dict(kw, inner_marks=True, emoji_names=False, dict_max=0, preconsult_emoji=True, fixed={"smart_quote": False, "include_english": False}))
    check.bounds["assembly_emoji"] = dict(word="1%s symbolic letters/digits" % ("-2" if thorough else ""), wrappers=[s["pre"] + "W" + s["trail"] for s in shapes][:12],
                                          data="emoticon for the whole text present or absent; emoji name with 2 distinct emoji present or absent; 0-1 dictionary word",
                                          options="English, ANSI, smart quotes symbolic")
    run_suggest_obligation(check, "assembly_emoji", shapes, ["cover:emoticon", "cover:emoji_name"],
                           confirmers={"emoticon_offers_its_emoji_and_keeps_the_literal_text": emoji_search,
                                       "emoji_name_offers_all_its_emoji_in_table_order_wrapped": emoji_search,
                                       "transliteration_is_a_candidate": translit_search, "ansi_offers_nothing_it_cannot_encode": ansi_text_search}, budget_s=budget_s)


def quote_pair_search(vs):
    """Native confirmation of a smart-quote pairing violation: same text, option on vs off; lists must be equal after un-curling (raw text identical)."""
    keys = char_keys()
    un = {0x2018: "'", 0x2019: "'", 0x201C: '"', 0x201D: '"'}

    def uncurl_s(t):
        return "".join(un.get(ord(ch), ch) for ch in t)
    words = ["sesh", "a", "\\", "smile", "k"]
    wraps = [("\"", "\""), ("'", "'"), ("\"", ""), ("", "'"), ("(\"", "\")"), ("\"'", "'\"")] + QUOTE_THEN_CONVERTED
    plain_wrapped = set(p + w + t for w in ("sesh", "a", "smile", "k") for p, t in wraps)
    texts = [p + w + t for w in words for p, t in wraps] + SPECIAL_TERMS + QUOTED_AUTOCORRECT_TERMS
    scs = []
    meta = []
    for t in texts:
        if any(ch not in keys for ch in t):
            continue
        for en in (True, False):
            for ansi in (False, True):
                steps = []
                for cid, sq in ((0, True), (1, False)):
                    cfg = {"layout": "avro_phonetic", "database": REPO + "/data", "opts": {"phonetic_suggestion": True, "english": en, "ansi": ansi, "smart_quote": sq}}
                    steps += [{"op": "new", "ctx": cid, "config": cfg}] + [{"op": "key", "ctx": cid, "key": keys[ch], "sel": 0} for ch in t] + [{"op": "get_state", "ctx": cid}]
                scs.append({"steps": steps})
                meta.append((t, en, ansi))
    res = run_replay_parallel(scs)
    for (t, en, ansi), sc, r in zip(meta, scs, res):
        rr = r["results"]
        states = [i for i, x in enumerate(rr) if x.get("op") == "get_state"]
        on, off = rr[states[0] - 1], rr[states[1] - 1]
        if "panic" in on or "panic" in off:
            continue
        lon, loff = on.get("suggestion", {}).get("list", []), off.get("suggestion", {}).get("list", [])
        son, soff = rr[states[0]]["state"]["prev_selection"], rr[states[1]]["state"]["prev_selection"]
        # every candidate equal after un-curling; the raw English candidate (last, English on, not ANSI) stays exactly as typed
        same = len(lon) == len(loff) and all(uncurl_s(a) == uncurl_s(b2) for a, b2 in zip(lon, loff))
        if same and en and not ansi and loff and loff[-1] == t and len(loff) > 1 and lon[-1] != t:
            same = False
        if not same or son != soff:
            return sc, [on, off], "typed %r (English %s, ANSI %s): with smart quotes %s (preselection %d), without %s (preselection %d)" % (
                t, en, ansi, lon, son, loff, soff), "smart quotes change the list beyond curling"
        # a plain word in wrapping quotes: with the option on no candidate but the raw typed text keeps a straight quote
        if t in plain_wrapped:
            kept = [x for x in lon if x != t and ("'" in x or '"' in x)]
            if kept:
                return sc, [on, off], "typed %r (English %s, ANSI %s): with smart quotes on the candidate %r keeps a straight quote (list %s)" % (
                    t, en, ansi, kept[0], lon), "smart quotes leave a wrapping quote straight"
    return None


def obl_quote_pair(check, conv_table, thorough=False, budget_s=None):
    kw = dict(mode="quote_pair", dict_max=1, emoji_count=1, suffixes=False, selections=True, autocorrect=False, user_autocorrect=False, dist_mode="fixed")
    shapes = base_shapes(WRAPPERS_QUICK, [0, 1] + ([2] if thorough else []), conv_table, **kw)
    # a closing quote followed by punctuation that converts to something else (an escaped colon, the explicit hasanta): the candidates are
    # Bengali text whose punctuation is already converted, the quotes are those of the typed text
    shapes += base_shapes([w for w in QUOTE_THEN_CONVERTED if (w[0] + w[1]) in conv_table or all(x in conv_table for x in w if x)], [1], conv_table, **kw)
    shapes += special_term_shapes(SPECIAL_TERMS, **kw)
    shapes += special_term_shapes(QUOTED_AUTOCORRECT_TERMS, **dict(kw, autocorrect=True, real_autocorrect=True))
    check.bounds["quote_pairing"] = dict(word="0-1%s symbolic letters/digits" % ("/2" if thorough else ""), wrappers=[s["pre"] + "W" + s["trail"] for s in shapes][:10],
                                         data="0-1 dictionary word, emoji name / emoticon / learned selection present or absent", options="English, ANSI symbolic; smart quotes on vs off")
    run_suggest_obligation(check, "quote_pairing", shapes, ["cover:quote_pair"],
                           confirmers={"smart_quotes_keep_length_and_order": quote_pair_search, "smart_quotes_keep_preselection": quote_pair_search,
                                       "smart_quotes_curl_every_candidate": quote_pair_search}, budget_s=budget_s)


def reconfig_search(vs):
    """Native: words (emoji names, emoticons, dictionary words, quoted words) typed under one option set, the options changed by
    update_engine with the layout unchanged, the same words typed again: every list and preselection must be those of a context newly
    created with the new options."""
    keys = char_keys()
    words = ["smile", "atm", "cool", "ami", "\"sesh\"", ":)", "rage", "boi."]
    sets = [{"ansi": False, "english": False, "smart_quote": True}, {"ansi": True, "english": False, "smart_quote": True},
            {"ansi": False, "english": True, "smart_quote": True}, {"ansi": False, "english": False, "smart_quote": False},
            {"ansi": True, "english": True, "smart_quote": False}]

    def cfg(o):
        return {"layout": "avro_phonetic", "database": REPO + "/data", "opts": dict(o, phonetic_suggestion=True)}
    scs, meta = [], []
    # choices learned under the first option set (an emoji, the raw text, a Bengali candidate), then ANSI switched on: nothing that cannot be encoded is offered
    tables = run_replay([{"steps": [{"op": "emoji_tables"}]}])[0]["results"][0]
    all_emoji = set(e for v in tables.get("names", {}).values() for e in v) | set(tables.get("emoticons", {}).values())
    lsc, lmeta = [], []
    for w in ("cool", "smile", "atm", "ami"):
        for idx in (0, 1, 2, -1):
            a = {"ansi": False, "english": True, "smart_quote": True}
            b = {"ansi": True, "english": True, "smart_quote": True}
            steps = [{"op": "new", "ctx": 0, "config": cfg(a)}] + [{"op": "key", "ctx": 0, "key": keys[ch], "sel": 0} for ch in w]
            lsc.append((steps, w, idx, a, b))
    first = run_replay_parallel([{"steps": x[0]} for x in lsc])
    l2 = []
    for (steps, w, idx, a, b), r in zip(lsc, first):
        lst = r["results"][-1].get("suggestion", {}).get("list", [])
        i = idx if idx >= 0 else len(lst) - 1
        if not lst or i >= len(lst) or i < 0:
            continue
        again = [{"op": "key", "ctx": 0, "key": keys[ch], "sel": 0} for ch in w]
        st2 = steps + [{"op": "commit", "ctx": 0, "index": i}] + again + [{"op": "finish", "ctx": 0}, {"op": "update", "ctx": 0, "config": cfg(b)}] + again
        l2.append(({"steps": st2}, w, i, lst[i]))
    for (sc, w, i, cand), r in zip(l2, run_replay_parallel([x[0] for x in l2])):
        rr = r["results"]
        if any("panic" in x for x in rr):
            continue
        got = rr[-1].get("suggestion", {})
        if got.get("kind") == "full" and (got.get("len", 0) == 0 or got.get("sel", 0) >= got.get("len", 0)):
            return sc, rr[-1], ("%r typed with ANSI off, candidate %d (%r) committed, ANSI switched on by update_engine (idle, same layout), %r typed again: %d candidates, "
                                "previously-selected index %d" % (w, i, cand, w, got.get("len", 0), got.get("sel", 0))), "preselection outside the list after an option change"
        bad = [t for t in got.get("list", []) if t in all_emoji or t == w]
        if bad:
            return sc, rr[-1], ("%r typed with ANSI off, candidate %d (%r) committed, ANSI switched on by update_engine (idle, same layout), %r typed again: the list %s offers %r, "
                                "which cannot be encoded" % (w, i, cand, w, got.get("list"), bad[0])), "ANSI mode offers an emoji or the raw text"
    for a in sets:
        for b in sets:
            if a == b:
                continue
            steps = [{"op": "new", "ctx": 0, "config": cfg(a)}]
            for w in words:
                steps += [{"op": "key", "ctx": 0, "key": keys[ch], "sel": 0} for ch in w] + [{"op": "finish", "ctx": 0}]
            steps += [{"op": "update", "ctx": 0, "config": cfg(b)}, {"op": "new", "ctx": 1, "config": cfg(b)}]
            marks = []
            for w in words:
                for cx in (0, 1):
                    steps += [{"op": "key", "ctx": cx, "key": keys[ch], "sel": 0} for ch in w]
                    marks.append((w, cx, len(steps) - 1))
                    steps.append({"op": "finish", "ctx": cx})
            scs.append({"steps": steps})
            meta.append((a, b, marks))
    for (a, b, marks), sc, r in zip(meta, scs, run_replay_parallel(scs)):
        rr = r["results"]
        if any("panic" in x for x in rr):
            p = [x for x in rr if "panic" in x][0]
            return sc, p, "options %s changed to %s by update_engine: panic: %s" % (json.dumps(a), json.dumps(b), p["panic"]), "reconfiguration: panic"
        for i in range(0, len(marks), 2):
            (w, _, ia), (_, _, ib) = marks[i], marks[i + 1]
            x, y = rr[ia].get("suggestion", {}), rr[ib].get("suggestion", {})
            if (x.get("list"), x.get("sel"), x.get("preedit")) != (y.get("list"), y.get("sel"), y.get("preedit")):
                return sc, [rr[ia], rr[ib]], ("%r typed under options %s, then the options changed to %s by update_engine (same layout) and %r typed again: the context offers %s "
                                             "(preselected %s, pre-edit %s); a context newly created with the new options offers %s (preselected %s, pre-edit %s)" % (
                                                 w, json.dumps(a), json.dumps(b), w, x.get("list", [])[:5], x.get("sel"), (x.get("preedit") or [])[:2],
                                                 y.get("list", [])[:5], y.get("sel"), (y.get("preedit") or [])[:2])), "an option change does not take effect for a word typed before it"
    return None


def obl_reconfig(check, conv_table, thorough=False, budget_s=None):
    """`suggest` on one object under two configurations in a row (update_engine with the layout unchanged keeps the object and its memo)."""
    kw = dict(mode="reconfig_pair", dict_max=1, emoji_count=1, selections=False, dist_mode="fixed", distinct=True, suffixes=False, autocorrect=False, user_autocorrect=False)
    shapes = []
    # the options before the change are enumerated (one shape each, so that the pool can spread them), the ones after it are symbols
    for ansi1 in (False, True):
        for eng1 in (False, True):
            f1 = {"ansi": ansi1, "include_english": eng1, "smart_quote": False}
            shapes += base_shapes([("", "")], [1] + ([2] if thorough else []), conv_table, **dict(kw, emoticons=False, selections=True, fixed=f1, fixed2={"smart_quote": False}))
            if thorough:
                shapes += base_shapes([("(", ")")], [1], conv_table, **dict(kw, fixed=f1, fixed2={"smart_quote": False}, selections=True))
        shapes += base_shapes([("", "")], [3], conv_table, **dict(kw, suffixes=True, emoji_names=False, emoticons=False,
                                                               fixed={"ansi": ansi1, "include_english": False, "smart_quote": False}, fixed2={"include_english": False, "smart_quote": False}))
        shapes += special_term_shapes(SPECIAL_TERMS[:3], **dict(kw, fixed={"ansi": ansi1, "include_english": False, "smart_quote": False}, fixed2={"include_english": False, "smart_quote": False}))
    # a choice learned earlier (under whatever options were in force then) for the word: a Bengali candidate, an emoji, the raw text
    shapes += base_shapes([("", "")], [1], conv_table, **dict(kw, emoticons=False, selections=True, learned_kind="anything_once_offered", preconsult_emoji=True,
                                                           fixed={"ansi": False, "include_english": True, "smart_quote": False}, fixed2={"smart_quote": False}))
    for sq1 in (False, True):
        shapes += base_shapes([("\"", "\"")], [1], conv_table, **dict(kw, emoji_names=False, emoticons=False, selections=True,
                                                                     fixed={"ansi": False, "include_english": False, "smart_quote": sq1}, fixed2={"ansi": False, "include_english": False}))
    check.bounds["reconfiguration"] = dict(word="1%s symbolic letters/digits (3 with suffix split points)" % ("-2" if thorough else ""), wrappers=["W", "\"W\""],
                                           options="English, ANSI, smart quotes: independent symbols before and after the change",
                                           data="0-1 dictionary word, emoji name / emoticon / learned selection present or absent")
    run_suggest_obligation(check, "reconfiguration", shapes, ["cover:reconfigured"], budget_s=budget_s,
                           confirmers={"reconfigured_context_gives_the_list_of_a_new_one": reconfig_search, "reconfigured_context_gives_the_preselection_of_a_new_one": reconfig_search,
                                       "ansi_offers_no_emoji_or_raw_text": reconfig_search, "ansi_offers_nothing_it_cannot_encode": reconfig_search,
                                       "preselection_inside_list": reconfig_search, "list_not_empty": reconfig_search})


def obl_warm(check, conv_table, thorough=False, budget_s=None):
    kw = dict(mode="warm_pair", dict_max=1, emoji_names=False, emoticons=False, selections=True, dist_mode="fixed", distinct=True,
              fixed={"ansi": False, "include_english": False, "smart_quote": False})
    shapes = base_shapes([("", "")], [1, 2], conv_table, **kw)
    shapes += base_shapes([("", "")], [3], conv_table, **dict(kw, selections=thorough, autocorrect=thorough, user_autocorrect=True))
    shapes += base_shapes([("\"", "")], [1], conv_table, **dict(kw, fixed={"ansi": False, "include_english": False}))
    # a context with any number of earlier words in its memo against a new one (a word with suffix split points and a plain one)
    shapes += base_shapes([("", "")], [1, 3], conv_table, **dict(kw, selections=False, memo_extra=True))
    # single runs: what the call leaves in the memo (one entry, under the word exactly as typed, holding its direct candidates)
    single = dict(kw, mode="single", autocorrect=True, user_autocorrect=True, suffixes=True, selections=False)
    shapes += base_shapes([("", ""), ("\"", "\"")], [1, 2], conv_table, **single)
    check.bounds["memo_transparency"] = dict(word="1-3 symbolic letters/digits", first_run="memo holds the proper prefixes only, scratch buffers arbitrary",
                                             second_run="same object afterwards (memo now holds the word itself, scratch holds the previous answer)")
    # C08's clauses ride along in the single shapes; they are not C05's
    run_suggest_obligation(check, "memo_transparency", shapes, ["cover:warm"], budget_s=budget_s,
                           confirmers={"memo_entry_holds_direct_candidates_only": stacked_suffix_search, "warm_context_gives_the_same_list": warm_search,
                                       "memo_entry_is_keyed_by_the_word": warm_search,
                                       "context_with_history_gives_the_list_of_a_new_one": warm_or_long_history_search,
                                       "context_with_history_gives_the_preselection_of_a_new_one": warm_or_long_history_search,
                                       "warm_context_gives_the_same_preselection": warm_search})


def obl_learn(check, conv_table, thorough=False, budget_s=None, quoted_only=False):
    kw = dict(mode="learn", dict_max=1, dist_mode="fixed", emoji_names=True, emoji_count=1, emoticons=False, autocorrect=False, user_autocorrect=False,
              selections=True, suffixes=False, fixed={"ansi": False}, distinct=True)
    if quoted_only:
        # C17: the preselection is the same with smart quotes on and off also after a choice was learned for a quoted word - what is stored
        # must not depend on the curling (smart quotes symbolic, English off)
        shapes = base_shapes([("\"", "\""), ("'", ""), ("\"'", "'\"")], [1, 2] if thorough else [1], conv_table, **dict(kw, emoji_names=False, fixed={"ansi": False, "include_english": False}))
        check.bounds["learn_roundtrip_quoted"] = dict(word="1%s symbolic letters/digits in quotes" % ("-2" if thorough else ""), wrappers=[s["pre"] + "W" + s["trail"] for s in shapes],
                                                      commit="any index other than the preselected one", options="smart quotes symbolic")
        run_suggest_obligation(check, "learn_roundtrip_quoted", shapes, ["cover:learn"], confirmers={"learned_choice_is_preselected_next_time": learn_search}, budget_s=budget_s)
        return
    shapes = base_shapes(WRAPPERS_QUICK, [1, 2] if thorough else [1], conv_table, **kw)
    shapes += base_shapes([("", "")], [3], conv_table, **dict(kw, suffixes=True, emoji_names=False, fixed={"ansi": False, "include_english": False, "smart_quote": False}))
    shapes += special_term_shapes([t for t in SPECIAL_TERMS if any(ch.isalnum() for ch in t)], **dict(kw, fixed={"ansi": False, "include_english": False}))
    # "... for that word followed by a known suffix it points at the correspondingly joined candidate": words of 2 and 3 letters, the learned
    # choices of the prefixes and the table's answers for the tails any
    pb = dict(kw, mode="single", suffixes=True, preselect_base=True, emoji_names=False, dict_max=1, fixed={"ansi": False, "include_english": False, "smart_quote": False})
    shapes += base_shapes([("", "")], [3], conv_table, **pb)
    # the joined form offered by the dictionary, not necessarily first (two words of two characters: a one-character choice + a one-character suffix form)
    shapes += base_shapes([("", "")], [2, 3] if thorough else [2], conv_table, **dict(pb, dict_len=2, dict_max=2))
    check.bounds["learn_roundtrip"] = dict(word="1%s symbolic letters/digits; 3 with suffix split points; 2-3 letters read as learned word + known suffix" % ("-2" if thorough else ""),
                                           wrappers=[s["pre"] + "W" + s["trail"] for s in shapes][:10], commit="any index other than the preselected one",
                                           data="0-1 dictionary word, emoji name present or absent, earlier learned entry any", options="English, smart quotes symbolic")
    run_suggest_obligation(check, "learn_roundtrip", shapes, ["cover:learn", "cover:base_choice_joined"],
                           confirmers={"learned_choice_is_preselected_next_time": learn_search, "other_learned_entries_survive_a_commit": survive_search,
                                       "learned_base_choice_selects_the_joined_candidate": base_choice_search}, budget_s=budget_s)


# ------------------------------------------------------------------------- C03: suggestions off

def make_only_phonetic(shape):
    n = shape["n"]

    def build(st, it):
        prog = it.p
        orc = Oracles(st, dict(conv_len=1), conv_table={})
        ctx = dict(prog=prog, shape=shape, orc=orc)
        it.env["overrides"] = assembly_overrides(st, ctx, orc)
        s = [st.sym_char("s%d" % i, 0x21, 0x7e) for i in range(n)]
        for c in s:
            st.assume(zin(c, ALNUM + CL.META27))
        # the object holds the user's auto-correct list (any entries) and whatever an earlier word left in its buffers: none of it may show
        ps = mk_phonetic_suggestion(prog, [], pbuffer=orc.sym_string("pbuf", 1, 0x20, 0x9FF), user_autocorrect=SMap("user_autocorrect", [], user_ac_oracle(orc, {})))
        st.ctx = dict(s=s, orc=orc)
        fn = prog.find_fn("PhoneticSuggestion", "suggest_only_phonetic")

        def run():
            return it.call_function(fn, [Ref([ps], 0, True), Str(s)])
        return run

    def on_path(st, it, out):
        c = st.ctx
        s = c["s"]
        orc = c["orc"]
        model = st.get_model()

        def inputs(m):
            return dict(term=model_string(m, s), conversions=[[model_string(m, a), model_string(m, r)] for k, a, r in orc.log if k == "conv"])

        def pred(m):
            if out[0] == "panic":
                return dict(panic=out[1].message)
            return dict(text=model_string(m, out[1].elems))
        if out[0] == "panic":
            return [dict(kind="violation", clause="no_panic", inputs=inputs(model), predicted=pred(model))]
        r = out[1].elems
        is_meta = [zin(x, CL.META27) for x in s]
        terms = []
        clauses = []

        def cv(part):
            if not part:
                return []
            return orc.memo.get(("conv", key_of_elems(part)))
        for i in range(n + 1):
            for j in range(i, n + 1):
                if i == j and i != n:
                    continue
                cond = z3.And([is_meta[k] for k in range(0, i)] + [z3.Not(is_meta[k]) for k in range(i, j)] + [is_meta[k] for k in range(j, n)])
                parts = (s[:i], s[i:j], s[j:]) if i != j else (s, [], [])
                cs = [cv(p) for p in parts]
                if 0 < i < j < n:
                    clauses.append(("cover:wrapped", cond))
                if any(x is None for x in cs):
                    terms.append(z3.Not(cond))     # this split was not the one converted on this path
                else:
                    terms.append(z3.Implies(cond, seq_eq(r, list(cs[0]) + list(cs[1]) + list(cs[2]))))
        clauses.append(("three_conversions_concatenated", z3.And(terms)))
        return eval_clauses(st, clauses, lambda cn, m: dict(kind="violation", clause=cn, inputs=inputs(m), predicted=pred(m)))
    return build, on_path


def only_phonetic_history_search():
    """Native: the suggestions-off answer after the same context composed other words, with the list option on or off (switched by
    update_engine with the same layout, which keeps the method object): it must still be the conversion of the three parts."""
    keys = char_keys()

    def cfg(on):
        return {"layout": "avro_phonetic", "database": REPO + "/data", "opts": {"phonetic_suggestion": on}}
    histories = [[], [(False, "k")], [(True, "kot")], [(False, "k"), (True, "boi")], [(False, "k,")], [(True, "ami"), (False, "(")], [(True, "(k)")], [(False, "ami"), (False, "ami")]]
    probes = ["(", "k", "a.", "(k)", ".", "kot", "ami", "k,"]
    table = conv_table_for(["(", ")", ".", ",", "k", "a", "kot", "ami"])
    parts_of = {}
    for t, r in zip(probes, run_replay([{"steps": [{"op": "split", "text": t, "colon": False} for t in probes]}])[0]["results"]):
        parts_of[t] = r["parts"]
    scs, meta = [], []
    for h in histories:
        for t in probes:
            steps = [{"op": "new", "config": cfg(h[0][0] if h else False)}]
            mode = h[0][0] if h else False
            for on, w in h:
                if on != mode:
                    steps.append({"op": "update", "config": cfg(on)})
                    mode = on
                steps += [{"op": "key", "key": keys[ch], "sel": 0} for ch in w] + [{"op": "finish"}]
            if mode:
                steps.append({"op": "update", "config": cfg(False)})
            steps += [{"op": "key", "key": keys[ch], "sel": 0} for ch in t]
            scs.append({"steps": steps})
            meta.append((h, t))
    for (h, t), sc, r in zip(meta, scs, run_replay_parallel(scs)):
        last = r["results"][-1]
        want = "".join(table.get(p, "") if p else "" for p in parts_of[t])
        got = last.get("suggestion", {}).get("text")
        if "panic" in last or got != want:
            hist = ", ".join("%r with the list %s" % (w, "on" if on else "off") for on, w in h) or "nothing"
            return (sc, last, "one context composed %s; then, suggestions off, typed %r gives %r; the conversion of its three parts %s is %r" % (hist, t, got, parts_of[t], want))
    # the user's auto-correct list (present at start-up, or picked up by a re-configuration) has no say with suggestions off
    uac = json.dumps({"k": "kotha", "kot": "ami", "ami": "tumi"})
    scs2, meta2 = [], []
    for t in ("k", "kot", "ami", "(k)", "ami."):
        for late in (False, True):
            steps = ([{"op": "new", "config": cfg(False)}, {"op": "write_user_file", "name": "autocorrect.json", "content": uac, "mtime_plus": 5}, {"op": "update", "config": cfg(False)}] if late
                     else [{"op": "write_user_file", "name": "autocorrect.json", "content": uac}, {"op": "new", "config": cfg(False)}])
            steps += [{"op": "key", "key": keys[ch], "sel": 0} for ch in t] + [{"op": "split", "text": t, "colon": False}]
            scs2.append({"steps": steps})
            meta2.append((t, late))
    for (t, late), sc, r in zip(meta2, scs2, run_replay_parallel(scs2)):
        rr = r["results"]
        parts = rr[-1].get("parts", [])
        conv = run_replay([{"steps": [{"op": "okkhor", "text": p} for p in parts]}])[0]["results"]
        want = "".join(x.get("text", "") for x in conv)
        got = rr[-2].get("suggestion", {}).get("text")
        if "panic" in rr[-2] or got != want:
            return (sc, rr[-2], "user auto-correct file %s (%s), suggestions off: typed %r gives %r; the conversion of its three parts %s is %r" % (
                uac, "loaded by update_engine" if late else "present at start-up", t, got, parts, want))
    return None


def obl_only_phonetic(check, max_n, budget_s=None):
    shapes = [dict(n=n) for n in range(1, max_n + 1)]
    check.bounds["only_phonetic"] = dict(text="1..%d symbolic characters over letters/digits + the 27 punctuation characters" % max_n,
                                         conversion="okkhor replaced by an uninterpreted function of its argument")
    records, errors, summ = msym.run_shapes(check, "only_phonetic_glue", shapes, make_only_phonetic, budget_s=budget_s)
    vio = [r for r in records if r["kind"] == "violation" and (getattr(check, "only_clauses", None) is None or r["clause"] in check.only_clauses)]
    covers = set(r["name"] for r in records if r["kind"] == "cover")
    if errors:
        check.obligation("only_phonetic_glue", "mirsym", "inconclusive", "executor gave up: " + "; ".join(sorted(set(errors))[:3]))
        return
    if "cover:wrapped" not in covers:
        check.obligation("only_phonetic_glue", "mirsym", "inconclusive", "vacuity: no wrapped word reached")
        return
    if not vio:
        check.obligation("only_phonetic_glue", "mirsym", "held", "%d paths; result = conv(leading punctuation) ++ conv(word) ++ conv(trailing punctuation) on every path" % summ["paths"])
        # native cross-check of the same law with the real okkhor on concrete texts
        return
    # confirm natively: the law must fail with the real converter too
    keys = char_keys()
    texts = sorted(set(v["inputs"]["term"] for v in vio))[:40] + ["{kotha}", ",ah,,", "\"ami\"", "(k)", "a.", ".a"]
    # punctuation whose conversion depends on what stands next to it, directly before / after words that start with a digit or a letter
    texts += [p + w + t for p in (".", "..", "(.", ",", "'", "-", "(", "~.", "...") for w in ("5", "a", "75", "k1") for t in ("", ".", ",", ".5"[:1])]
    texts = list(dict.fromkeys(texts))
    cfg = {"layout": "avro_phonetic", "opts": {"phonetic_suggestion": False}}
    scs = [{"steps": [{"op": "new", "config": cfg}] + [{"op": "key", "key": keys[ch], "sel": 0} for ch in t] + [{"op": "split", "text": t, "colon": False}]} for t in texts if all(ch in keys for ch in t)]
    res = run_replay(scs)
    found = None
    for sc, r in zip(scs, res):
        rr = r["results"]
        parts = rr[-1]["parts"]
        conv = run_replay([{"steps": [{"op": "okkhor", "text": p} for p in parts]}])[0]["results"]
        want = "".join(x.get("text", "") for x in conv)
        got = rr[-2].get("suggestion", {}).get("text")
        if "panic" in rr[-2] or got != want:
            found = (sc, rr[-2:], "typed %r with suggestions off gives %r, conversion of the three parts %r gives %r" % (
                "".join(parts), got, parts, want))
            break
    if found is None:
        found = only_phonetic_history_search()
    if found is None:
        check.obligation("only_phonetic_glue", "mirsym", "inconclusive", "counterexample not re-found natively: %s" % json.dumps(vio[0]["inputs"], ensure_ascii=False)[:300])
    else:
        st = check.finding("phonetic single string is not the concatenation of the three conversions", found[2], dict(scenario=found[0], observed=found[1]))
        check.obligation("only_phonetic_glue", "mirsym", st, found[2])


# ------------------------------------------------------------------------- data contracts and C11 reload

def validate_data_contracts(check):
    """The oracle contracts that are facts about the bundled files are checked on those files at every run."""
    d = bundled_data()
    problems = []
    if any(k == "" or v == "" for k, v in d["suffix"].items()):
        problems.append("suffix.json has an empty key or value")
    if any(k == "" or v == "" for k, v in d["autocorrect"].items()):
        problems.append("autocorrect.json has an empty key or value")
    for name in ("emoji_name", "emoji_bengali"):
        for k, v in d[name].items():
            if k == "" or not v or len(set(v)) != len(v) or any(e == "" for e in v):
                problems.append("%s table: entry %r is empty / has duplicates" % (name, k))
                break
    if any(k == "" or v == "" for k, v in d["emoticon"].items()):
        problems.append("emoticon table has an empty key or value")
    if any(k.isalnum() for k in d["emoticon"]):
        pass
    for name in ("emoji_name", "emoji_bengali", "emoticon"):
        vals = d[name].values()
        flat = [e for v in vals for e in (v if isinstance(v, list) else [v])]
        if any(any(ord(ch) < 0x80 and ch.isalnum() for ch in e) and len(e) == 1 for e in flat):
            problems.append("%s table holds a plain ASCII letter as emoji" % name)
    check.assume("data contracts validated on the bundled files at this run: suffix / auto-correct / emoji / emoticon tables have no empty key or value; "
                 "the emoji listed for one name are distinct")
    if problems:
        check.obligation("data_contracts", "data", "inconclusive", "; ".join(problems))
        return False
    check.obligation("data_contracts", "data", "held", "%d suffixes, %d auto-correct entries, %d emoticons, %d + %d emoji names" % (
        len(d["suffix"]), len(d["autocorrect"]), len(d["emoticon"]), len(d["emoji_name"]), len(d["emoji_bengali"])))
    return True


def make_reload(shape):
    from obl_phonetic import io_overrides, mk_phonetic_method, pm_field
    wlen = shape["wlen"]
    conv_table = shape["conv_table"]

    def build(st, it):
        prog = it.p
        orcA = Oracles(st, shape, conv_table=conv_table)
        ctx = dict(prog=prog, shape=shape, orc=orcA)
        ovA = assembly_overrides(st, ctx, orcA)
        it.env["overrides"] = ovA
        word = [st.sym_char("w%d" % i, 0x30, 0x7a) for i in range(wlen)]
        for c in word:
            st.assume(zin(c, ALNUM))
        cfg, opts = mk_config(prog, st, {"phonetic_suggestion": True, "ansi": False, "include_english": False, "smart_quote": False})
        def explicit(tag, has, extra):
            ents = []
            if has:
                ents.append([tuple(word), SString(orcA.sym_string(tag + "v", 1, 0x61, 0x7a))])
            if extra:
                k = [st.sym_char(tag + "_other%d" % i, 0x61, 0x7a) for i in range(wlen)]
                st.assume(z3.Not(seq_eq(k, word)))
                ents.append([tuple(k), SString(orcA.sym_string(tag + "ov", 1, 0x61, 0x7a))])
            return SMap("user_autocorrect_" + tag, ents)
        old_map = explicit("old", shape["old_has"], shape.get("old_extra", False))
        ps = mk_phonetic_suggestion(prog, [], user_autocorrect=old_map)
        selections = SMap("selections", [])
        old_time = st.sym_bv("old_mtime", 64)
        pm = mk_phonetic_method(prog, [], ps, selections, 0, modified=old_time)
        ctx.update(word=word, opts=opts)
        st.ctx = ctx

        def run():
            first = run_suggest(it, st, ctx, ps, word, selections, cfg)
            # the user edits the file: the environment reports a later modification time and a new list
            shapeB = dict(shape)
            orcB = Oracles(st, shapeB, conv_table=conv_table)
            orcB.memo = dict((k, v) for k, v in orcA.memo.items() if k[0] != "user_autocorrect")   # same okkhor, dictionary, bundled files
            orcB.convs = orcA.convs
            orcB.n = 1000
            new_map = explicit("new", shape["new_has"], shape.get("new_extra", False))
            ioc = dict()
            ov = dict(assembly_overrides(st, ctx, orcB))
            io = io_overrides(st, ioc)

            def from_slice(it2, args, callee):
                from mirsym.values import ok
                return ok(new_map)

            def modified(it2, args, callee):
                from mirsym.values import ok
                t = st.sym_bv("new_mtime", 64)
                st.assume(z3.UGT(t, old_time))          # environment contract: an edit advances the modification time
                return ok(Opaque("time", t))

            def okay(it2, args, callee):
                from mirsym.values import ok
                return ok(Opaque("bytes", ("file",)))
            for k in ("Config::get_user_phonetic_autocorrect", "Config::get_user_phonetic_selection_data"):
                ov[k] = io[k]
            ov.update({"from_slice": from_slice, "Metadata::modified": modified, "fs::metadata": okay, "fs::read": okay, "File::open": okay, "File::metadata": okay})
            it.env["overrides"] = ov
            it._ov_cache = {}
            fn = prog.find_trait_fn("PhoneticMethod", "Method", "update_engine")
            it.call_function(fn, [Ref([pm], 0, True), Ref([cfg], 0)])
            ps_now = pm_field(prog, pm, "suggestion")
            second = run_suggest(it, st, ctx, ps_now, word, selections, cfg)
            # a context created after the edit
            fresh = mk_phonetic_suggestion(prog, [], user_autocorrect=new_map)
            third = run_suggest(it, st, ctx, fresh, word, SMap("selections", []), cfg)
            ctx["orcB"] = orcB
            return dict(first=first, second=second, third=third, uses_new=ps_field(prog, ps_now, "user_autocorrect") is new_map)
        return run

    def on_path(st, it, out):
        prog = it.p
        c = st.ctx
        model = st.get_model()

        def inputs(m):
            return dict(word=model_string(m, c["word"]), old_list_has_the_word=bool(shape["old_has"]), new_list_has_the_word=bool(shape["new_has"]),
                        old_extra=bool(shape.get("old_extra")), new_extra=bool(shape.get("new_extra")))

        def pred(m):
            if out[0] == "panic":
                return dict(panic=out[1].message)
            r = out[1]
            return dict(after_reload=[rank_json(prog, m, x) for x in r["second"][0].items], fresh=[rank_json(prog, m, x) for x in r["third"][0].items])
        if out[0] == "panic":
            return [dict(kind="violation", clause="no_panic", inputs=inputs(model), predicted=pred(model))]
        r = out[1]
        t2 = [rank_text(x) for x in r["second"][0].items]
        t3 = [rank_text(x) for x in r["third"][0].items]
        same = z3.And([seq_eq(a, b) for a, b in zip(t2, t3)]) if len(t2) == len(t3) else z3.BoolVal(False)
        clauses = [("reloaded_context_equals_a_new_one", same), ("reloaded_list_is_in_use", r["uses_new"]), ("cover:reload", True)]
        return eval_clauses(st, clauses, lambda cn, m: dict(kind="violation", clause=cn, inputs=inputs(m), predicted=pred(m)))
    return build, on_path


def reload_search(vs):
    keys = char_keys()
    cfg = {"layout": "avro_phonetic", "database": REPO + "/data", "opts": {"phonetic_suggestion": True}}
    typ = [{"op": "key", "key": keys[ch], "sel": 0} for ch in "xyz"]
    edits = [("changed from 'ami' to 'tumi'", "{\"xyz\":\"ami\"}", "{\"xyz\":\"tumi\"}", "reload: memo keeps candidates of the old user auto-correct list"),
             ("deleted (other entries kept)", "{\"xyz\":\"ami\",\"abc\":\"tumi\"}", "{\"abc\":\"tumi\"}", "reload: memo keeps the candidate of a deleted user auto-correct entry"),
             ("added", "{\"abc\":\"tumi\"}", "{\"xyz\":\"ami\",\"abc\":\"tumi\"}", "reload: memo hides a newly added user auto-correct entry")]
    for how, before, after, role in edits:
        steps = [{"op": "write_user_file", "name": "autocorrect.json", "content": before}, {"op": "new", "ctx": 0, "config": cfg}] + \
                [dict(s, ctx=0) for s in typ] + [{"op": "finish", "ctx": 0},
                 {"op": "write_user_file", "name": "autocorrect.json", "content": after, "mtime_plus": 5}, {"op": "update", "ctx": 0, "config": cfg}] + \
                [dict(s, ctx=0) for s in typ] + [{"op": "new", "ctx": 1, "config": cfg}] + [dict(s, ctx=1) for s in typ]
        sc = {"steps": steps}
        rr = run_replay([sc])[0]["results"]
        a = [x for x in rr if x.get("op") == "key"]
        upd, fresh = a[5], a[8]
        if "panic" in upd or "panic" in fresh:
            continue
        la, lb = upd["suggestion"]["list"], fresh["suggestion"]["list"]
        if la != lb:
            return sc, [upd, fresh], ("user auto-correct entry for xyz %s and update_engine called: the updated context offers %s, "
                                      "a new context offers %s" % (how, la, lb)), role
    return None


def obl_reload(check, conv_table, thorough=False, budget_s=None):
    kw = dict(dict_max=1, dist_mode="fixed", emoji_names=False, emoticons=False, autocorrect=True, user_autocorrect=True, suffixes=False, selections=False,
              distinct=True, conv_table=conv_table)
    shapes = []
    for wl in ([1, 2] if thorough else [1]):
        for oh in (0, 1):
            for nh in (0, 1):
                for ex in ((False, False), (True, True)) if (thorough or (oh, nh) == (1, 0)) else ((False, False),):
                    shapes.append(dict(kw, wlen=wl, old_has=oh, new_has=nh, old_extra=ex[0], new_extra=ex[1]))
    check.bounds["reload"] = dict(word="1%s symbolic letters/digits typed before and after the reload" % ("-2" if thorough else ""),
                                  lists="old and new user auto-correct lists independent oracles (entry for the word present or absent in each)",
                                  environment="modification time strictly later, file readable and parseable")
    records, errors, summ = msym.run_shapes(check, "reload_equivalence", shapes, make_reload, budget_s=budget_s)
    vio = [r for r in records if r["kind"] == "violation" and (getattr(check, "only_clauses", None) is None or r["clause"] in check.only_clauses)]
    covers = set(r["name"] for r in records if r["kind"] == "cover")
    name = "reload_equivalence"
    if errors:
        check.obligation(name, "mirsym", "inconclusive", "executor gave up: " + "; ".join(sorted(set(errors))[:3]))
        return
    if "cover:reload" not in covers:
        check.obligation(name, "mirsym", "inconclusive", "vacuity: no path completed a reload")
        return
    if not vio:
        check.obligation(name, "mirsym", "held", "%d paths; after the reload the context answers like a newly created one on every path" % summ["paths"])
        return
    found = reload_search(vio)
    if found is None:
        check.obligation(name, "mirsym", "inconclusive", "counterexample not re-found natively: %s" % json.dumps(vio[0], ensure_ascii=False)[:400])
        return
    sc, obs, what, role = found
    check.stats["traces_validated"] += 1
    st = check.finding(role, what, dict(scenario=sc, observed=obs, solver_counterexample=vio[0]["inputs"]))
    check.sample(dict(obligation=name, counterexample=vio[0]["inputs"], outcome=vio[0]["predicted"]))
    check.obligation(name, "mirsym", st, "%d paths; %d counterexample models" % (summ["paths"], len(vio)))


# ------------------------------------------------------------------------- fixed-layout candidate assembly (C15, C16, C17, C18, C02)

FIXED_WRAPPERS = [("", ""), ("\"", "\""), ("'", "'"), ("(", ")"), ("", "।"), ("\"", "")]


def make_fixed_assembly(shape):
    from fixedlib import mk_fixed
    from obl_fixed import fm_field
    pre = [ord(c) for c in shape.get("pre", "")]
    trail = [ord(c) for c in shape.get("trail", "")]
    wlen = shape["wlen"]
    tlen = shape.get("tlen", 1)
    mode = shape.get("mode", "single")

    def build(st, it):
        prog = it.p
        orc = Oracles(st, shape, conv_table={})
        ctx = dict(prog=prog, shape=shape, orc=orc)
        ov = assembly_overrides(st, ctx, orc)

        def search_dictionary(it2, args, callee):
            word = elems_of(args[0])
            sugg = args[2].get()
            k = ("fdict", key_of_elems(word))
            if k not in orc.memo:
                items = []
                if len(word) > 0:
                    for i in range(shape.get("dict_max", 2)):
                        b = z3.Bool(orc.fresh("fdict_more"))
                        if st.choose([b, z3.Not(b)]) != 0:
                            break
                        # contract of the regex search: a dictionary word that starts with the typed word; the typed word itself, if
                        # listed, comes first in its table (validated on the bundled dictionary); table entries are distinct
                        if i == 0:
                            same = z3.Bool(orc.fresh("fdict_is_word"))
                            if st.choose([same, z3.Not(same)]) == 0:
                                items.append((list(word), 0))
                                continue
                        ext = orc.sym_string("fdw", 1, BENGALI_LO, 0x09DF)
                        w = list(word) + ext
                        # ... except that a table may list a word twice in a row (the bundled dictionary does, once: the code's dedup() of
                        # neighbours is what keeps the list free of repeats)
                        for w2, _ in items[:-1]:
                            if len(w2) == len(w):
                                st.assume(z3.Not(seq_eq(w2, w)))
                        dnew = st.sym_bv(orc.fresh("fdd"), 8) if shape.get("dist_mode", "symbolic") == "symbolic" else 10 * (i + 1)
                        if items and len(items[-1][0]) == len(w) and is_sym(dnew):
                            st.assume(z3.Implies(seq_eq(items[-1][0], w), dnew == bv(items[-1][1], 8)))     # the same word has the same distance
                        elif items and len(items[-1][0]) == len(w):
                            st.assume(z3.Not(seq_eq(items[-1][0], w)))
                        items.append((w, dnew))
                orc.memo[k] = items
                orc.log.append(("dict", tuple(word), items))
            for w, d in orc.memo[k]:
                sugg.items.append(mk_rank(prog, "Other", w, d))
            return UNIT
        ov["search_dictionary"] = search_dictionary
        it.env["overrides"] = ov
        word = [st.sym_char("w%d" % i, BENGALI_LO, 0x09DF) for i in range(wlen)]
        for c in word:
            st.assume(zin(c, CL.CONSONANTS + [v for v in CL.VOWELS + CL.KARS if v not in CL.RARE] + [CL.HASANTA]))
        buf = pre + word + trail
        typed = [st.sym_char("t%d" % i, 0x21, 0x7e) for i in range(tlen)]
        fixed = {"fixed_suggestion": True}
        fixed.update(shape.get("fixed", {}))
        cfg, opts = mk_config(prog, st, fixed)
        stale = [mk_rank(prog, "Other", orc.sym_string("stale", 1, 0x20, 0x9FF), st.sym_bv(orc.fresh("staled"), 8))]
        fm = mk_fixed(prog, buf, typed, None, stale, [])
        ctx.update(word=word, buf=buf, typed=typed, fm=fm, cfg=cfg, opts=opts, pre=pre, trail=trail)
        st.ctx = ctx
        fn = prog.find_fn("FixedMethod", "create_dictionary_suggestion")

        def call(fm_, cfg_):
            if "data" not in ctx:
                ctx["data"] = mk_assembly_data(prog, st, ctx)
            ret = it.call_function(fn, [Ref([fm_], 0, True), Ref([ctx["data"]], 0), Ref([cfg_], 0)])
            return ret, [deep_copy(x) for x in fm_field(prog, fm_, "suggestions").items]

        def run():
            res = {"first": call(fm, cfg)}
            if mode == "quote_pair":
                idx = prog.structs["Config"].index("smart_quote")
                cfg2 = deep_copy(cfg)
                q = cfg.fields[idx]
                cfg2.fields[idx] = simp(z3.Not(q)) if is_sym(q) else (not q)
                fm2 = mk_fixed(prog, buf, typed, None, [], [])
                res["second"] = call(fm2, cfg2)
            return res
        return run

    def on_path(st, it, out):
        prog = it.p
        c = st.ctx
        model = st.get_model()
        orc = c["orc"]

        def inputs(m):
            d = dict(buffer=model_string(m, c["buf"]), typed=model_string(m, c["typed"]), opts=opts_json(m, c["opts"]), oracle_answers=[])
            for e in orc.log[:30]:
                if e[0] == "dict":
                    d["oracle_answers"].append(["dict", model_string(m, e[1]), [[model_string(m, w), int(model_value(m, dd))] for w, dd in e[2]]])
                else:
                    v = e[2]
                    if v is not None and v and isinstance(v[0], list):
                        v = [model_string(m, x) for x in v]
                    elif v is not None:
                        v = model_string(m, v)
                    d["oracle_answers"].append([e[0], model_string(m, e[1]), v])
            return d

        def pred(m):
            if out[0] == "panic":
                return dict(panic=out[1].message)
            ret, ranks = out[1]["first"]
            return dict(list=[rank_json(prog, m, x) for x in ranks])
        if out[0] == "panic":
            return [dict(kind="violation", clause="no_panic", inputs=inputs(model), predicted=pred(model))]
        clauses = fixed_clauses(st, it, c, out[1], mode)
        return eval_clauses(st, clauses, lambda cn, m: dict(kind="violation", clause=cn, inputs=inputs(m), predicted=pred(m)))
    return build, on_path


def fixed_clauses(st, it, c, res, mode):
    prog = it.p
    orc = c["orc"]
    opts = c["opts"]
    ret, ranks = res["first"]
    V = prog.enums["Rank"]
    f = dict(zip(prog.enum_fields[("Suggestion", "Full")], ret.fields)) if ret.variant == prog.enums["Suggestion"]["Full"] else None
    clauses = []
    if f is None:
        return [("returns_a_list", False)]
    shown = [x.elems for x in f["suggestions"].items]
    texts = [rank_text(x) for x in ranks]
    L = len(ranks)
    ansi = zb(opts["ansi"])
    quote = zb(opts["smart_quote"])
    english = z3.And(zb(opts["include_english"]), z3.Not(ansi))
    word, pre, trail, buf, typed = c["word"], c["pre"], c["trail"], c["buf"], c["typed"]
    # C02
    clauses.append(("list_not_empty", L >= 1))
    clauses.append(("preselection_inside_list", f["selection"] == 0 and L >= 1))
    clauses.append(("auxiliary_is_the_composed_text", seq_eq(f["auxiliary"].elems, buf)))
    clauses.append(("returned_list_is_the_scratch_list", z3.And([seq_eq(a, b) for a, b in zip(shown, texts)]) if len(shown) == L else False))
    clauses.append(("suggestion_carries_the_ansi_switch", simp(zb(f["ansi"]) == ansi)))
    # C15
    qpre, qtrail = (ref_quote(pre, False), ref_quote(trail, True)) if len(word) > 0 else (pre, trail)
    first_on, first_off = qpre + list(word) + qtrail, pre + list(word) + trail
    if L >= 1:
        clauses.append(("first_candidate_is_the_composed_text", z3.If(quote, seq_eq(texts[0], first_on), seq_eq(texts[0], first_off))))
    clauses.append(("at_most_nine", L <= 9))

    def cls(x):
        return x.variant

    def num(x):
        return x.fields[1] if len(x.fields) > 1 else 0
    raw = [i for i, x in enumerate(ranks) if cls(x) == V["Last"]]
    differs = z3.Not(seq_eq(buf, typed))
    want_raw = z3.And(english, differs)
    clauses.append(("english_candidate_iff_enabled_and_not_ansi_and_different",
                    z3.If(want_raw, z3.BoolVal(raw == [L - 1]), z3.BoolVal(raw == []))))
    if raw:
        clauses.append(("english_candidate_is_the_raw_keys", seq_eq(texts[raw[-1]], typed)))
    order = []
    for i in range(L):
        for j in range(i + 1, L):
            a, b = ranks[i], ranks[j]
            if cls(b) == V["First"] and cls(a) != V["First"]:
                order.append(z3.BoolVal(False))
            if cls(a) == V["Other"] and cls(b) == V["Other"]:
                order.append(z3.ULE(bv(num(a), 8), bv(num(b), 8)))
    clauses.append(("non_emoji_candidates_by_distance", z3.And(order) if order else True))
    dist = [z3.Not(seq_eq(texts[i], texts[j])) for i in range(L) for j in range(i + 1, L)]
    clauses.append(("no_candidate_twice", z3.And(dist) if dist else True))
    # every dictionary candidate shown is a wrapped answer of the search for the word
    dk = ("fdict", key_of_elems(word))
    answers = orc.memo.get(dk, [])
    just = []
    for i, x in enumerate(ranks):
        if cls(x) == V["Other"]:
            alts = [z3.If(quote, seq_eq(texts[i], qpre + list(w) + qtrail), seq_eq(texts[i], pre + list(w) + trail)) for w, d in answers]
            just.append(z3.Or(alts) if alts else z3.BoolVal(False))
    clauses.append(("dictionary_candidates_are_search_answers_wrapped", z3.And(just) if just else True))
    # C16 / C18
    emo = [i for i, x in enumerate(ranks) if cls(x) == V["Emoji"]]
    clauses.append(("ansi_offers_no_emoji_or_raw_text", z3.Implies(ansi, z3.BoolVal(len(emo) == 0 and len(raw) == 0))))
    ek = ("emoticon", key_of_elems(typed))
    if ek in orc.memo and orc.memo[ek] is not None:
        clauses.append(("emoticon_offers_its_emoji", z3.Implies(z3.Not(ansi), texts_equal_any(texts, orc.memo[ek]))))
        clauses.append(("cover:emoticon", z3.Not(ansi)))
    else:
        nk = ("emoji_name", key_of_elems(word))
        if nk in orc.memo and orc.memo[nk] is not None and len(word) > 0:
            ems = orc.memo[nk]
            pos = []
            if len(emo) == len(ems):
                for k, e in enumerate(ems):
                    pos.append(z3.If(quote, seq_eq(texts[emo[k]], qpre + list(e) + qtrail), seq_eq(texts[emo[k]], pre + list(e) + trail)))
            else:
                pos.append(z3.BoolVal(False))
            clauses.append(("bengali_emoji_name_offers_all_its_emoji_in_table_order_wrapped", z3.Implies(z3.Not(ansi), z3.And(pos))))
            clauses.append(("cover:emoji_name", z3.Not(ansi)))
    clauses.append(("cover:assembled", True))
    if mode == "quote_pair":
        ret2, ranks2 = res["second"]
        t2 = [rank_text(x) for x in ranks2]
        if len(t2) != L:
            clauses.append(("smart_quotes_keep_length_and_order", False))
        else:
            pair = []
            for a, b, x in zip(texts, t2, ranks):
                pair.append(seq_eq(a, b) if cls(x) == V["Last"] else seq_eq(uncurl(a), uncurl(b)))
            clauses.append(("smart_quotes_keep_length_and_order", z3.And(pair) if pair else True))
            if len(word) > 0:
                curl = []
                npre, ntr = len(pre), len(trail)
                emoticon_here = orc.memo.get(("emoticon", key_of_elems(typed))) is not None
                for a, b, x in zip(texts, t2, ranks):
                    if cls(x) == V["Last"]:
                        continue
                    if cls(x) == V["Emoji"] and emoticon_here:
                        continue        # the emoji of an emoticon typed with these keys is not wrapped
                    if len(a) != len(b) or len(a) < npre + ntr:
                        curl.append(z3.BoolVal(False))
                        continue
                    t_on = [z3.If(quote, bv(p_, 32), bv(q_, 32)) for p_, q_ in zip(a, b)]
                    t_off = [z3.If(quote, bv(q_, 32), bv(p_, 32)) for p_, q_ in zip(a, b)]
                    want = ref_quote(pre, False) + t_off[npre:len(t_off) - ntr] + ref_quote(trail, True)
                    curl.append(seq_eq(t_on, want))
                clauses.append(("smart_quotes_curl_every_candidate", z3.And(curl) if curl else True))
        clauses.append(("cover:quote_pair", True))
    return clauses


def probhat_keys():
    """Bengali character / ASCII punctuation -> (key code, modifier) through the bundled Probhat layout."""
    from common import keyname_spec, published_keys
    lay = json.load(open(os.path.join(REPO, "data", "Probhat.json"), encoding="utf-8"))["layout"]
    codes = {n: c for n, c in published_keys()}
    stem_to_code = {}
    for name, (cp, stem, kind) in keyname_spec().items():
        if kind == "key" and name in codes:
            stem_to_code[stem] = codes[name]
    out = {}
    for k, v in lay.items():
        m = __import__("re").match(r"Key_(.*)_(Normal|AltGr)$", k)
        if m and len(v) >= 1 and m.group(1) in stem_to_code and v not in out:
            out[v] = (stem_to_code[m.group(1)], 2 if m.group(2) == "AltGr" else 0)
    return out


def fixed_list_search(vs):
    """Native confirmation for the fixed assembly clauses: Bengali emoji names, dictionary prefixes and emoticons typed through Probhat,
    bare and wrapped in quotes/brackets, under the option settings; each clause's predicate is evaluated on the real lists."""
    clause = vs[0]["clause"]
    keys = probhat_keys()
    data = bundled_data()
    un = {0x2018: "'", 0x2019: "'", 0x201C: '"', 0x201D: '"'}
    # রাজযক্ষ্ম, রাজযক: prefixes of the one word the bundled dictionary lists twice; চাঁদ পাতা পুষ্প: emoji names that are prefixes of more than
    # twenty dictionary words (the list being sorted is longer than the length up to which the standard unstable sort is an insertion sort)
    words = ["হাসি", "কুল", "লল", "আমা", "দাদ", "কর", "আগুন", "ঘর", "ক", "রাজযক্ষ্ম", "রাজযক", "চাঁদ", "পাতা", "পুষ্প"]
    wraps = [("", ""), ('"', '"'), ("'", "'"), ("(", ")"), ('"', "")]
    scs = []
    meta = []
    for w in words:
        for pre, trail in wraps:
            text = pre + w + trail
            if any(ch not in keys for ch in text):
                continue
            for sq in (True, False):
                for en in (False, True):
                    for ansi in (False, True):
                        cfg = {"layout": os.path.join(REPO, "data", "Probhat.json"), "database": REPO + "/data",
                               "opts": {"fixed_suggestion": True, "smart_quote": sq, "english": en, "ansi": ansi, "kar": False}}
                        steps = [{"op": "new", "config": cfg}] + [{"op": "key", "key": keys[ch][0], "mod": keys[ch][1]} for ch in text] + [{"op": "get_state"}]
                        scs.append({"steps": steps})
                        meta.append((w, pre, trail, sq, en, ansi))
    # emoticons: the fixed method looks them up under the raw keys, whatever those keys compose
    ck = char_keys()
    raw_scs, raw_meta = [], []
    for t in (";)", ":)", ":(", ":-)", ";-)", ":P", "<3"):
        if any(ch not in ck for ch in t):
            continue
        for en in (False, True):
            for ansi in (False, True):
                cfg = {"layout": os.path.join(REPO, "data", "Probhat.json"), "database": REPO + "/data",
                       "opts": {"fixed_suggestion": True, "english": en, "ansi": ansi}}
                raw_scs.append({"steps": [{"op": "new", "config": cfg}] + [{"op": "key", "key": ck[ch], "mod": 0} for ch in t] + [{"op": "get_state"}]})
                raw_meta.append((t, en, ansi))
    for (t, en, ansi), sc, r in zip(raw_meta, raw_scs, run_replay_parallel(raw_scs)):
        rr = r["results"]
        last = rr[-2]
        if "panic" in last:
            return sc, last, "fixed mode: the keys %r panic: %s" % (t, last["panic"]), None
        st = rr[-1].get("state", {})
        ranks = st.get("suggestions", [])
        emoji_items = [x for k, x, n in ranks if k == 1]
        emo = data["emoticon"].get(st.get("typed", ""))
        lst = [x for k, x, n in ranks]
        if ansi and (emoji_items or any(k == 3 for k, x, n in ranks)):
            return sc, last, ("fixed mode (English %s, ANSI on): the keys %r compose %r and the list is %s - an emoji / the raw text is offered although it cannot be encoded" % (
                en, t, st.get("buffer"), lst)), "fixed assembly: ansi_offers_no_emoji_or_raw_text"
        if not ansi and emo is not None and emo not in emoji_items:
            return sc, last, ("fixed mode (English %s): the keys %r are the emoticon of %r, the list is %s" % (en, t, emo, lst)), "fixed assembly: emoticon_offers_its_emoji"
    # traditional joining on: compositions in which a ligature-making sign ends up without a non-joiner in front of it (typed after a
    # chandrabindu that automatic chandrabindu moves behind it; at the start of the text without automatic vowels): the first candidate
    # is still the text exactly as composed
    trad_scs, trad_meta = [], []
    for t in ("পঁু", "কঁূ", "তঁৃ", "ু", "কু", "পঁুল", "হঁু"):
        if any(ch not in keys for ch in t):
            continue
        for vowel in (True, False):
            for chandra in (True, False):
                cfg = {"layout": os.path.join(REPO, "data", "Probhat.json"), "database": REPO + "/data",
                       "opts": {"fixed_suggestion": True, "smart_quote": False, "kar": True, "vowel": vowel, "chandra": chandra}}
                trad_scs.append({"steps": [{"op": "new", "config": cfg}] + [{"op": "key", "key": keys[ch][0], "mod": keys[ch][1]} for ch in t] + [{"op": "get_state"}]})
                trad_meta.append((t, vowel, chandra))
    for (t, vowel, chandra), sc, r in zip(trad_meta, trad_scs, run_replay_parallel(trad_scs)):
        rr = r["results"]
        last = rr[-2]
        if "panic" in last:
            return sc, last, "fixed mode: typing %r panics: %s" % (t, last["panic"]), None
        st = rr[-1].get("state", {})
        lst = [x for k, x, n in st.get("suggestions", [])]
        if st.get("buffer") and (not lst or lst[0] != st["buffer"]):
            return sc, last, ("fixed mode (traditional joining on, automatic vowels %s, automatic chandrabindu %s): the keys of %r compose %r; the first candidate is %r" % (
                vowel, chandra, t, st["buffer"], lst[:1])), "fixed assembly: first_candidate_is_the_composed_text"
    # the list is made from the word as it is now, under the options in force now: a word typed, given up (erased key by key, erased at once,
    # committed or finished), the options changed while idle, the word typed again - against a context created with the new options
    hist_scs, hist_meta = [], []
    for w in ("হাসি", "কুল", "আগুন", "ক"):
        if any(ch not in keys for ch in w):
            continue
        tw = [{"op": "key", "key": keys[ch][0], "mod": keys[ch][1]} for ch in w]
        for how, ending in (("erased with BackSpace", [{"op": "backspace"}] * len(w)), ("erased with Ctrl+BackSpace", [{"op": "backspace", "ctrl": True}]),
                            ("committed", [{"op": "commit", "index": 0}]), ("finished", [{"op": "finish"}]), ("erased but for one letter and typed out again", None)):
            for flip in ({"ansi": True}, {"kar": True}, {"english": True}, {"smart_quote": False}, {}):
                o1 = {"fixed_suggestion": True, "smart_quote": True, "english": False, "ansi": False, "kar": False}
                c1 = {"layout": os.path.join(REPO, "data", "Probhat.json"), "database": REPO + "/data", "opts": o1}
                c2 = dict(c1, opts=dict(o1, **flip))
                if ending is None:
                    if flip or len(w) < 2:
                        continue
                    steps = [{"op": "new", "ctx": 0, "config": c1}] + [dict(x, ctx=0) for x in tw + [{"op": "backspace"}] * (len(w) - 1) + tw[1:]] + [{"op": "get_state", "ctx": 0}]
                else:
                    steps = [{"op": "new", "ctx": 0, "config": c1}] + [dict(x, ctx=0) for x in tw + ending] + [{"op": "update", "ctx": 0, "config": c2}] + [dict(x, ctx=0) for x in tw] + [{"op": "get_state", "ctx": 0}]
                a = len(steps) - 1
                steps += [{"op": "new", "ctx": 1, "config": c2}] + [dict(x, ctx=1) for x in tw] + [{"op": "get_state", "ctx": 1}]
                hist_scs.append({"steps": steps})
                hist_meta.append((w, how, flip, a))
    for (w, how, flip, a), sc, r in zip(hist_meta, hist_scs, run_replay_parallel(hist_scs)):
        rr = r["results"]
        if any("panic" in x for x in rr):
            px = [x for x in rr if "panic" in x][0]
            return sc, px, "fixed mode: %r typed, %s, typed again: panic: %s" % (w, how, px["panic"]), None
        x, y = rr[a].get("state", {}), rr[-1].get("state", {})
        if x.get("suggestions") != y.get("suggestions"):
            lx, ly = [t for k, t, n in x.get("suggestions", [])], [t for k, t, n in y.get("suggestions", [])]
            all_emoji = set(e for v in data["emoji_bengali"].values() for e in v)
            role = "fixed assembly: ansi_offers_no_emoji_or_raw_text" if flip.get("ansi") and any(t in all_emoji for t in lx) else None
            return sc, [rr[a], rr[-1]], ("fixed mode: %r typed and %s, options changed by %s through update_engine (idle), %r typed again: the list is %s; "
                                         "a context created with the new options shows %s" % (w, how, json.dumps(flip), w, lx, ly)), role
    res = run_replay_parallel(scs)

    def curl(t, closing):
        return "".join({"'": "’" if closing else "‘", '"': "”" if closing else "“"}.get(ch, ch) for ch in t)
    for (w, pre, trail, sq, en, ansi), sc, r in zip(meta, scs, res):
        rr = r["results"]
        last = rr[-2]
        if "panic" in last:
            return sc, last, "fixed mode: typing %r panics: %s" % (pre + w + trail, last["panic"]), None
        st = rr[-1]["state"]
        ranks = st["suggestions"]
        lst = [t for k, t, n in ranks]
        buf, typed = st["buffer"], st["typed"]
        qp, qt = (curl(pre, False), curl(trail, True)) if sq else (pre, trail)
        bad = None
        if not lst or lst[0] != qp + w + qt:
            bad = ("first_candidate_is_the_composed_text", "the first candidate is %r" % (lst[:1],))
        elif len(lst) > 9:
            bad = ("at_most_nine", "%d candidates" % len(lst))
        elif len(set(lst)) != len(lst):
            bad = ("no_candidate_twice", "a candidate occurs twice")
        else:
            ems = data["emoji_bengali"].get(w)
            emo = data["emoticon"].get(typed)
            emoji_items = [t for k, t, n in ranks if k == 1]
            if ansi and (emoji_items or any(k == 3 for k, t, n in ranks)):
                bad = ("ansi_offers_no_emoji_or_raw_text", "ANSI on but emoji / raw text offered")
            elif not ansi and emo is None and ems:
                want = [qp + e + qt for e in ems]
                got = [t for t in emoji_items]
                if got != want[:len(got)] or (len(got) < len(want) and len(lst) < 9 - (1 if en else 0)):
                    bad = ("bengali_emoji_name_offers_all_its_emoji_in_table_order_wrapped", "emoji offered %s, expected %s" % (got, want))
            if bad is None and sq and any((("'" in t[:len(pre)]) or ('"' in t[:len(pre)]) or ("'" in t[len(t) - len(trail):] if trail else False) or
                                         ('"' in t[len(t) - len(trail):] if trail else False)) for k, t, n in ranks if k != 3) and (pre or trail):
                bad = ("smart_quotes_curl_every_candidate", "a candidate keeps a straight wrapping quote")
            if bad is None:
                ds = [n for k, t, n in ranks if k == 2]
                if ds != sorted(ds):
                    bad = ("non_emoji_candidates_by_distance", "distances %s" % ds)
            if bad is None:
                raw = [t for k, t, n in ranks if k == 3]
                want_raw = en and not ansi and buf != typed
                if (raw != [typed]) if want_raw else bool(raw):
                    bad = ("english_candidate_iff_enabled_and_not_ansi_and_different", "raw candidates %s" % raw)
        if bad is not None:
            role = "fixed assembly: " + bad[0]
            return sc, last, "fixed mode (smart quotes %s, English %s, ANSI %s): typed %r composes %r and offers %s: %s" % (
                sq, en, ansi, typed, buf, lst, bad[1]), role
    return None


def obl_fixed_assembly(check, thorough=False, budget_s=None, mode="single"):
    shapes = []
    wrappers = FIXED_WRAPPERS if thorough else FIXED_WRAPPERS[:4]
    for pre, trail in wrappers:
        for wl in ((0, 1, 2) if thorough else (0, 1)):
            shapes.append(dict(pre=pre, trail=trail, wlen=wl, tlen=max(1, len(pre) + wl + len(trail)) if wl < 2 else 2, dict_max=2, emoji_count=2, mode=mode,
                               dist_mode="symbolic" if (pre, trail) == ("", "") else "fixed"))
    name = "fixed_assembly" if mode == "single" else "fixed_quote_pairing"
    check.bounds[name] = dict(word="0-%d symbolic Bengali letters/signs" % (2 if thorough else 1), wrappers=[p + "W" + t for p, t in wrappers],
                              raw_keys="1-2 symbolic printable ASCII characters", dictionary="0-2 answers of the regex search (contract: extensions of the typed word, the word itself first, distinct), symbolic distances",
                              emoji="emoticon for the raw keys / Bengali name with 2 distinct emoji present or absent", options="smart quotes, ANSI, English, traditional joining symbolic")
    records, errors, summ = msym.run_shapes(check, name, shapes, make_fixed_assembly, budget_s=budget_s)
    vio = [r for r in records if r["kind"] == "violation" and (getattr(check, "only_clauses", None) is None or r["clause"] in check.only_clauses)]
    covers = {}
    for r in records:
        if r["kind"] == "cover":
            covers[r["name"]] = covers.get(r["name"], 0) + 1
    check.extra.setdefault("covers", {}).update({name + "/" + k: v for k, v in covers.items()})
    if errors:
        check.obligation(name, "mirsym", "inconclusive", "executor gave up: " + "; ".join(sorted(set(errors))[:3]))
        return
    need = ["cover:assembled"] + (["cover:emoticon", "cover:emoji_name"] if mode == "single" else ["cover:quote_pair"])
    if any(n not in covers for n in need):
        check.obligation(name, "mirsym", "inconclusive", "vacuity: missing reachability witnesses %s" % [n for n in need if n not in covers])
        return
    if not vio:
        check.obligation(name, "mirsym", "held", "%d shapes, %d paths; %d reachability witnesses; every property query unsat" % (len(shapes), summ["paths"], len(covers)))
        return
    groups = {}
    for v in vio:
        groups.setdefault("fixed assembly: " + v["clause"], []).append(v)
    status = "held"
    worst = {"held": 0, "known": 1, "inconclusive": 2, "violated": 3}
    found = fixed_list_search(vio)
    if found is None:
        for key, vs in sorted(groups.items()):
            check.obligation(name + ":" + key, "mirsym", "inconclusive",
                             "counterexample under the data oracles was not re-found natively: typed %r composed %r, answers %s -> %s" % (
                                 vs[0]["inputs"]["typed"], vs[0]["inputs"]["buffer"], json.dumps(vs[0]["inputs"]["oracle_answers"], ensure_ascii=False)[:300],
                                 json.dumps(vs[0]["predicted"], ensure_ascii=False)[:300]))
        status = "inconclusive"
    else:
        sc, obs, what, role = found
        check.stats["traces_validated"] += 1
        status = check.finding(role or sorted(groups)[0], what, dict(scenario=sc, observed=obs, solver_counterexample=vio[0]["inputs"]))
        check.sample(dict(obligation=name, counterexample=vio[0]["inputs"], role=role))
    check.obligation(name, "mirsym", status, "%d counterexample models" % len(vio))


# ------------------------------------------------------------------------- C15: regex hygiene of the fixed search

REGEX_META = [ord(c) for c in "\\.+*?()|[]{}^$#&-~"]
CLEAN_STRIPS = [ord(c) for c in "|()[]{}^$*+?.~!@#%&-_='\";<>/\\,:`"] + [0x0964, 0x200C]


def make_regex_hygiene(shape):
    n = shape["n"]

    def build(st, it):
        prog = it.p
        word = [st.sym_char("w%d" % i) for i in range(n)]
        st.ctx = dict(word=word, patterns=[], tables=[])

        def regex_new(it2, args, callee):
            from mirsym.values import err, ok
            pat = list(elems_of(args[0]))
            st.ctx["patterns"].append(pat)
            # contract of the engine: `^literal[class]{0,k}$` compiles when the literal has no character the pattern language gives a
            # meaning to; with such a character it may be rejected (what the caller does with the error is the caller's business)
            cut = None
            for i in range(len(pat) - 1, 0, -1):
                if not is_sym(pat[i]) and pat[i] == ord("["):
                    cut = i
                    break
            lit = pat[1:cut] if cut else []
            if lit and it2.st.branch(simp(z3.Or([zin(x, REGEX_META) for x in lit]))):
                return err(Opaque("regex::Error"))
            return ok(Opaque("Regex"))

        def words_for(it2, args, callee):
            from mirsym.models import ItSlice
            st.ctx["tables"].append(list(elems_of(args[1])))
            return ItSlice([], 0, 0)
        it.env["overrides"] = {"Regex::new": regex_new, "Data::get_words_for": words_for}
        fn = prog.find_fn("search_dictionary")
        sugg = SVec([])
        trad = st.sym_bool("traditional_kar")

        def run():
            it.call_function(fn, [Str(word), Str(word), Ref([sugg], 0, True), trad, Ref([Opaque("Data")], 0)])
            return sugg
        return run

    def on_path(st, it, out):
        c = st.ctx
        word = c["word"]
        model = st.get_model()

        def inputs(m):
            return dict(word=model_string(m, word))

        def pred(m):
            if out[0] == "panic":
                return dict(panic=out[1].message)
            return dict(pattern=[model_string(m, p) for p in c["patterns"]])
        if out[0] == "panic":
            return [dict(kind="violation", clause="no_panic", inputs=inputs(model), predicted=pred(model))]
        clauses = []
        if not c["patterns"]:
            clauses.append(("cover:no_table_for_first_letter", True))
            return eval_clauses(st, clauses, lambda cn, m: dict(kind="violation", clause=cn, inputs=inputs(m), predicted=pred(m)))
        pat = c["patterns"][0]
        # pattern = ^ <cleaned word> [letters]{0,k}$ ; find the class opener: first '[' (the cleaned word has none)
        clauses.append(("pattern_is_anchored", z3.And(zeq(pat[0], ord("^")), zeq(pat[-1], ord("$")))))
        # locate the literal part: everything between '^' and the final "[...]{0,k}$" whose length is fixed by the format string
        tail_len = None
        for i in range(len(pat) - 1, 0, -1):
            if not is_sym(pat[i]) and pat[i] == ord("["):
                tail_len = len(pat) - i
                break
        if tail_len is None:
            clauses.append(("pattern_has_the_letter_class", False))
        else:
            lit = pat[1:len(pat) - tail_len]
            clauses.append(("literal_part_has_no_regex_meta_character", z3.And([z3.Not(zin(x, REGEX_META)) for x in lit]) if lit else True))
            # the literal is the word with only characters of the strip set removed, order preserved: it is a subsequence whose
            # complement lies in the strip set -> on this path the filter decisions are concrete, compare with the reference filter
            keep = [z3.Not(zin(x, CLEAN_STRIPS)) for x in word]
            # enumerate subsets consistent with the literal's length
            alts = []
            idx = range(len(word))
            for comb in itertools.combinations(idx, len(lit)):
                cond = z3.And([keep[i] if i in comb else z3.Not(keep[i]) for i in idx] + [zeq(lit[k], word[i]) for k, i in enumerate(comb)])
                alts.append(cond)
            clauses.append(("literal_part_is_the_word_without_punctuation", z3.Or(alts) if alts else z3.BoolVal(len(lit) == 0)))
            # wildcard width by the length of the cleaned word
            k = {0: None, 1: 0, 2: 1, 3: 1}.get(len(lit), 5)
            tail = "".join(chr(x) for x in pat[len(pat) - tail_len:] if not is_sym(x))
            clauses.append(("wildcard_width_by_length", k is not None and tail.endswith("]{0,%d}$" % k)))
            clauses.append(("cover:pattern_built", True))
        return eval_clauses(st, clauses, lambda cn, m: dict(kind="violation", clause=cn, inputs=inputs(m), predicted=pred(m)))
    return build, on_path


def regex_meta_search():
    """Native: a character the regex engine treats specially, typed inside a word through a synthetic layout, must not act as a pattern:
    every dictionary candidate begins with the typed word once punctuation is ignored (and nothing panics)."""
    metas = ".*+?|()[]{}^$\\-"
    words = [("ক", "ল"), ("আ", "ম"), ("ব", "ই")]
    scs, meta = [], []
    for m in metas:
        for a, b2 in words:
            for kar in (False, True):
                lay = {"Key_a_Normal": a, "Key_b_Normal": m, "Key_c_Normal": b2}
                cfg = {"layout_json": lay, "database": REPO + "/data", "opts": {"fixed_suggestion": True, "kar": kar}}
                scs.append({"steps": [{"op": "new", "config": cfg}, {"op": "key", "key": 0xA096}, {"op": "key", "key": 0xA097}, {"op": "key", "key": 0xA098}]})
                meta.append((m, a, b2, kar))
    res = run_replay_parallel(scs)
    for (m, a, b2, kar), sc, r in zip(meta, scs, res):
        rr = r["results"]
        p = [x for x in rr if "panic" in x]
        if p:
            return sc, p[0], "fixed mode, suggestions on: composing %r panics: %s" % (a + m + b2, p[0]["panic"])
        lst = rr[-1].get("suggestion", {}).get("list", [])
        want = a + b2
        for cand in lst[1:]:
            plain = cand.replace("\u200c", "").replace("\u200d", "")
            if not any(0x0980 <= ord(ch) <= 0x09FF for ch in plain):
                continue
            if not plain.startswith(want):
                return sc, rr[-1], ("fixed mode, suggestions on%s: composing %r (the middle character typed inside the word) offers %r, which does not begin with %r - "
                                    "the character acted as a pattern; list %s" % (", traditional joining" if kar else "", a + m + b2, cand, want, lst))
    return None


def obl_regex_hygiene(check, max_n, budget_s=None):
    shapes = [dict(n=n) for n in range(1, max_n + 1)]
    check.bounds["regex_hygiene"] = dict(word="1..%d code points, each any Unicode scalar value" % max_n, traditional_joining="symbolic")
    records, errors, summ = msym.run_shapes(check, "regex_hygiene", shapes, make_regex_hygiene, budget_s=budget_s)
    vio = [r for r in records if r["kind"] == "violation" and (getattr(check, "only_clauses", None) is None or r["clause"] in check.only_clauses)]
    covers = set(r["name"] for r in records if r["kind"] == "cover")
    if errors:
        check.obligation("regex_hygiene", "mirsym", "inconclusive", "executor gave up: " + "; ".join(sorted(set(errors))[:3]))
        return
    if "cover:pattern_built" not in covers:
        try:
            src = open(os.path.join(REPO, "src", "fixed", "search.rs")).read()
        except OSError:
            src = "Regex::new"
        if "Regex" not in src and not vio:
            # the search of the tree under check compiles no pattern at all: nothing the clauses speak about exists
            check.obligation("regex_hygiene", "mirsym", "held", "%d paths; the fixed search builds no regular expression" % summ["paths"])
            return
        check.obligation("regex_hygiene", "mirsym", "inconclusive", "vacuity: no pattern was built")
        return
    if not vio:
        check.obligation("regex_hygiene", "mirsym", "held", "%d paths; the pattern handed to the regex engine is ^literal[letters]{0,k}$ with a meta-free literal on every path" % summ["paths"])
        return
    # confirm natively: type the word in fixed mode with suggestions on
    found = None
    for v in vio[:10]:
        w = v["inputs"]["word"]
        sc = {"steps": [{"op": "new", "config": {"layout_json": {"Key_a_Normal": w}, "database": REPO + "/data", "opts": {"fixed_suggestion": True}}},
                        {"op": "key", "key": 0xA096}]}
        r = run_replay([sc])[0]["results"][1]
        if "panic" in r:
            found = (sc, r, "fixed mode, suggestions on: composing %r panics: %s" % (w, r["panic"]))
            break
    if found is None:
        found = regex_meta_search()
    if found is None:
        check.obligation("regex_hygiene", "mirsym", "inconclusive", "counterexample did not reproduce natively: %s -> %s" % (
            json.dumps(vio[0]["inputs"], ensure_ascii=False), json.dumps(vio[0]["predicted"], ensure_ascii=False)[:300]))
        return
    st = check.finding("fixed search: regex built from the typed word is malformed", found[2], dict(scenario=found[0], observed=found[1]))
    check.obligation("regex_hygiene", "mirsym", st, found[2])


def validate_dictionary_order(check):
    """Contract behind the consecutive-only dedup(): among the matches of any pattern `^p[letters]{0,n}$` (n by the length of p as in
    search_dictionary) a word that equals the typed word comes first, and two equal entries of a table are never separated by another
    match of the same pattern. Validated on the bundled dictionary at every run."""
    d = json.load(open(os.path.join(REPO, "data", "dictionary.json"), encoding="utf-8"))

    def width(n):
        return 0 if n == 1 else 1 if n in (2, 3) else 5
    bad = []
    total = 0
    dups = 0
    for name, words in d.items():
        pos = {}
        for i, w in enumerate(words):
            total += 1
            pos.setdefault(w, []).append(i)
        for w, ps in pos.items():
            # (a) a word precedes its own extensions that a pattern built from it can reach
            i = ps[0]
            # (b) duplicates: no other match between two occurrences, for every prefix pattern that matches w
            for a, b2 in zip(ps, ps[1:]):
                dups += 1
                for k in range(1, len(w) + 1):
                    pfx = w[:k]
                    if len(w) - k > width(k):
                        continue
                    for u in words[a + 1:b2]:
                        if u != w and u.startswith(pfx) and len(u) - k <= width(k):
                            bad.append("table %s: %r listed twice with match %r of pattern prefix %r in between" % (name, w, u, pfx))
                            break
        index = {w: ps[0] for w, ps in pos.items()}
        for i, w in enumerate(words):
            for k in range(1, len(w)):
                pfx = w[:k]
                if pfx in index and index[pfx] > i and len(w) - k <= width(k):
                    bad.append("table %s: %r precedes its prefix %r" % (name, w, pfx))
                    break
    check.assume("dictionary order contract validated on the bundled file at this run (%d words, %d tables, %d repeated entries): among the matches "
                 "of a search pattern the typed word comes first and equal entries are adjacent" % (total, len(d), dups))
    if bad:
        check.obligation("dictionary_order_contract", "data", "inconclusive", "; ".join(bad[:3]))
        return False
    check.obligation("dictionary_order_contract", "data", "held", "%d words in %d tables, %d repeated entries (adjacent among matches)" % (total, len(d), dups))
    return True


# ------------------------------------------------------------------------- C15: ranks of the fixed search are computed from the shown text

def make_fixed_search(shape):
    wlen, nwords = shape["wlen"], shape["nwords"]

    def build(st, it):
        prog = it.p
        word = [st.sym_char("w%d" % i, BENGALI_LO, 0x09DF) for i in range(wlen)]
        semantic = shape.get("semantic_match", False)
        # the first letter must have a table: keep it a consonant (semantic shapes: also a vowel or a vowel sign - the tables of the vowels
        # are consulted for words that begin with the matching sign)
        st.assume(zin(word[0], list(range(0x0995, 0x09A9)) + ([0x0986, 0x0987, 0x098F, 0x09BE, 0x09BF, 0x09C7] if semantic else [])))
        exts = []
        words = []
        for k in range(nwords):
            ext = [st.sym_char("x%d_%d" % (k, j), BENGALI_LO, 0x09DF) for j in range(shape["ext"])]
            exts.append(ext)
            if semantic:
                # any entry of the table: its first letter any letter, the rest the typed rest or not
                head = [st.sym_char("h%d_%d" % (k, j), BENGALI_LO, 0x09DF) for j in range(wlen)]
                words.append(SString(head + ext))
            else:
                words.append(SString(list(word) + ext))
        ed_memo = {}
        ed_log = []

        def is_match_semantic(it2, args, callee):
            """The regex engine on the one pattern shape the search builds, `^literal[class]{0,k}$` (the hygiene obligation shows the literal
            has no character the pattern language gives a meaning to): the entry is the literal followed by at most k characters of the class."""
            rx = args[0].get() if isinstance(args[0], Ref) else args[0]
            pat = list(rx.payload[0]) if isinstance(rx, Opaque) and rx.payload else None
            if pat is None:
                raise Unsupported("is_match on a pattern this harness did not see compiled")
            e = list(elems_of(args[1]))
            cut = max(i for i, ch in enumerate(pat) if not is_sym(ch) and ch == ord("["))
            close = max(i for i, ch in enumerate(pat) if not is_sym(ch) and ch == ord("]"))
            lit = pat[1:cut]
            cls_ = [ch for ch in pat[cut + 1:close]]
            tail = "".join(chr(ch) for ch in pat[close + 1:])
            import re as _re
            mm = _re.match(r"\{0,(\d+)\}\$$", tail)
            if not mm or any(is_sym(ch) for ch in cls_):
                raise Unsupported("pattern shape %r" % tail)
            kmax = int(mm.group(1))
            if len(e) < len(lit) or len(e) - len(lit) > kmax:
                return False
            conds = [seq_eq(e[:len(lit)], lit)] + [zin(ch, cls_) for ch in e[len(lit):]]
            return simp(z3.And(conds))

        def get_words_for(it2, args, callee):
            from mirsym.models import ItSlice
            return ItSlice(words, 0, len(words))

        def regex_new(it2, args, callee):
            from mirsym.values import ok
            return ok(Opaque("Regex", (tuple(elems_of(args[0])),)))

        def is_match(it2, args, callee):
            return True

        def edit_distance(it2, args, callee):
            a, b = elems_of(args[0]), elems_of(args[1])
            k = (key_of_elems(a), key_of_elems(b))
            if k not in ed_memo:
                d = st.sym_bv("ed%d" % len(ed_memo), 64)
                st.assume(z3.ULE(d, 20))
                ed_memo[k] = d
                ed_log.append((a, b, d))
            return ed_memo[k]
        it.env["overrides"] = {"Data::get_words_for": get_words_for, "Regex::new": regex_new, "Regex::is_match": is_match_semantic if semantic else is_match,
                               "edit_distance": edit_distance}
        trad = st.sym_bool("traditional_kar")
        sugg = SVec([])
        st.ctx = dict(word=word, words=words, exts=exts, trad=trad, sugg=sugg, ed_memo=ed_memo, semantic=semantic)
        fn = prog.find_fn("search_dictionary")

        def run():
            it.call_function(fn, [Str(word), Str(word), Ref([sugg], 0, True), trad, Ref([Opaque("Data")], 0)])
            return sugg
        return run

    def on_path(st, it, out):
        prog = it.p
        c = st.ctx
        model = st.get_model()

        def inputs(m):
            return dict(word=model_string(m, c["word"]), dictionary=[model_string(m, w.elems) for w in c["words"]], traditional_kar=bool(model_value(m, c["trad"])))

        def pred(m):
            if out[0] == "panic":
                return dict(panic=out[1].message)
            return dict(list=[rank_json(prog, m, x) for x in c["sugg"].items])
        if out[0] == "panic":
            return [dict(kind="violation", clause="no_panic", inputs=inputs(model), predicted=pred(model))]
        items = c["sugg"].items
        trad = zb(c["trad"])
        if c["semantic"]:
            # the table holds any words: whatever is offered begins with the typed word (non-joiners of traditional joining aside)
            begins = []
            for x in items:
                text = [ch for ch in rank_text(x)]
                plain = [ch for ch in text if is_sym(ch) or ch != CL.ZWNJ]
                begins.append(seq_eq(plain[:len(c["word"])], list(c["word"])) if len(plain) >= len(c["word"]) else z3.BoolVal(False))
            clauses = [("candidate_begins_with_the_typed_word", z3.And(begins) if begins else True), ("cover:semantic_search", True)]
            if items:
                clauses.append(("cover:ranked", True))
            return eval_clauses(st, clauses, lambda cn, m: dict(kind="violation", clause=cn, inputs=inputs(m), predicted=pred(m)))
        clauses = [("every_match_is_offered", len(items) == len(c["words"]))]
        base_key = key_of_elems(c["word"])
        for x, w in zip(items, c["words"]):
            text = rank_text(x)
            plain = list(w.elems)
            # shown text: the dictionary word, with a non-joiner in front of each ligature-making sign under traditional joining
            disp_alts = []
            lig = [zin(ch, CL.LIGATURE_KARS) for ch in plain]
            for mask in itertools.product((False, True), repeat=len(plain)):
                exp = []
                for ch, mk in zip(plain, mask):
                    if mk:
                        exp.append(CL.ZWNJ)
                    exp.append(ch)
                cond = z3.And([l if mk else z3.Not(l) for l, mk in zip(lig, mask)])
                disp_alts.append(z3.And(cond, seq_eq(text, exp)))
            clauses.append(("shown_text_is_the_dictionary_word_with_blocked_ligatures", z3.If(trad, z3.Or(disp_alts), seq_eq(text, plain))))
            d = c["ed_memo"].get((base_key, key_of_elems(text)))
            if d is None:
                clauses.append(("distance_is_computed_from_the_shown_text", False))
            else:
                clauses.append(("distance_is_computed_from_the_shown_text", simp(bv(x.fields[1], 8) == z3.Extract(7, 0, d * 10))))
            clauses.append(("cover:ranked", True))
        return eval_clauses(st, clauses, lambda cn, m: dict(kind="violation", clause=cn, inputs=inputs(m), predicted=pred(m)))
    return build, on_path


def lev(a, b):
    prev = list(range(len(b) + 1))
    for i, x in enumerate(a, 1):
        cur = [i]
        for j, y in enumerate(b, 1):
            cur.append(min(prev[j] + 1, cur[j - 1] + 1, prev[j - 1] + (x != y)))
        prev = cur
    return prev[-1]


def fixed_rank_search(vs):
    """Native confirmation: type prefixes in fixed mode (traditional joining on and off) and compare every dictionary candidate's number in
    the scratch list with the edit distance between the typed word and the shown text."""
    # the last ones begin with a vowel sign (typeable with automatic vowel forming off): the table of the matching vowel is searched
    prefixes = ["দাদ", "দিদ", "কু", "বু", "সু", "মৃ", "দীক্ষ", "আম", "কর", "ামি", "াম", "িন", "েক", "োন"]
    scs = []
    meta = []
    ck = char_keys()
    for trad in (True, False):
        for pfx in prefixes:
            if pfx[0] in "ািীুূৃেৈোৌ":
                # one key per character (a key value of several characters that starts with a sign is cut down to the sign)
                letters = "abcdefgh"
                lay = {"Key_%s_Normal" % letters[i]: ch for i, ch in enumerate(pfx)}
                cfg = {"layout_json": lay, "database": REPO + "/data", "opts": {"fixed_suggestion": True, "kar": trad, "vowel": False}}
                scs.append({"steps": [{"op": "new", "config": cfg}] + [{"op": "key", "key": ck[letters[i]]} for i in range(len(pfx))] + [{"op": "get_state"}]})
            else:
                cfg = {"layout_json": {"Key_a_Normal": pfx}, "database": REPO + "/data", "opts": {"fixed_suggestion": True, "kar": trad, "vowel": False}}
                scs.append({"steps": [{"op": "new", "config": cfg}, {"op": "key", "key": 0xA096}, {"op": "get_state"}]})
            meta.append((pfx, trad))
    res = run_replay(scs)
    for (pfx, trad), sc, r in zip(meta, scs, res):
        rr = [r["results"][0], r["results"][-2], r["results"][-1]]
        if any("panic" in x for x in r["results"]):
            px = [x for x in r["results"] if "panic" in x][0]
            return sc, px, "fixed mode: composing %r panics: %s" % (pfx, px["panic"]), None
        if rr[2].get("state", {}).get("buffer") != pfx:
            continue
        ranks = rr[2]["state"]["suggestions"]
        others = [(t, n) for k, t, n in ranks if k == 2]
        for t, n in others:
            if not t.replace("\u200c", "").startswith(pfx):
                return sc, rr[2], ("fixed mode, traditional joining %s: typed %r, the candidate %r does not begin with it; list %s" % (trad, pfx, t, [x[1] for x in ranks])), \
                    "fixed search: a candidate does not begin with the typed word"
        for t, n in others:
            want = (lev(pfx, t) * 10) & 0xFF
            if n != want:
                return sc, rr[2], ("fixed mode, traditional joining %s: typed %r, candidate %r carries distance %d but its edit distance from the typed "
                                   "word is %d; list %s" % (trad, pfx, t, n, want // 10 * 10, [x[1] for x in ranks])), "fixed search: distance not computed from the shown text"
        ns = [n for _, n in others]
        if ns != sorted(ns):
            return sc, rr[2], "fixed mode: typed %r: dictionary candidates not in distance order %s" % (pfx, others), "fixed search: candidates out of distance order"
    return None


def obl_fixed_search(check, thorough=False, budget_s=None):
    shapes = [dict(wlen=1, nwords=2, ext=1), dict(wlen=2, nwords=1, ext=2)] + ([dict(wlen=2, nwords=2, ext=2)] if thorough else [])
    # the table holds any words (not only continuations of the typed one) and the regex engine is modelled on the one pattern shape the
    # search builds: whatever is offered begins with the typed word
    shapes += [dict(wlen=2, nwords=1, ext=1, semantic_match=True), dict(wlen=1, nwords=2, ext=1, semantic_match=True)] + ([dict(wlen=2, nwords=2, ext=2, semantic_match=True)] if thorough else [])
    check.bounds["fixed_search_ranks"] = dict(word="1-2 symbolic Bengali-block code points", dictionary="1-2 matching words = typed word + 1-2 symbolic code points; 1-2 arbitrary table entries with the engine modelled on ^literal[class]{0,k}$",
                                              traditional_joining="symbolic", edit_distance="uninterpreted function of (typed word, text)")
    records, errors, summ = msym.run_shapes(check, "fixed_search_ranks", shapes, make_fixed_search, budget_s=budget_s)
    vio = [r for r in records if r["kind"] == "violation" and r["clause"] != "no_panic"]
    covers = set(r["name"] for r in records if r["kind"] == "cover")
    name = "fixed_search_ranks"
    if errors:
        check.obligation(name, "mirsym", "inconclusive", "executor gave up: " + "; ".join(sorted(set(errors))[:3]))
        return
    if "cover:ranked" not in covers or "cover:semantic_search" not in covers:
        check.obligation(name, "mirsym", "inconclusive", "vacuity: no candidate was ranked")
        return
    if not vio:
        check.obligation(name, "mirsym", "held", "%d paths; every candidate begins with the typed word, shows the dictionary word (ligatures blocked under traditional joining) and carries 10 x distance(typed word, shown text)" % summ["paths"])
        return
    found = fixed_rank_search(vio)
    if found is None:
        check.obligation(name, "mirsym", "inconclusive", "counterexample not re-found natively: %s -> %s" % (
            json.dumps(vio[0]["inputs"], ensure_ascii=False)[:300], json.dumps(vio[0]["predicted"], ensure_ascii=False)[:300]))
        return
    sc, obs, what, role = found
    check.stats["traces_validated"] += 1
    st = check.finding(role or "fixed search ranks", what, dict(scenario=sc, observed=obs, solver_counterexample=vio[0]["inputs"]))
    check.sample(dict(obligation=name, counterexample=vio[0]["inputs"], outcome=vio[0]["predicted"]))
    check.obligation(name, "mirsym", st, "%d paths; %d counterexample models" % (summ["paths"], len(vio)))


# ------------------------------------------------------------------------- C01/C10: empty strings in stored / user data

def panic_search(vs):
    """Re-find a panic of the phonetic candidate assembly natively through in-contract histories: learn a choice for a word (every index,
    the raw English candidate included), then type the word again inside every wrapper (doubled punctuation too), then erase it."""
    keys = char_keys()
    words = ["a", "ami", "k", "7"]
    wrappers = list(WRAPPERS_QUICK) + [("", ".."), ("", "!!"), ("\"", ""), ("((", "))"), ("", ":`"), ("`", "")]
    scs, meta = [], []
    for eng in (True, False):
        for sq in (True, False):
            cfg = {"layout": "avro_phonetic", "database": REPO + "/data", "opts": {"phonetic_suggestion": True, "english": eng, "smart_quote": sq}}
            for w in words:
                for idx in (0, 1, 2, "last"):
                    steps = [{"op": "new", "config": cfg}] + [{"op": "key", "key": keys[ch], "sel": 0} for ch in w]
                    steps.append({"op": "commit", "index": idx if idx != "last" else -1})
                    for pre, trail in wrappers:
                        t = pre + w + trail
                        if not all(ch in keys for ch in t):
                            continue
                        steps += [{"op": "key", "key": keys[ch], "sel": 0} for ch in t]
                        steps += [{"op": "backspace"}] * (len(t) + 1)
                    scs.append({"steps": steps})
                    meta.append((cfg, w, idx))
    # the index 'last' needs the list length: resolve by a first pass
    first = run_replay_parallel([{"steps": sc["steps"][:1 + len(m[1])]} for sc, m in zip(scs, meta)])
    keep_s, keep_m = [], []
    for sc, m, r in zip(scs, meta, first):
        last = r["results"][-1]
        n = len(last.get("suggestion", {}).get("list", []))
        ci = 1 + len(m[1])
        idx = sc["steps"][ci]["index"]
        if idx == -1:
            idx = n - 1
        if n == 0 or idx >= n or idx < 0:
            continue
        sc["steps"][ci] = {"op": "commit", "index": idx}
        keep_s.append(sc)
        keep_m.append((m[0], m[1], idx, last["suggestion"]["list"][idx]))
    out = run_replay_parallel(keep_s)
    for (cfg, w, idx, cand), sc, r in zip(keep_m, keep_s, out):
        rr = r["results"]
        for k, x in enumerate(rr):
            if "panic" in x:
                typed = "".join(next((ch for ch, c in keys.items() if c == stp.get("key")), "<bs>") if stp["op"] != "commit" else "<commit %d>" % stp["index"]
                                for stp in sc["steps"][1:k + 1])
                typed = typed[-40:]
                short = {"steps": sc["steps"][:k + 1]}
                return short, x, ("options %s: typed %r, committed candidate %d (%r); later, at the end of ...%s the engine panics: %s" % (
                    json.dumps(cfg["opts"]), w, idx, cand, typed, x["panic"])), "assembly panics after a learned choice"
    return None


def obl_assembly_no_panic(check, conv_table, thorough=False, budget_s=None):
    """C01 over the phonetic candidate assembly: `suggest` with every data source an oracle, a learned entry for the word present or
    absent, every wrapper: no panic path."""
    kw = dict(mode="single", dict_max=1, dist_mode="fixed", emoji_count=1, suffixes=False, selections=True, distinct=False)
    shapes = base_shapes(WRAPPERS_QUICK + [("", "..")], [1, 2] if thorough else [1], conv_table, **kw)
    # suffix split points: one split point with a learned entry, two without (the learned-entry walk multiplies the paths of every split)
    shapes += base_shapes([("", ""), ("", ".")], [2], conv_table, **dict(kw, suffixes=True, emoji_names=False, emoticons=False))
    shapes += base_shapes([("", "")], [3], conv_table, **dict(kw, suffixes=True, emoji_names=False, emoticons=False, selections=thorough, autocorrect=False, user_autocorrect=False))
    shapes += special_term_shapes(SPECIAL_TERMS[:6] if not thorough else SPECIAL_TERMS, **dict(kw, selections=False))
    check.bounds["assembly_no_panic"] = dict(word="1%s symbolic letters/digits; 3 with suffix split points" % ("-2" if thorough else ""),
                                             wrappers=[s["pre"] + "W" + s["trail"] for s in shapes][:14],
                                             data="auto-correct entries, 0-1 dictionary word, emoticon / emoji name, learned entry for the word: each present or absent",
                                             options="English, ANSI, smart quotes symbolic")
    records, errors, summ = msym.run_shapes(check, "assembly_no_panic", shapes, make_suggest, budget_s=budget_s)
    vio = [r for r in records if r["kind"] == "violation" and r["clause"] == "no_panic"]
    name = "assembly_no_panic"
    if errors:
        check.obligation(name, "mirsym", "inconclusive", "executor gave up: " + "; ".join(sorted(set(errors))[:3]))
        return
    if not vio:
        check.obligation(name, "mirsym", "held", "%d paths, no panic path" % summ["paths"])
        return
    found = panic_search(vio)
    if found is None:
        check.obligation(name, "mirsym", "inconclusive", "panic path under the data oracles was not re-found natively: %s" % describe_suggest(vio[0])[:500])
        return
    sc, obs, what, role = found
    check.stats["traces_validated"] += 1
    st = check.finding(role, what, dict(scenario=sc, observed=obs, solver_counterexample=vio[0]["inputs"]))
    check.obligation(name, "mirsym", st, "%d paths; %d panic models" % (summ["paths"], len(vio)))


def obl_empty_strings(check, conv_table, budget_s=None):
    """Candidate assembly with stored strings allowed to be empty (a learned entry, a user auto-correct entry or a memo candidate
    of zero length, as a damaged or hand-edited user file can contain): no panic."""
    kw = dict(mode="single", dict_max=1, dist_mode="fixed", emoji_names=False, emoticons=False, autocorrect=False, user_autocorrect=True,
              selections=True, suffixes=True, fixed={"ansi": False, "include_english": False, "smart_quote": False}, distinct=False,
              learned_len=0, conv_len=1, stale_scratch=False)
    shapes = base_shapes([("", "")], [2, 3], conv_table, **kw)
    shapes += base_shapes([("", "")], [3], conv_table, **dict(kw, base_len=0))
    check.bounds["empty_strings"] = dict(word="2-3 symbolic letters/digits", stored="learned entries of length 0; memo candidates of length 0 (user auto-correct value that converts to nothing)")
    records, errors, summ = msym.run_shapes(check, "empty_stored_strings", shapes, make_suggest, budget_s=budget_s)
    vio = [r for r in records if r["kind"] == "violation" and r["clause"] == "no_panic"]
    name = "empty_stored_strings"
    if errors:
        check.obligation(name, "mirsym", "inconclusive", "executor gave up: " + "; ".join(sorted(set(errors))[:3]))
        return
    if not vio:
        check.obligation(name, "mirsym", "held", "%d paths, no panic path" % summ["paths"])
        return
    # native confirmation: plant the stored strings through the user files
    keys = char_keys()
    cfg = {"layout": "avro_phonetic", "database": REPO + "/data", "opts": {"phonetic_suggestion": True}}

    def typ(t):
        return [{"op": "key", "key": keys[ch], "sel": 0} for ch in t]
    tries = [("learned entry with an empty value", [{"op": "write_user_file", "name": "phonetic-candidate-selection.json", "content": "{\"a\":\"\"}"}], "aer"),
             ("user auto-correct entry with an empty value", [{"op": "write_user_file", "name": "autocorrect.json", "content": "{\"a\":\"\"}"}], "aer"),
             ("learned entry with an empty key and value", [{"op": "write_user_file", "name": "phonetic-candidate-selection.json", "content": "{\"\":\"\"}"}], "er")]
    found = []
    # the same files appearing while the context is live, picked up by a re-configuration (the auto-correct list is the only file read again)
    late = [("user auto-correct entry with an empty value, loaded by update_engine", [{"op": "new", "config": cfg},
             {"op": "write_user_file", "name": "autocorrect.json", "content": "{\"a\":\"\"}", "mtime_plus": 5}, {"op": "update", "config": cfg}], "aer"),
            ("user auto-correct entry with an empty key and value, loaded by update_engine", [{"op": "new", "config": cfg},
             {"op": "write_user_file", "name": "autocorrect.json", "content": "{\"\":\"\",\"btw\":\"\"}", "mtime_plus": 5}, {"op": "update", "config": cfg}], "btwra")]
    for what, steps0, text in late:
        sc = {"steps": steps0 + typ(text) + [{"op": "backspace"}] * 2 + typ("er")}
        rr = run_replay([sc])[0]["results"]
        p = [x for x in rr if "panic" in x]
        if p:
            found.append((what, sc, p[0]))
    for what, files, text in tries:
        sc = {"steps": files + [{"op": "new", "config": cfg}] + typ(text)}
        rr = run_replay([sc])[0]["results"]
        p = [x for x in rr if "panic" in x]
        if p:
            found.append((what, sc, p[0]))
    # and through the API alone: commit the literal emoticon text, then type it with a suffix
    sc = {"steps": [{"op": "new", "config": dict(cfg, opts={"phonetic_suggestion": True, "english": True})}] + typ(":)") + [{"op": "commit", "index": 1}] + typ(":er")}
    rr = run_replay([sc])[0]["results"]
    p = [x for x in rr if "panic" in x]
    if p:
        found.append(("empty learned value stored by committing the literal ':)' candidate", sc, p[0]))
    if not found:
        check.obligation(name, "mirsym", "inconclusive", "panic path with empty stored strings not re-found natively: %s" % json.dumps(vio[0]["predicted"])[:300])
        return
    status = "held"
    worst = {"held": 0, "known": 1, "inconclusive": 2, "violated": 3}
    for what, sc, obs in found:
        check.stats["traces_validated"] += 1
        st = check.finding("empty stored string: " + what, "%s, then typing: %s" % (what, obs["panic"]), dict(scenario=sc, observed=obs))
        if worst[st] > worst[status]:
            status = st
    check.obligation(name, "mirsym", status, "%d paths, %d panic paths" % (summ["paths"], len(vio)))
