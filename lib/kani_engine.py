"""Engine K: run Kani proof harnesses compiled into /repo through the cfg(kani) hook."""
import fcntl
import os
import re
import shutil
import time

from common import (BUILD, REPO, VERIF, Inconclusive, env_with, keyname_spec, published_keys, sh)

STAGE = os.path.join(BUILD, "kani_src")
TARGET = os.path.join(BUILD, "kani")


def rust_char(cp):
    return "'\\u{%x}'" % cp


def stage(domain):
    """Copy the harness and write the generated tables (from riti.h and /verif/spec)."""
    os.makedirs(STAGE, exist_ok=True)
    shutil.copyfile(os.path.join(VERIF, "kani", "harness.rs"), os.path.join(STAGE, "harness.rs"))
    keys = published_keys()
    spec = keyname_spec()
    lines = ["// generated from /repo/include/riti.h and /verif/spec/keynames.tsv"]
    lines.append("fn is_published_key(k: u16) -> bool { matches!(k, %s) }" % " | ".join(str(c) for _, c in keys))
    arms = []
    for name, code in keys:
        cp = spec.get(name, (0, "-", "none"))[0]
        if cp:
            arms.append("        %d => %s," % (code, rust_char(cp)))
    lines.append("fn spec_key_char(k: u16) -> char {\n    match k {\n%s\n        _ => '\\0',\n    }\n}" % "\n".join(arms))
    with open(os.path.join(STAGE, "gen_keys.rs"), "w") as f:
        f.write("\n".join(lines) + "\n")
    with open(os.path.join(STAGE, "gen_domain.rs"), "w") as f:
        f.write("// generated: producible rank domain (see DESIGN C07)\n")
        f.write("const MAX_EMOJI_RANK: u8 = %d;\n" % domain.get("max_emoji_rank", 10))
        f.write("const MAX_DISTANCE: u8 = %d;\n" % domain.get("max_distance", 250))


RE_CHECK = re.compile(r"^Check (\d+): (\S+)\s*$")


def parse_output(out):
    """Parse one harness' Kani output into a dict."""
    res = dict(status=None, failed=[], covers=[], unwinding_failed=False, vars=None, clauses=None,
               time=None, playback=[], stubs=[])
    m = re.search(r"VERIFICATION:- (SUCCESSFUL|FAILED)", out)
    if m:
        res["status"] = m.group(1)
    m = re.search(r"Verification Time: ([0-9.]+)s", out)
    if m:
        res["time"] = float(m.group(1))
    for m in re.finditer(r"(\d+) variables, (\d+) clauses", out):
        res["vars"], res["clauses"] = int(m.group(1)), int(m.group(2))
    # individual checks
    blocks = re.split(r"\nCheck \d+: ", "\n" + out)
    for b in blocks[1:]:
        name = b.split("\n", 1)[0].strip()
        st = re.search(r"- Status: (\w+)", b)
        desc = re.search(r'- Description: "(.*)"', b)
        loc = re.search(r"- Location: (.*)", b)
        status = st.group(1) if st else "?"
        d = desc.group(1) if desc else ""
        entry = dict(check=name, status=status, description=d, location=(loc.group(1).strip() if loc else ""))
        if ".cover." in name:
            res["covers"].append(entry)
        elif status in ("FAILURE", "ERROR", "UNDETERMINED", "UNREACHABLE") and status != "UNREACHABLE":
            if "unwinding assertion" in d or ".unwind." in name:
                res["unwinding_failed"] = True
            res["failed"].append(entry)
    if "Status: ERROR" in out or "CBMC failed" in out or "out of memory" in out.lower():
        res["status"] = "ERROR"
    # concrete playback values: sequences of `vec![..]` lines inside concrete_vals
    # one generated test per failed check AND per satisfied cover: the values of the first failed *check* are the counterexample
    res["playbacks"] = []
    for blk in re.finditer(r"/// Check for `(\w+)`: (.*?)\n.*?let concrete_vals: Vec<Vec<u8>> = vec!\[(.*?)\n\s*\];", out, re.S):
        vals = [[int(x) for x in v.group(1).split(",") if x.strip()] for v in re.finditer(r"vec!\[([0-9, ]*)\]", blk.group(3))]
        res["playbacks"].append(dict(kind=blk.group(1), description=blk.group(2).strip(), values=vals))
    failing = [b for b in res["playbacks"] if b["kind"] != "cover"]
    if failing:
        res["playback"] = failing[0]["values"]
    elif not res["playbacks"]:
        pb = re.search(r"let concrete_vals: Vec<Vec<u8>> = vec!\[(.*?)\n\s*\];", out, re.S)
        if pb:
            for v in re.finditer(r"vec!\[([0-9, ]*)\]", pb.group(1)):
                res["playback"].append([int(x) for x in v.group(1).split(",") if x.strip()])
    res["stubs"] = re.findall(r"- Stub: (.*)", out)
    return res


def run_harnesses(names, domain, timeout=900, playback=True, extra_args=None):
    """Run the named harnesses (one cargo-kani invocation each, sequential builds share the
    target dir). Returns {name: parsed}."""
    os.makedirs(BUILD, exist_ok=True)
    lock = open(os.path.join(BUILD, "kani.lock"), "w")
    fcntl.flock(lock, fcntl.LOCK_EX)
    try:
        stage(domain)
        results = {}
        for name in names:
            cmd = ["cargo", "kani", "--target-dir", TARGET, "--harness", "verif_kani::" + name, "--exact", "-Z", "stubbing"]
            if playback:
                cmd += ["-Z", "concrete-playback", "--concrete-playback=print"]
            if extra_args:
                cmd += extra_args
            t0 = time.time()
            rc, out = sh(cmd, cwd=REPO, env={"RITI_VERIF_KANI": STAGE}, timeout=timeout)
            r = parse_output(out)
            r["wall_s"] = round(time.time() - t0, 2)
            r["rc"] = rc
            if rc == 124:
                r["status"] = "TIMEOUT"
            if r["status"] is None:
                r["status"] = "ERROR"
                r["tail"] = out[-3000:]
            if "no harnesses matched" in out or re.search(r"Complete - 0 successfully verified harnesses, 0 failures, 0 total", out):
                r["status"] = "ERROR"
                r["tail"] = "harness not found / not compiled: " + out[-1500:]
            if re.search(r"^error(\[E\d+\])?:", out, re.M) and r["status"] != "SUCCESSFUL" and not r["failed"]:
                r["status"] = "ERROR"
                r["tail"] = out[-3000:]
            results[name] = r
        return results
    finally:
        fcntl.flock(lock, fcntl.LOCK_UN)
        lock.close()


def classify(r):
    """-> ('held'|'failed'|'inconclusive', reason)"""
    if r["status"] == "SUCCESSFUL":
        bad = [c for c in r["covers"] if c["status"] != "SATISFIED"]
        if bad:
            return "inconclusive", "vacuous: cover not satisfied: %s" % bad[0]["description"]
        if not r["covers"]:
            return "inconclusive", "no reachability witness in harness"
        return "held", "%s vars, %s clauses, %.2fs" % (r["vars"], r["clauses"], r["time"] or 0)
    if r["status"] == "FAILED":
        if r["unwinding_failed"]:
            return "inconclusive", "unwinding assertion failed (bound too small)"
        real = [f for f in r["failed"] if f["status"] == "FAILURE"]
        if real:
            return "failed", "; ".join("%s @ %s" % (f["description"], f["location"]) for f in real[:3])
        return "inconclusive", "FAILED without a failing property: " + str(r["failed"][:2])
    return "inconclusive", "%s %s" % (r["status"], r.get("tail", "")[-800:])


def record(check, name, r):
    check.stats["kani_harnesses"].append(dict(name=name, status=r["status"], vars=r["vars"], clauses=r["clauses"],
                                              solver_time_s=r["time"], wall_s=r["wall_s"], stubs=r["stubs"],
                                              covers=[c["status"] for c in r["covers"]]))
    check.stats["states"] += 1
    check.stats["queries"] += 1
    if r["status"] == "SUCCESSFUL":
        check.stats["queries_unsat"] += 1
    elif r["status"] == "FAILED":
        check.stats["queries_sat"] += 1
    check.stats["solver_s"] += r["time"] or 0.0
    check.stats["transitions"] += (r["clauses"] or 0)
