"""Glue between the check runner and engine M (the MIR symbolic executor)."""
import multiprocessing as mp
import os
import pickle
import sys
import time
import traceback

import z3

import mirdump
from common import NCPU, REPO, VERIF, Inconclusive
from mirsym.interp import Explorer, PanicPath, Unsupported
from mirsym.models import Models
from mirsym.program import Program, ResolveError
from mirsym.values import is_sym

sys.path.insert(0, os.path.join(VERIF, "spec"))

_STATE = {}


def load(check):
    """Dump MIR from /repo's working tree and parse it (once per check run)."""
    if "prog" in _STATE:
        return _STATE["prog"], _STATE["models"]
    text, secs = mirdump.dump()
    t0 = time.time()
    prog = Program(text, REPO)
    models = Models()
    check.log("MIR dump %.1fs (%d lines), parsed %d functions in %.1fs" % (secs, text.count("\n"), len(prog.fns), time.time() - t0))
    _STATE["prog"] = prog
    _STATE["models"] = models
    check.extra.setdefault("mir", dict(lines=text.count("\n"), functions=len(prog.fns), dump_s=round(secs, 1)))
    return prog, models


def model_value(model, v):
    """Concrete value of a scalar under a z3 model."""
    if not is_sym(v):
        return v
    r = model.eval(v, model_completion=True)
    if z3.is_bool(r):
        return z3.is_true(r)
    return r.as_long()


def model_string(model, elems):
    return "".join(chr(model_value(model, c)) for c in elems)


_TASK = {}


def _run_task(i):
    make, shapes, seed, limits = _TASK["make"], _TASK["shapes"], _TASK["seed"], _TASK["limits"]
    prog, models = _STATE["prog"], _STATE["models"]
    shape = shapes[i]
    ex = Explorer(prog, models, seed=seed, max_paths=limits.get("max_paths", 200000),
                  max_steps=limits.get("max_steps", 400000), query_timeout_ms=limits.get("query_timeout_ms", 60000))
    t0 = time.time()
    try:
        build, on_path = make(shape)
        if limits.get("subjobs", 1) > 1:
            ex.explore_parallel(build, on_path, limits["subjobs"], deadline=limits.get("deadline"))
        else:
            ex.explore(build, on_path, deadline=limits.get("deadline"))
    except (Unsupported, ResolveError) as e:
        ex.errors.append("unsupported: %s" % e)
    except Exception:  # noqa
        ex.errors.append("internal error in shape %r: %s" % (shape, traceback.format_exc()[-1200:]))
    s = ex.stats
    return dict(shape=shape, records=ex.records, errors=ex.errors, paths=s.paths, blocks=s.blocks, queries=s.queries,
                unsat=s.unsat, sat=s.sat, solver_s=s.solver_s, panics=s.panics, functions=s.functions,
                models=sorted(s.models_used), aborted=s.aborted, wall=time.time() - t0)


def run_shapes(check, name, shapes, make, jobs=None, budget_s=None, limits=None):
    """Explore every shape (a concrete skeleton of the symbolic input: lengths, enum variants) in a pool of
    forked workers. `make(shape)` -> (build, on_path). Returns (records, errors, summary)."""
    load(check)
    jobs = jobs or NCPU
    limits = dict(limits or {})
    if budget_s:
        limits["deadline"] = time.time() + budget_s
    _TASK.update(make=make, shapes=shapes, seed=check.seed, limits=limits)
    records, errors = [], []
    summ = dict(paths=0, blocks=0, queries=0, unsat=0, sat=0, solver_s=0.0, panics=0, shapes=len(shapes), aborted=0)
    t0 = time.time()
    if jobs <= 1 or len(shapes) <= 2:
        limits["subjobs"] = jobs
        _TASK.update(limits=limits)
        outs = [_run_task(i) for i in range(len(shapes))]
    else:
        ctx = mp.get_context("fork")
        with ctx.Pool(min(jobs, len(shapes))) as pool:
            outs = list(pool.imap_unordered(_run_task, range(len(shapes)), chunksize=1))
    for o in outs:
        records.extend(o["records"])
        errors.extend("%s [shape %r]" % (e, o["shape"]) for e in o["errors"])
        for k in ("paths", "blocks", "queries", "unsat", "sat", "solver_s", "panics", "aborted"):
            summ[k] += o[k]
        for fn, h in o["functions"].items():
            check.functions[fn] = h
        check.extra.setdefault("models_used", [])
        for m in o["models"]:
            if m not in check.extra["models_used"]:
                check.extra["models_used"].append(m)
    summ["wall_s"] = round(time.time() - t0, 2)
    for e in sorted(set(errors))[:5]:
        print("[executor error] " + e, file=sys.stderr, flush=True)
    check.stats["states"] += summ["paths"]
    check.stats["transitions"] += summ["blocks"]
    check.stats["queries"] += summ["queries"]
    check.stats["queries_unsat"] += summ["unsat"]
    check.stats["queries_sat"] += summ["sat"]
    check.stats["solver_s"] += summ["solver_s"]
    check.log("%s: %d shapes, %d paths, %d MIR blocks, %d queries (%d unsat), solver %.1fs, wall %.1fs, %d errors" % (
        name, len(shapes), summ["paths"], summ["blocks"], summ["queries"], summ["unsat"], summ["solver_s"],
        summ["wall_s"], len(errors)))
    return records, errors, summ
