"""Builders, witnesses and native validation for obligations on the fixed-layout method."""
import json

import z3

from common import Inconclusive, run_replay_parallel
from mirsym.interp import PanicPath
from mirsym.values import (Agg, Opaque, Ref, SMap, SString, SVec, Str, UNIT, bv, is_sym, none, simp, some)
from msym import model_string, model_value

OPTS = ["include_english", "phonetic_suggestion", "fixed_suggestion", "fixed_vowel", "fixed_chandra", "fixed_kar",
        "fixed_old_reph", "fixed_numpad", "fixed_kar_order", "ansi", "smart_quote"]
# Config field name -> option name of the replay driver
OPT_JSON = {"include_english": "english", "phonetic_suggestion": "phonetic_suggestion", "fixed_suggestion": "fixed_suggestion",
            "fixed_vowel": "vowel", "fixed_chandra": "chandra", "fixed_kar": "kar", "fixed_old_reph": "old_reph",
            "fixed_numpad": "numpad", "fixed_kar_order": "kar_order", "ansi": "ansi", "smart_quote": "smart_quote"}

VC_A = 0xA096


def unknown_value(prog, st, t, tag, what):
    """An unconstrained value of Rust type `t` (as far as the executor models it)."""
    from mirsym.values import INT_BITS, some
    t = t.strip()
    if t == "bool":
        return st.sym_bool(tag)
    if t == "char":
        return st.sym_char(tag)
    if t in INT_BITS:
        return st.sym_bv(tag, INT_BITS[t])
    if t == "String":
        b = z3.Bool(tag + "_empty")
        if st.choose([b, z3.Not(b)]) == 0:
            return SString([])
        return SString([st.sym_char(tag + "_0")])
    if t.startswith("Option<") and t.endswith(">"):
        b = z3.Bool(tag + "_none")
        if st.choose([b, z3.Not(b)]) == 0:
            return none()
        return some(unknown_value(prog, st, t[len("Option<"):-1], tag + "_some", what))
    if t.startswith("Vec<") and t.endswith(">"):
        # empty, or one or two elements of the element type (as far as they can be made up): code that pops one and looks at the next is reached
        n = z3.Int(tag + "_len")
        k = st.choose([n == 0, n == 1, z3.Not(z3.Or(n == 0, n == 1))])
        try:
            return SVec([unknown_value(prog, st, t[4:-1], "%s_%d" % (tag, i), what) for i in range(k)])
        except Exception:       # noqa
            return SVec([])
    if t.startswith("(") and t.endswith(")"):
        parts, depth, cur = [], 0, ""
        for ch in t[1:-1]:
            if ch in "<([":
                depth += 1
            elif ch in ">)]":
                depth -= 1
            if ch == "," and depth == 0:
                parts.append(cur)
                cur = ""
            else:
                cur += ch
        if cur.strip():
            parts.append(cur)
        return Agg("tuple", None, [unknown_value(prog, st, x, "%s_%d" % (tag, i), what) for i, x in enumerate(parts)])
    if t == "Rank":
        # a candidate of any class with a one-character text
        kinds = [k for k in ("Other", "Emoji", "First", "Last") if k in prog.enums.get("Rank", {})]
        n = z3.Int(tag + "_kind")
        k = kinds[st.choose([n == i for i in range(len(kinds) - 1)] + [z3.Not(z3.Or([n == i for i in range(len(kinds) - 1)]))])] if len(kinds) > 1 else kinds[0]
        nf = len(prog.enum_fields.get(("Rank", k), [])) if hasattr(prog, "enum_fields") else 2
        fields = [SString([st.sym_char(tag + "_text")])] + ([st.sym_bv(tag + "_num", 8)] if (nf or (1 if k == "First" else 2)) > 1 else [])
        return Agg("adt:Rank", prog.enums["Rank"][k], fields)
    bare = t.split("::")[-1]
    if bare in prog.enums and bare not in ("Rank", "Suggestion") and not any((bare, v) in prog.enum_fields for v in prog.enums[bare]):
        # a crate enum (taken to have unit variants only, as `PendingKar`): any of its variants
        vs = sorted(prog.enums[bare].items(), key=lambda kv: kv[1])
        n = z3.Int(tag + "_variant")
        k = st.choose([n == i for i in range(len(vs) - 1)] + [z3.Not(z3.Or([n == i for i in range(len(vs) - 1)]))]) if len(vs) > 1 else 0
        return Agg("adt:" + bare, vs[k][1], [])
    if t.startswith("HashMap<") and t.endswith(">"):
        # any content: every key asked for is present or absent (the environment's choice), its value an unconstrained value of the value type
        parts, depth, cur = [], 0, ""
        for ch in t[len("HashMap<"):-1]:
            if ch in "<([":
                depth += 1
            elif ch in ">)]":
                depth -= 1
            if ch == "," and depth == 0:
                parts.append(cur)
                cur = ""
            else:
                cur += ch
        parts.append(cur)
        vt = parts[1].strip() if len(parts) > 1 else ""
        count = [0]

        def oracle(it2, m, key):
            count[0] += 1
            if count[0] > 2:
                return None
            b = z3.Bool("%s_has_%d" % (tag, count[0]))
            if it2.st.choose([b, z3.Not(b)]) == 0:
                try:
                    return unknown_value(prog, it2.st, vt, "%s_v%d" % (tag, count[0]), what)
                except Exception:       # noqa
                    return None
            return None
        return SMap(tag, [], oracle)
    return Opaque(what)


def unknown_field_value(prog, st, struct, fname):
    """A field the crate declares and this machinery does not know (a refactor added it): an unconstrained value of its type, so that the
    code reading it is executed rather than refused. What depends on it is reported only after a native search re-finds it."""
    t = prog.struct_field_types.get(struct, {}).get(fname, "").strip()
    return unknown_value(prog, st, t, "%s_%s" % (struct.lower(), fname), "%s.%s" % (struct, fname))


def struct_of(prog, name, values, st=None):
    """Build an Agg for a crate struct from a name->value dict, in the declaration order read from the source. Fields this machinery does
    not know are unconstrained values of their type when a path state is given, refused otherwise."""
    order = prog.structs.get(name)
    if order is None:
        raise Inconclusive("struct %s not found in the sources" % name)
    missing = [f for f in order if f not in values]
    if missing and st is None:
        from mirsym import interp as _interp
        st = _interp.CURRENT[0]
    if missing and st is None:
        raise Inconclusive("struct %s has fields this harness does not know: %s" % (name, missing))
    for f in missing:
        values = dict(values)
        values[f] = unknown_field_value(prog, st, name, f)
    return Agg("adt:" + name, None, [values[f] for f in order])


def field(prog, agg, struct, name):
    return agg.fields[prog.structs[struct].index(name)]


def mk_config(prog, st, fixed=None, layout_elems=(), tag="opt_"):
    """Config with every boolean option symbolic unless fixed in `fixed` (name -> bool)."""
    fixed = fixed or {}
    vals = {"layout": SString(layout_elems), "database_dir": Opaque("PathBuf", ()), "user_dir": Opaque("PathBuf", ())}
    opts = {}
    for o in OPTS:
        if o in fixed:
            opts[o] = fixed[o]
        else:
            opts[o] = st.sym_bool(tag + o)
        vals[o] = opts[o]
    return struct_of(prog, "Config", vals), opts


# option field -> setter, in the order the native replay driver calls them (riti_config_set_* forward to these)
SETTERS = [("include_english", "set_suggestion_include_english"), ("phonetic_suggestion", "set_phonetic_suggestion"),
           ("fixed_suggestion", "set_fixed_suggestion"), ("fixed_vowel", "set_fixed_automatic_vowel"),
           ("fixed_chandra", "set_fixed_automatic_chandra"), ("fixed_kar", "set_fixed_traditional_kar"),
           ("fixed_old_reph", "set_fixed_old_reph"), ("fixed_numpad", "set_fixed_numpad"), ("fixed_kar_order", "set_fixed_old_kar_order"),
           ("ansi", "set_ansi_encoding"), ("smart_quote", "set_smart_quote")]


def config_via_setters(prog, it, st, values, layout_elems=()):
    """A Config brought to `values` the way a front end does it: the crate's own setters (from MIR), called in the native driver's order.
    Used where executor and native build are compared on concrete inputs, so that both sides reach the configuration the same way."""
    cfg, _ = mk_config(prog, st, {o: False for o in OPTS}, layout_elems=layout_elems)
    holder = [cfg]
    for field_name, setter in SETTERS:
        it.call_function(prog.find_fn("Config", setter), [Ref(holder, 0, True), values.get(field_name, False)])
    return holder[0]


def mk_data(prog, st):
    """`Data` as the crate declares it: the known tables are opaque (their accessors are oracle cut points); a field this machinery does not
    know (a refactor added a derived value) is an unconstrained value of its type, so code reading it is executed rather than refused -
    a counterexample that depends on it is only reported after a native search re-finds it on the real data."""
    from mirsym.values import INT_BITS
    order = prog.structs.get("Data")
    if order is None:
        return Opaque("Data")
    types = prog.struct_field_types.get("Data", {})
    vals = []
    for f in order:
        t = types.get(f, "").strip()
        if t in INT_BITS and t not in ("bool", "char"):
            vals.append(st.sym_bv("data_" + f, INT_BITS[t]))
        elif t == "bool":
            vals.append(st.sym_bool("data_" + f))
        else:
            vals.append(Opaque("Data." + f))
    return Agg("adt:Data", None, vals)


def pending_value(prog, name):
    if name is None:
        return none()
    return some(Agg("adt:PendingKar", prog.enums["PendingKar"][name], []))


def pending_name(prog, v):
    if v.variant == 0:
        return None
    d = v.fields[0].variant
    for k, x in prog.enums["PendingKar"].items():
        if x == d:
            return k
    return "?"


def mk_fixed(prog, buffer, typed, pending, suggestions, layout_entries):
    lay = struct_of(prog, "Layout", {"map": SMap("layout", [[tuple(k), SString(v)] for k, v in layout_entries])})
    return struct_of(prog, "FixedMethod", {"buffer": SString(buffer), "typed": SString(typed),
                                             "pending_kar": pending_value(prog, pending),
                                             "suggestions": SVec(suggestions), "layout": lay})


def key_name(s):
    return tuple(ord(c) for c in s)


def render_suggestion(prog, model, s):
    """Symbolic Suggestion value -> concrete JSON-able rendering under a model."""
    if not (isinstance(s, Agg) and s.kind == "adt:Suggestion"):
        return {"kind": "?"}
    full = prog.enums["Suggestion"]["Full"]
    if s.variant == full:
        order = prog.enum_fields[("Suggestion", "Full")]
        f = dict(zip(order, s.fields))
        return {"kind": "full", "aux": model_string(model, f["auxiliary"].elems),
                "list": [model_string(model, x.elems) for x in f["suggestions"].items],
                "sel": model_value(model, f["selection"]), "ansi": model_value(model, f["ansi"])}
    order = prog.enum_fields[("Suggestion", "Single")]
    f = dict(zip(order, s.fields))
    return {"kind": "single", "text": model_string(model, f["suggestion"].elems), "ansi": model_value(model, f["ansi"])}


def fixed_state(prog, model, fm):
    order = prog.structs["FixedMethod"]
    f = dict(zip(order, fm.fields))
    return {"buffer": model_string(model, f["buffer"].elems), "typed": model_string(model, f["typed"].elems),
            "pending": pending_name(prog, f["pending_kar"])}


def opts_json(model, opts):
    return {OPT_JSON[k]: bool(model_value(model, v)) for k, v in opts.items()}


def native_fixed_step(inputs):
    """Scenario: plant the pre-state with the state hook, perform one event, read the state back."""
    lay = dict(inputs.get("layout", {}))
    cfg = {"layout_json": lay, "opts": inputs["opts"]}
    if inputs.get("database"):
        cfg["database"] = inputs["database"]
    steps = [{"op": "new", "config": cfg},
             {"op": "set_state", "state": {"buffer": inputs["buffer"], "typed": inputs.get("typed", ""),
                                           "pending": inputs.get("pending"),
                                           "suggestions": inputs.get("suggestions", [])}}]
    ev = inputs["event"]
    steps.append(ev)
    steps.append({"op": "get_state"})
    return {"steps": steps}


SKIPPED = "skipped"      # not played (the driver had died too often before): neither agreement nor disagreement


def compare_fixed_step(w, res):
    """Compare a path witness' prediction with the native result. -> None when equal, else a description."""
    r = res["results"]
    if res.get("skipped"):
        return SKIPPED
    if res.get("crashed"):
        # the native process aborted or never returned somewhere in this scenario: agrees with a path that ends in a panic
        # (unbounded recursion is reported as one), disagrees with a path that returns
        if w["predicted"].get("panic") is not None:
            return None
        return "native process aborted or did not return (%s) but the symbolic path returns" % r[0].get("abort", "")[:200]
    if "error" in r[0] or "panic" in r[0]:
        return "native context creation failed: %s" % (r[0],)
    ev = r[2]
    pred = w["predicted"]
    if pred.get("panic") is not None:
        if "panic" not in ev:
            return "symbolic path panics (%s) but native run returns %s" % (pred["panic"], json.dumps(ev, ensure_ascii=False)[:300])
        return None
    if "panic" in ev:
        return "native run panics (%s) but symbolic path returns" % ev["panic"]
    st = r[3].get("state", {})
    for k in ("buffer", "typed", "pending"):
        if k in pred["state"] and st.get(k) != pred["state"][k]:
            return "post-state %s: native %r, symbolic %r" % (k, st.get(k), pred["state"][k])
    ps = pred.get("ret")
    if ps is not None and "suggestion" in ev:
        ns = ev["suggestion"]
        if ps["kind"] != ns["kind"]:
            return "suggestion kind: native %s symbolic %s" % (ns["kind"], ps["kind"])
        if ps["kind"] == "single" and ps["text"] != ns["text"]:
            return "single text: native %r symbolic %r" % (ns["text"], ps["text"])
        if ps["kind"] == "full" and (ps["list"] != ns["list"] or ps["aux"] != ns["aux"] or ps["sel"] != ns["sel"]):
            return "list: native %r symbolic %r" % (ns, ps)
    if "ongoing" in pred and ev.get("ongoing") != pred["ongoing"]:
        return "ongoing flag: native %r symbolic %r" % (ev.get("ongoing"), pred["ongoing"])
    return None


def validate_witnesses(check, name, witnesses, to_scenario=native_fixed_step, compare=compare_fixed_step, cap=None):
    """Replay path witnesses natively; every mismatch means a model of the executor is wrong -> inconclusive."""
    if cap and len(witnesses) > cap:
        step = len(witnesses) / float(cap)
        witnesses = [witnesses[int(i * step)] for i in range(cap)]
    if not witnesses:
        return 0, []
    scs = [to_scenario(w["inputs"]) for w in witnesses]
    res = run_replay_parallel(scs)
    bad = []
    skipped = 0
    for w, r in zip(witnesses, res):
        d = compare(w, r)
        if d == SKIPPED or (r.get("skipped") and d is not None):
            skipped += 1
            continue
        if d is not None:
            bad.append((w, d))
    witnesses = witnesses[:len(witnesses) - skipped] if skipped else witnesses
    check.stats["traces_validated"] += len(witnesses) - len(bad)
    for w in witnesses[:3]:
        check.sample(dict(obligation=name, path_witness=w["inputs"], predicted=w["predicted"]))
    return len(witnesses) - len(bad), bad
