"""Warm the build caches used by the checks (Kani target dir, MIR dump target dir)."""
import os
import sys

sys.path.insert(0, os.path.dirname(os.path.abspath(__file__)))
import kani_engine as K  # noqa: E402
import obl_kani  # noqa: E402

r = K.run_harnesses(["k_get_modifiers"], obl_kani.rank_domain(), timeout=1500, playback=False)
print("kani warm-up:", r["k_get_modifiers"]["status"])
try:
    import mirdump
    mirdump.dump()
    print("mir dump ok")
except Exception as ex:  # noqa
    print("mir warm-up skipped:", ex)
