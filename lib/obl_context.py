"""Obligations on the context layer (RitiContext: RefCell<Box<dyn Method>>, config, data) decided by engine M."""
import json

import z3

import msym
from common import REPO, run_replay
from fixedlib import OPTS, VC_A, key_name, mk_config, mk_data, mk_fixed, struct_of
from mirsym.values import Agg, Box, Opaque, Ref, SMap, SString, SVec, bv, deep_copy, is_sym, simp
from msym import model_string, model_value
from obl_fixed import fm_field, seq_eq, zb
from obl_phonetic import eval_clauses


def plain_config(v):
    """The Config a context holds, whatever it is wrapped in (a reference, a Cow, a Box)."""
    for _ in range(4):
        if isinstance(v, Ref):
            v = v.get()
        elif isinstance(v, Box):
            v = v.cell[0]
        elif isinstance(v, Agg) and v.kind in ("adt:Cow", "adt:Rc", "adt:Arc") and v.fields:
            v = v.fields[0]
        else:
            break
    return v


def mk_context(prog, method, cfg, data):
    cell = Agg("adt:RefCell", None, [Box(method), 0])
    return struct_of(prog, "RitiContext", {"method": cell, "config": cfg, "data": data})


def fit_return(it, callee, v):
    """An oracle standing in for a crate function answers in the shape the function's signature has in the tree under check: wrapped in
    Some / Ok when the function returns an Option / a Result."""
    from mirsym.values import some, ok
    try:
        f = it.p.resolve(callee)
    except Exception:
        f = None
    rt = (getattr(f, "ret_type", None) or "").strip()
    for pre in ("", "std::option::", "core::option::", "std::result::", "core::result::"):
        if rt.startswith(pre + "Option<"):
            return some(v)
        if rt.startswith(pre + "Result<"):
            return ok(v)
    return v


def fit_unit(it, callee):
    """What an oracle for a `()` function returns when the tree under check gave the function a result: an unconstrained value of that type."""
    from mirsym.values import UNIT
    try:
        f = it.p.resolve(callee)
    except Exception:
        f = None
    rt = (getattr(f, "ret_type", None) or "()").strip()
    if rt == "bool":
        fit_unit.n += 1
        return it.st.sym_bool("oracle_result_%d" % fit_unit.n)
    return UNIT


fit_unit.n = 0


def make_context(shape):
    """A fixed-layout context with a word in progress or idle; events through RitiContext's own functions."""
    n = shape["n"]
    ev = shape["event"]

    def build(st, it):
        prog = it.p
        buf = [st.sym_char("b%d" % i) for i in range(n)]
        lay_old = [ord(c) for c in "/layouts/A.json"]
        lay_new = lay_old if shape.get("same_layout", True) else [ord(c) for c in "/layouts/B.json"]
        cfg_old, opts_old = mk_config(prog, st, {"fixed_suggestion": False}, layout_elems=lay_old)
        fm = mk_fixed(prog, buf, [], None, [], [(key_name("Key_a_Normal"), [0x0995])])
        data = mk_data(prog, st)
        holder = []
        # the new configuration: every option an independent symbol
        fixed_new = {"fixed_suggestion": False}
        cfg_new = None
        opts_new = {}
        vals = {"layout": SString(lay_new), "database_dir": Opaque("PathBuf", ()), "user_dir": Opaque("PathBuf", ())}
        for o in OPTS:
            opts_new[o] = fixed_new[o] if o in fixed_new else st.sym_bool("new_" + o)
            vals[o] = opts_new[o]
        cfg_new = struct_of(prog, "Config", vals)
        made = []

        def method_new(it2, args, callee):
            m = mk_fixed(prog, [], [], None, [], [(key_name("Key_a_Normal"), [0x0996])])
            made.append(m)
            return Box(m)
        first = [True]

        def fixed_new(it2, args, callee):
            if first[0]:
                first[0] = False
                return fit_return(it2, callee, fm)
            m = mk_fixed(prog, [], [], None, [], [(key_name("Key_a_Normal"), [0x0996])])
            made.append(m)
            return fit_return(it2, callee, m)
        reads = [0]

        def get_layout(it2, args, callee):
            # the layout file: readable when the context is created; whether it can be read at any later moment is the environment's choice
            # (an editor may be saving it) - only for an update that keeps the layout, where the file is none of the update's business
            from mirsym.values import some, none
            reads[0] += 1
            if not first[0] and shape.get("same_layout", True) and ev == "update":
                if not it2.st.branch(st.sym_bool("layout_file_readable_%d" % reads[0])):
                    unreadable.append(reads[0])
                    return none()
            return some(Opaque("serde_json::Value", ("layout",)))
        unreadable = []

        def from_value(it2, args, callee):
            from mirsym.values import ok
            return ok(SMap("layout", [[key_name("Key_a_Normal"), SString([0x0996])]]))
        it.env["overrides"] = {"FixedMethod::new": fixed_new, "Data::new": lambda it2, args, callee: data, "Config::get_layout": get_layout, "from_value": from_value}
        st.ctx = dict(buf=buf, fm=fm, cfg_new=cfg_new, opts_new=opts_new, opts_old=opts_old, made=made, shape=shape, holder=holder, unreadable=unreadable)

        def fn(name):
            return prog.find_fn("RitiContext", name)

        def run():
            out = {}
            # the context as its own constructor makes it (the fixed method's constructor is the oracle that plants the word in progress)
            ctx = it.call_function(fn("new_with_config"), [Ref([cfg_old], 0)])
            holder.append(ctx)
            me = Ref(holder, 0, True)
            if ev == "update":
                it.call_function(fn("update_engine"), [me, Ref([cfg_new], 0)])
                out["key"] = it.call_function(fn("get_suggestion_for_key"), [Ref(holder, 0), VC_A, 0, 0])
            elif ev == "key":
                out["key"] = it.call_function(fn("get_suggestion_for_key"), [Ref(holder, 0), VC_A, 0, 0])
            elif ev == "backspace":
                out["ret"] = it.call_function(fn("backspace_event"), [Ref(holder, 0), st.sym_bool("ctrl")])
            elif ev == "commit":
                it.call_function(fn("candidate_committed"), [Ref(holder, 0), st.sym_bv("index", 64)])
            elif ev == "finish":
                it.call_function(fn("finish_input_session"), [Ref(holder, 0)])
            out["ongoing"] = it.call_function(fn("ongoing_input_session"), [Ref(holder, 0)])
            # every borrow is released again
            cell = holder[0].fields[prog.structs["RitiContext"].index("method")]
            out["borrow_state"] = cell.fields[1]
            return out
        return run

    def on_path(st, it, out):
        prog = it.p
        c = st.ctx
        model = st.get_model()

        def inputs(m):
            return dict(event=ev, text=model_string(m, c["buf"]), same_layout=shape.get("same_layout", True), layout_file_unreadable_at_update=bool(c["unreadable"]),
                        new_options={k: bool(model_value(m, v)) for k, v in c["opts_new"].items()})

        def pred(m):
            return dict(panic=out[1].message) if out[0] == "panic" else dict(ok=True)
        if out[0] == "panic":
            return [dict(kind="violation", clause="no_panic", inputs=inputs(model), predicted=pred(model))]
        r = out[1]
        ctx = c["holder"][0]
        clauses = [("borrows_are_released", r["borrow_state"] == 0), ("cover:context_event", True)]
        cell = ctx.fields[prog.structs["RitiContext"].index("method")]
        cur = cell.fields[0].cell[0] if isinstance(cell.fields[0], Box) else None
        if ev == "update":
            cfg_now = plain_config(ctx.fields[prog.structs["RitiContext"].index("config")])
            order = prog.structs["Config"]
            same = []
            for o in OPTS:
                a, b = cfg_now.fields[order.index(o)], c["cfg_new"].fields[order.index(o)]
                same.append(simp(zb(a) == zb(b)))
            same.append(seq_eq(cfg_now.fields[order.index("layout")].elems, c["cfg_new"].fields[order.index("layout")].elems))
            clauses.append(("configuration_is_replaced", z3.And(same)))
            if shape.get("same_layout", True):
                clauses.append(("same_layout_keeps_the_method_and_its_word", cur is c["fm"] and len(c["made"]) == 0))
            else:
                clauses.append(("changed_layout_replaces_the_method", len(c["made"]) == 1 and cur is c["made"][0]))
            # the next event sees the new configuration: the returned suggestion carries the new ANSI switch
            sug = r["key"]
            single = prog.enums["Suggestion"]["Single"]
            if isinstance(sug, Agg) and sug.variant == single:
                ansi = sug.fields[prog.enum_fields[("Suggestion", "Single")].index("ansi")]
                clauses.append(("later_events_see_the_new_configuration", simp(zb(ansi) == zb(c["opts_new"]["ansi"]))))
                clauses.append(("cover:update", True))
        return eval_clauses(st, clauses, lambda cn, m: dict(kind="violation", clause=cn, inputs=inputs(m), predicted=pred(m)))
    return build, on_path


LAYOUTS = {"P": "avro_phonetic", "A": "/layouts/A.json", "B": "/layouts/B.json"}


class MethodTok(Agg):
    """An oracle method object: what the constructors of the two methods return in the history shapes. It records every call made on it."""

    def __init__(self, kind, layout, born):
        Agg.__init__(self, "adt:" + kind, None, [])
        self.mkind = kind
        self.layout = layout
        self.born = born
        self.log = []

    def copy(self):
        return self


def make_history(shape):
    """The context as its own constructor makes it (new_with_config through MIR), then update_engine calls with other configurations,
    each followed by a key event; the two method constructors and the methods' own event functions are oracles that record what
    they were given."""
    seq = shape["layouts"]

    def build(st, it):
        prog = it.p
        order = prog.structs["Config"]
        cfgs, optss = [], []
        for i, l in enumerate(seq):
            vals = {"layout": SString([ord(c) for c in LAYOUTS[l]]), "database_dir": Opaque("PathBuf", ()), "user_dir": Opaque("PathBuf", ())}
            opts = {}
            for o in OPTS:
                opts[o] = st.sym_bool("c%d_%s" % (i, o))
                vals[o] = opts[o]
            cfgs.append(struct_of(prog, "Config", vals))
            optss.append(opts)
        clock = [0]
        toks = []
        calls = []
        data = mk_data(prog, st)

        def layout_of(cfg):
            return "".join(chr(x) for x in deref(cfg).fields[order.index("layout")].elems)

        def deref(v):
            return v.get() if isinstance(v, Ref) else v

        def mk(kind):
            def f(it2, args, callee):
                t = MethodTok(kind, layout_of(args[0]), clock[0])
                toks.append(t)
                return fit_return(it2, callee, t)
            return f

        def ev(name, cfg_arg):
            def f(it2, args, callee):
                obj = deref(args[0])
                if not isinstance(obj, MethodTok):
                    raise Exception("dyn Method call on %r" % (obj,))
                cfg = deref(args[cfg_arg]) if cfg_arg is not None else None
                rec = dict(name=name, tok=obj, at=clock[0], cfg=cfg.copy() if cfg is not None and hasattr(cfg, "copy") else cfg, args=args)
                obj.log.append(rec)
                calls.append(rec)
                if name in ("get_suggestion", "backspace_event"):
                    sug = Agg("adt:Suggestion", prog.enums["Suggestion"]["Single"], [None, None])
                    fo = prog.enum_fields[("Suggestion", "Single")]
                    sug.fields[fo.index("suggestion")] = SString([0x41 + len(calls)])
                    sug.fields[fo.index("ansi")] = False
                    rec["ret"] = sug
                    return sug
                if name == "ongoing_input_session":
                    return False
                return fit_unit(it2, callee)
            return f
        from mirsym.values import UNIT
        it.env["overrides"] = {"PhoneticMethod::new": mk("PhoneticMethod"), "FixedMethod::new": mk("FixedMethod"),
                               "Data::new": lambda it2, args, callee: data,
                               "Method::get_suggestion": ev("get_suggestion", 5), "Method::backspace_event": ev("backspace_event", 3),
                               "Method::candidate_committed": ev("candidate_committed", 2), "Method::update_engine": ev("update_engine", 1),
                               "Method::ongoing_input_session": ev("ongoing_input_session", None),
                               "Method::finish_input_session": ev("finish_input_session", None)}
        st.ctx = dict(cfgs=cfgs, optss=optss, toks=toks, calls=calls, shape=shape, data=data)

        def fn(name):
            return prog.find_fn("RitiContext", name)

        def run():
            out = {"keys": []}
            ctx = it.call_function(fn("new_with_config"), [Ref([cfgs[0]], 0)])
            box = [ctx]
            for i in range(len(seq)):
                if i > 0:
                    clock[0] = i
                    it.call_function(fn("update_engine"), [Ref(box, 0, True), Ref([cfgs[i]], 0)])
                r = it.call_function(fn("get_suggestion_for_key"), [Ref(box, 0), VC_A, 0, 0])
                out["keys"].append(r)
                it.call_function(fn("finish_input_session"), [Ref(box, 0)])
            out["ctx"] = box[0]
            return out
        return run

    def on_path(st, it, out):
        prog = it.p
        c = st.ctx
        model = st.get_model()
        order = prog.structs["Config"]

        def inputs(m):
            return dict(layouts=[LAYOUTS[l] for l in seq],
                        options=[{k: bool(model_value(m, v)) for k, v in o.items()} for o in c["optss"]])

        def pred(m):
            return dict(panic=out[1].message) if out[0] == "panic" else dict(ok=True)
        if out[0] == "panic":
            return [dict(kind="violation", clause="no_panic", inputs=inputs(model), predicted=pred(model))]
        r = out[1]
        ctx = r["ctx"]
        cell = ctx.fields[prog.structs["RitiContext"].index("method")]
        cur = cell.fields[0].cell[0] if isinstance(cell.fields[0], Box) else cell.fields[0]
        clauses = [("borrows_are_released", cell.fields[1] == 0), ("cover:history", True)]

        def cfg_eq(a, b):
            same = [simp(zb(a.fields[order.index(o)]) == zb(b.fields[order.index(o)])) for o in OPTS]
            same.append(seq_eq(a.fields[order.index("layout")].elems, b.fields[order.index("layout")].elems))
            return z3.And(same)
        # after every stage: the method object is what a new context with that configuration would have - of the right kind and layout,
        # and either made in this stage or told to refresh with this stage's configuration in this stage
        key_calls = [x for x in c["calls"] if x["name"] == "get_suggestion"]
        ok_kind, ok_fresh, ok_cfg, ok_ret, ok_data = [], [], [], [], []
        for i, l in enumerate(seq):
            if i >= len(key_calls):
                ok_kind.append(False)
                continue
            kc = key_calls[i]
            tok = kc["tok"]
            ok_kind.append(tok.mkind == ("PhoneticMethod" if l == "P" else "FixedMethod") and tok.layout == LAYOUTS[l])
            refreshed = [x for x in tok.log if x["name"] == "update_engine" and x["at"] == i]
            if tok.born == i:
                ok_fresh.append(True)
            elif refreshed:
                ok_fresh.append(cfg_eq(refreshed[-1]["cfg"], c["cfgs"][i]))
            else:
                ok_fresh.append(False)
            ok_cfg.append(cfg_eq(kc["cfg"], c["cfgs"][i]) if kc["cfg"] is not None else False)
            ok_ret.append(r["keys"][i] is kc["ret"])
            d = kc["args"][4]
            ok_data.append((d.get() if isinstance(d, Ref) else d) is c["data"])
        def conj(xs):
            if any(x is False for x in xs):
                return False
            ys = [x for x in xs if x is not True]
            return z3.And(ys) if ys else True
        clauses.append(("method_matches_the_configured_layout", conj(ok_kind)))
        clauses.append(("method_is_new_or_refreshed_by_the_update", conj(ok_fresh)))
        clauses.append(("later_events_see_the_new_configuration", conj(ok_cfg)))
        clauses.append(("event_result_is_the_methods_result", conj(ok_ret)))
        clauses.append(("events_use_the_contexts_data", conj(ok_data)))
        cfg_now = plain_config(ctx.fields[prog.structs["RitiContext"].index("config")])
        clauses.append(("configuration_is_replaced", cfg_eq(cfg_now, c["cfgs"][-1])))
        # a method object is never told about events once it has been replaced
        clauses.append(("current_method_is_last", cur is key_calls[-1]["tok"] if key_calls else False))
        return eval_clauses(st, clauses, lambda cn, m: dict(kind="violation", clause=cn, inputs=inputs(m), predicted=pred(m)))
    return build, on_path


def make_ffi_ownership(shape):
    """The context functions of the C interface from MIR (`riti_context_new_with_config`, `riti_context_update_engine`, `riti_get_suggestion_for_key`,
    `riti_context_backspace_event`): after the call returns, the caller's Config object is the caller's again - it may be freed, reused or
    changed. Modelled by overwriting every field of the caller's object in place; the configuration the context hands to the next event
    must still be the one it was given."""
    seq = shape["layouts"]

    def build(st, it):
        prog = it.p
        order = prog.structs["Config"]
        cfgs, snaps = [], []
        for i, l in enumerate(seq):
            vals = {"layout": SString([ord(c) for c in LAYOUTS[l]]), "database_dir": Opaque("PathBuf", ("db",)), "user_dir": Opaque("PathBuf", ("user",))}
            for o in OPTS:
                vals[o] = st.sym_bool("f%d_%s" % (i, o))
            c = struct_of(prog, "Config", vals)
            cfgs.append(c)
            snaps.append(deep_copy(c))
        calls, toks = [], []
        data = mk_data(prog, st)
        from mirsym.values import UNIT

        def deref(v):
            return v.get() if isinstance(v, Ref) else v

        def mk(kind):
            def f(it2, args, callee):
                t = MethodTok(kind, "".join(chr(x) for x in deref(args[0]).fields[order.index("layout")].elems), len(calls))
                toks.append(t)
                return fit_return(it2, callee, t)
            return f

        def ev(name, cfg_arg):
            def f(it2, args, callee):
                cfg = deref(args[cfg_arg]) if cfg_arg is not None else None
                rec = dict(name=name, cfg=deep_copy(cfg) if cfg is not None else None)
                calls.append(rec)
                if name in ("get_suggestion", "backspace_event"):
                    sug = Agg("adt:Suggestion", prog.enums["Suggestion"]["Single"], [None, None])
                    fo = prog.enum_fields[("Suggestion", "Single")]
                    sug.fields[fo.index("suggestion")] = SString([0x41])
                    sug.fields[fo.index("ansi")] = False
                    return sug
                if name == "ongoing_input_session":
                    return False
                return fit_unit(it2, callee)
            return f
        it.env["overrides"] = {"PhoneticMethod::new": mk("PhoneticMethod"), "FixedMethod::new": mk("FixedMethod"), "Data::new": lambda it2, args, callee: data,
                               "Method::get_suggestion": ev("get_suggestion", 5), "Method::backspace_event": ev("backspace_event", 3),
                               "Method::candidate_committed": ev("candidate_committed", 2), "Method::update_engine": ev("update_engine", 1),
                               "Method::ongoing_input_session": ev("ongoing_input_session", None), "Method::finish_input_session": ev("finish_input_session", None)}
        st.ctx = dict(cfgs=cfgs, snaps=snaps, calls=calls, shape=shape)

        def clobber(c):
            # what a freed / reused / re-set object looks like to anyone still pointing at it
            for o in OPTS:
                v = c.fields[order.index(o)]
                c.fields[order.index(o)] = simp(z3.Not(v)) if is_sym(v) else (not v)
            c.fields[order.index("layout")] = SString([ord(ch) for ch in "/freed"])

        def fn(name):
            return prog.find_fn(name)

        def run():
            ctxp = it.call_function(fn("riti_context_new_with_config"), [Ref([cfgs[0]], 0)])
            clobber(cfgs[0])
            keys = []
            for i in range(len(seq)):
                if i > 0:
                    it.call_function(fn("riti_context_update_engine"), [ctxp, Ref([cfgs[i]], 0)])
                    clobber(cfgs[i])
                n0 = len(calls)
                it.call_function(fn("riti_get_suggestion_for_key"), [ctxp, VC_A, 0, 0])
                it.call_function(fn("riti_context_backspace_event"), [ctxp, False])
                keys.append(calls[n0:])
            return keys
        return run

    def on_path(st, it, out):
        prog = it.p
        c = st.ctx
        order = prog.structs["Config"]
        model = st.get_model()

        def inputs(m):
            return dict(layouts=[LAYOUTS[l] for l in seq], family="ffi")

        def pred(m):
            return dict(panic=out[1].message) if out[0] == "panic" else dict(ok=True)
        if out[0] == "panic":
            return [dict(kind="violation", clause="no_panic", inputs=inputs(model), predicted=pred(model))]

        def cfg_eq(a, b):
            same = [simp(zb(a.fields[order.index(o)]) == zb(b.fields[order.index(o)])) for o in OPTS]
            la, lb = a.fields[order.index("layout")].elems, b.fields[order.index("layout")].elems
            same.append(seq_eq(la, lb) if len(la) == len(lb) else z3.BoolVal(False))
            return z3.And(same)
        oks = []
        for i, recs in enumerate(out[1]):
            evs = [r for r in recs if r["cfg"] is not None]
            if not evs:
                oks.append(z3.BoolVal(False))
            for r in evs:
                oks.append(cfg_eq(r["cfg"], c["snaps"][i]))
        clauses = [("context_keeps_its_own_copy_of_the_configuration", z3.And(oks) if oks else False), ("cover:ffi_context", True)]
        return eval_clauses(st, clauses, lambda cn, m: dict(kind="violation", clause=cn, inputs=inputs(m), predicted=pred(m)))
    return build, on_path


def ffi_ownership_native():
    """Native: life cycles through the exported functions in which the caller frees its Config right after handing it over (and the freed
    block is reused), every read-out compared with a Rust-API context created with the same configuration and driven by the same events."""
    from obl_assembly import char_keys
    keys = char_keys()
    lay = {"Key_a_Normal": "ক", "Key_m_Normal": "ম", "Key_i_Normal": "ি"}
    scs = []

    def cfg(l, sug=True):
        o = {"phonetic_suggestion": sug, "fixed_suggestion": sug, "english": True}
        return {"layout": "avro_phonetic", "database": REPO + "/data", "opts": o} if l == "P" else {"layout_json": lay, "database": REPO + "/data", "opts": o}
    for l0 in ("P", "F"):
        for l1 in (None, "P", "F"):
            events = [{"key": keys[ch], "sel": 0} for ch in "ami"] + [{"finish": True}]
            if l1 is not None:
                events += [{"update": cfg(l1, sug=(l0 != l1))}] + [{"key": keys[ch], "sel": 0} for ch in "ami"] + [{"backspace": False}, {"finish": True}]
            scs.append({"steps": [{"op": "ffi_cycle", "config": cfg(l0), "events": events, "early_config_free": True, "warmups": 0}]})
    res = run_replay(scs)
    for sc, r in zip(scs, res):
        x = r["results"][0]
        if r.get("crashed") or "panic" in x or x.get("mismatches"):
            what = x.get("abort") or x.get("panic") or "; ".join(x.get("mismatches", [])[:3])
            return sc, x, "life cycle through the C interface with the caller's Config freed (and its memory reused) right after riti_context_new_with_config / riti_context_update_engine returned: %s" % what
    return None


class FileBytes(SVec):
    """What fs::read returns in the data obligation: the bytes of the file at `path` (never looked into)."""
    __slots__ = ("path",)

    def __init__(self, path):
        SVec.__init__(self, [])
        self.path = path


def make_data_pair(shape):
    """`Data::new` from its own MIR for two configurations that name the same data directory and differ in everything an update may change
    (layout, every option): RitiContext::update_engine keeps the Data made by the constructor, so what a new context would load must be the
    same. The files are oracles keyed by their path (the same path reads the same bytes, the same bytes parse to the same table)."""
    la, lb = shape["layouts"]

    def build(st, it):
        prog = it.p
        cfgs, optss = [], []
        for i, l in enumerate((la, lb)):
            vals = {"layout": SString([ord(c) for c in LAYOUTS[l]]), "database_dir": Opaque("PathBuf", ("dbdir",) if shape["dir"] else ()),
                    "user_dir": Opaque("PathBuf", ("userdir",))}
            opts = {}
            for o in OPTS:
                opts[o] = st.sym_bool("d%d_%s" % (i, o))
                vals[o] = opts[o]
            cfgs.append(struct_of(prog, "Config", vals))
            optss.append(opts)
        order = prog.structs["Config"]
        reads = []
        by_list = {}

        def deref(v):
            return v.get() if isinstance(v, Ref) else v

        def dbdir(it2, args, callee):
            c = deref(args[0])
            return Ref([c.fields[order.index("database_dir")]], 0)

        def path_default(it2, args, callee):
            return Opaque("PathBuf", ())

        def path_eq(it2, args, callee):
            a, b = deref(args[0]), deref(args[1])
            return (a.payload or ()) == (b.payload or ())

        def sub(name):
            def f(it2, args, callee):
                c = deref(args[0])
                return Opaque("PathBuf", tuple(c.fields[order.index("database_dir")].payload or ()) + (name,))
            return f

        def fs_read(it2, args, callee):
            from mirsym.values import ok
            p = deref(args[0])
            v = FileBytes(p.payload)
            by_list[id(v.items)] = v
            reads.append(p.payload)
            return ok(v)

        def from_slice(it2, args, callee):
            from mirsym.values import ok
            a = deref(args[0])
            items = getattr(a, "items", None)
            src = by_list.get(id(items))
            if src is None:
                raise Exception("from_slice on bytes that are not a file's content")
            return ok(Opaque("parsed", ("json", src.path)))

        def fall(key, it2, args, callee):
            m = it2.models.lookup(key, callee)
            if m is None:
                from mirsym.interp import Unsupported
                raise Unsupported("no model for callee `%s`" % callee)
            return m(it2, args, callee)

        def any_default(it2, args, callee):
            return path_default(it2, args, callee) if "PathBuf" in callee.split(" as ")[0] else fall("Default::default", it2, args, callee)

        def any_eq(it2, args, callee):
            a, b = deref(args[0]), deref(args[1])
            if isinstance(a, Opaque) and isinstance(b, Opaque) and a.tag == "PathBuf" and b.tag == "PathBuf":
                return path_eq(it2, args, callee)
            return fall("PartialEq::eq", it2, args, callee)

        it.env["overrides"] = {"Config::get_database_dir": dbdir, "Default::default": any_default, "PartialEq::eq": any_eq, "PartialEq::ne": lambda i, a, c: not any_eq(i, a, c),
                               "Config::get_database_path": sub("dictionary.json"), "Config::get_suffix_data_path": sub("suffix.json"),
                               "Config::get_autocorrect_data": sub("autocorrect.json"),
                               "fs::read": fs_read, "from_slice": from_slice,
                               "Emojicon::new": lambda it2, args, callee: Opaque("Emojicon", ("bundled",)),
                               "BengaliEmoji::new": lambda it2, args, callee: Opaque("BengaliEmoji", ("bundled",))}
        st.ctx = dict(cfgs=cfgs, optss=optss, shape=shape, reads=reads)

        def run():
            fn = prog.find_fn("Data", "new")
            return [it.call_function(fn, [Ref([c], 0)]) for c in cfgs]
        return run

    def canon(v):
        if isinstance(v, Ref):
            return canon(v.get())
        if isinstance(v, Opaque):
            return ("opaque", v.tag, v.payload)
        if isinstance(v, SMap):
            return ("map", tuple((k, canon(x)) for k, x in v.entries), v.oracle is not None, v.extra)
        if isinstance(v, SVec):
            return ("vec", tuple(canon(x) for x in v.items))
        if isinstance(v, SString):
            return ("str", tuple(str(e) for e in v.elems))
        if isinstance(v, Box):
            return canon(v.cell[0])
        if isinstance(v, Agg):
            return ("agg", v.kind, v.variant, tuple(canon(x) for x in v.fields))
        return ("scalar", str(v))

    def on_path(st, it, out):
        c = st.ctx
        model = st.get_model()

        def inputs(m):
            return dict(layouts=[LAYOUTS[la], LAYOUTS[lb]], data_directory=bool(shape["dir"]),
                        options=[{k: bool(model_value(m, v)) for k, v in o.items()} for o in c["optss"]])

        def pred(m):
            return dict(panic=out[1].message) if out[0] == "panic" else dict(ok=True)
        if out[0] == "panic":
            return [dict(kind="violation", clause="no_panic", inputs=inputs(model), predicted=pred(model))]
        a, b = out[1]
        fields = it.p.structs["Data"]
        diff = [fields[i] for i in range(len(fields)) if canon(a.fields[i]) != canon(b.fields[i])] if isinstance(a, Agg) and isinstance(b, Agg) else ["?"]
        recs = [dict(kind="cover", name="cover:data_%s" % ("loaded" if c["reads"] else "empty"))]
        if diff:
            recs.append(dict(kind="violation", clause="data_is_the_same_for_every_layout_and_option", inputs=dict(inputs(model), differing_fields=diff), predicted=pred(model)))
        return recs
    return build, on_path


def obl_data(check, budget_s=None):
    """update_engine keeps the context's Data: a new context's Data must not depend on anything an update may change."""
    import itertools
    shapes = [dict(layouts=(a, b), dir=d) for a, b in itertools.permutations("PAB", 2) for d in (True, False)]
    check.bounds["data_layer"] = dict(configurations="pairs of configurations over {avro_phonetic, two fixed layout files} with the same data directory (set / not set), "
                                      "all 11 options of both independent symbols", files="oracles keyed by path: the same path reads the same bytes, the same bytes parse to the same table")
    records, errors, summ = msym.run_shapes(check, "data_layer", shapes, make_data_pair, budget_s=budget_s)
    name = "data_layer"
    vio = [r for r in records if r["kind"] == "violation" and (getattr(check, "only_clauses", None) is None or r["clause"] in check.only_clauses)]
    covers = set(r["name"] for r in records if r["kind"] == "cover")
    if errors:
        check.obligation(name, "mirsym", "inconclusive", "executor gave up: " + "; ".join(sorted(set(errors))[:3]))
        return
    if not {"cover:data_loaded", "cover:data_empty"} <= covers:
        check.obligation(name, "mirsym", "inconclusive", "vacuity: missing reachability witnesses")
        return
    if not vio:
        check.obligation(name, "mirsym", "held", "%d paths; Data::new gives the same tables for every layout and option setting over one data directory" % summ["paths"])
        return
    found = context_native(vio)
    if found is None:
        check.obligation(name, "mirsym", "inconclusive", "counterexample not re-found natively: %s (%s)" % (json.dumps(vio[0]["inputs"], ensure_ascii=False)[:300], vio[0]["clause"]))
        return
    sc, obs, what = found
    check.stats["traces_validated"] += 1
    st = check.finding("data layer: " + vio[0]["clause"], what, dict(scenario=sc, observed=obs, solver_counterexample=vio[0]["inputs"]))
    check.obligation(name, "mirsym", st, "%d paths; %d counterexample models" % (summ["paths"], len(vio)))


def context_native(vs):
    """Native confirmation through the public API: histories of update_engine over the phonetic method and two synthetic fixed layouts with
    option flips and user auto-correct edits in between, every stage compared with a context newly created with that configuration."""
    import itertools
    from obl_assembly import char_keys
    keys = char_keys()
    la = {"Key_x_Normal": "ক", "Key_y_Normal": "খ", "Key_z_Normal": "গ"}
    lb = {"Key_x_Normal": "চ", "Key_y_Normal": "ছ", "Key_z_Normal": "জ"}

    def cfg(l, flip):
        o = {"phonetic_suggestion": True, "fixed_suggestion": bool(flip), "ansi": bool(flip), "english": True}
        if l == "P":
            return {"layout": "avro_phonetic", "database": REPO + "/data", "opts": o}
        return {"layout_json": la if l == "A" else lb, "database": REPO + "/data", "opts": o}
    def typ_of(word):
        return [{"op": "key", "key": keys[ch], "sel": 0} for ch in word]
    words = ["xyz", "asgulo", "academy", "cool"]      # a user auto-correct entry, base + suffix, a bundled auto-correct entry, an emoji name
    edits = ["{\"xyz\":\"ami\"}", "{\"xyz\":\"tumi\"}", "{\"xyz\":\"kotha\"}", "{\"abc\":\"kotha\"}"]
    scs, meta = [], []
    for n in (2, 3, 4):
        for seq in itertools.product("PAB", repeat=n):
            for flips in ((0,) * n, tuple(i % 2 for i in range(n)), tuple((i + 1) % 2 for i in range(n))):
                steps = [{"op": "write_user_file", "name": "autocorrect.json", "content": edits[0]}, {"op": "new", "ctx": 0, "config": cfg(seq[0], flips[0])}]
                marks = []
                for i in range(n):
                    if i > 0:
                        steps.append({"op": "write_user_file", "name": "autocorrect.json", "content": edits[i % len(edits)], "mtime_plus": 5 * i})
                        steps.append({"op": "update", "ctx": 0, "config": cfg(seq[i], flips[i])})
                    ma = []
                    for w in words:
                        steps += [dict(x, ctx=0) for x in typ_of(w)]
                        ma.append(len(steps) - 1)
                        steps.append({"op": "finish", "ctx": 0})
                    steps.append({"op": "new", "ctx": i + 1, "config": cfg(seq[i], flips[i])})
                    for w, a in zip(words, ma):
                        steps += [dict(x, ctx=i + 1) for x in typ_of(w)]
                        marks.append((a, len(steps) - 1, i, w))
                        steps.append({"op": "finish", "ctx": i + 1})
                    steps.append({"op": "free", "ctx": i + 1})
                scs.append({"steps": steps})
                meta.append((seq, flips, marks))
    # the layout file is half written exactly while an update that keeps the layout runs (and whole again afterwards): the fixed-layout options
    # of the new configuration are in force all the same. Layout: a consonant, ু, া, ঁ, র, ্য - what the composition rules look at.
    lr = {"Key_k_Normal": "ক", "Key_u_Normal": "ু", "Key_a_Normal": "া", "Key_c_Normal": "ঁ", "Key_r_Normal": "র", "Key_z_Normal": "্য", "Key_h_Normal": "্"}
    rule_words = ["ku", "a", "kaa", "kca", "rz", "kha", "rhk"]
    fault = []
    for opt in ("vowel", "chandra", "kar", "old_reph", "kar_order", "ansi", "fixed_suggestion"):
        for start in (False, True):
            def cf(v):
                return {"layout_json": lr, "database": REPO + "/data", "opts": dict({"vowel": False, "chandra": False, "kar": False, "old_reph": False}, **{opt: v})}
            steps = [{"op": "new", "ctx": 0, "config": cf(start)}]
            steps += [dict(x, ctx=0) for x in typ_of("k")] + [{"op": "finish", "ctx": 0}]
            steps.append({"op": "update", "ctx": 0, "config": cf(not start), "layout_unreadable": True})
            steps.append({"op": "new", "ctx": 1, "config": cf(not start)})
            marks = []
            for w in rule_words:
                pair = []
                for cx in (0, 1):
                    steps += [dict(x, ctx=cx) for x in typ_of(w)]
                    pair.append(len(steps) - 1)
                    steps.append({"op": "finish", "ctx": cx})
                marks.append((pair[0], pair[1], 1, w))
            fault.append(({"steps": steps}, ("AA", "option '%s' %s -> %s; layout file unreadable during the update" % (opt, start, not start), marks)))
    scs = [x[0] for x in fault] + scs
    meta = [x[1] for x in fault] + meta
    from common import run_replay_parallel
    res = run_replay_parallel(scs)
    for (seq, flips, marks), sc, r in zip(meta, scs, res):
        rr = r["results"]
        p = [x for x in rr if "panic" in x]
        if p:
            return sc, p[0], "update_engine history %s panics: %s" % ("".join(seq), p[0]["panic"])
        for (a, b, stage, word) in marks:
            x, y = rr[a], rr[b]
            if x.get("suggestion") != y.get("suggestion"):
                return sc, [x, y], ("history of layouts %s (P phonetic, A/B two fixed layouts; user auto-correct file edited before each update)%s: at stage %d the "
                                    "updated context answers '%s' with %s, a context newly created with the same configuration with %s" % (
                                        "->".join(seq), (" [%s]" % flips) if isinstance(flips, str) else "", stage, word, json.dumps(x.get("suggestion"), ensure_ascii=False)[:200], json.dumps(y.get("suggestion"), ensure_ascii=False)[:200]))
    return None


def obl_context(check, thorough=False, budget_s=None, updates_only=False):
    import itertools
    shapes = []
    for ev in ("key", "backspace", "commit", "finish"):
        for n in (0, 1):
            shapes.append(dict(event=ev, n=n, family="event"))
    for same in (True, False):
        shapes.append(dict(event="update", n=0, same_layout=same, family="event"))
    if updates_only:
        return _obl_context_updates(check, [s for s in shapes if s["event"] == "update"], budget_s)
    for n in ((2, 3, 4) if thorough else (2, 3)):
        for seq in itertools.product("PAB", repeat=n):
            shapes.append(dict(layouts="".join(seq), family="history"))
    check.bounds["context_layer"] = dict(events="key, backspace, commit, finish through RitiContext on a fixed-layout method (0-1 symbolic characters composed)",
                                         histories="new_with_config then %s update_engine calls (idle), a key and a finish after each; layouts over {avro_phonetic, two fixed layout files}" % ("1-3" if thorough else "1-2"),
                                         method="history shapes: the two method constructors, Data::new and the methods' event functions are recording oracles",
                                         configurations="every option of every configuration an independent symbol")

    for seq in ("P", "A", "PA", "AP", "AB", "PP"):
        shapes.append(dict(layouts=seq, family="ffi"))

    def make(shape):
        if shape["family"] == "ffi":
            return make_ffi_ownership(shape)
        return make_history(shape) if shape["family"] == "history" else make_context(shape)
    records, errors, summ = msym.run_shapes(check, "context_layer", shapes, make, budget_s=budget_s)
    vio = [r for r in records if r["kind"] == "violation" and (getattr(check, "only_clauses", None) is None or r["clause"] in check.only_clauses)]
    covers = set(r["name"] for r in records if r["kind"] == "cover")
    name = "context_layer"
    if errors:
        check.obligation(name, "mirsym", "inconclusive", "executor gave up: " + "; ".join(sorted(set(errors))[:3]))
        return
    if not {"cover:update", "cover:context_event", "cover:history", "cover:ffi_context"} <= covers:
        check.obligation(name, "mirsym", "inconclusive", "vacuity: missing reachability witnesses")
        return
    if not vio:
        check.obligation(name, "mirsym", "held", "%d paths; borrows released, configuration replaced, method object of the configured kind and layout and new or refreshed "
                         "after every update, later events get the new configuration and the context's data" % summ["paths"])
        return
    status = "held"
    worst = {"held": 0, "known": 1, "inconclusive": 2, "violated": 3}
    groups = {}
    for v in vio:
        groups.setdefault(v["clause"], []).append(v)
    for clause, vs in sorted(groups.items()):
        found = ffi_ownership_native() if vs[0]["inputs"].get("family") == "ffi" else context_native(vs)
        if found is None:
            check.obligation(name + ":" + clause, "mirsym", "inconclusive", "counterexample not re-found natively: %s (%s)" % (json.dumps(vs[0]["inputs"], ensure_ascii=False)[:300], clause))
            st = "inconclusive"
        else:
            sc, obs, what = found
            check.stats["traces_validated"] += 1
            st = check.finding("context layer: " + clause, what, dict(scenario=sc, observed=obs, solver_counterexample=vs[0]["inputs"]))
        if worst[st] > worst[status]:
            status = st
    check.obligation(name, "mirsym", status, "%d paths; %d counterexample models" % (summ["paths"], len(vio)))


def _obl_context_updates(check, shapes, budget_s):
    """Only the `update_engine` shapes of the context layer (the options an idle context was last given are the ones the next key is handled with)."""
    check.bounds["context_update"] = dict(shape="new_with_config, update_engine (idle; layout kept or changed; every option of the new configuration an independent symbol; "
                                                "whether the layout file can be read during an update that keeps the layout is the environment's choice), one key")
    records, errors, summ = msym.run_shapes(check, "context_update", shapes, make_context, budget_s=budget_s)
    vio = [r for r in records if r["kind"] == "violation" and (getattr(check, "only_clauses", None) is None or r["clause"] in check.only_clauses)]
    covers = set(r["name"] for r in records if r["kind"] == "cover")
    name = "context_update"
    if errors:
        check.obligation(name, "mirsym", "inconclusive", "executor gave up: " + "; ".join(sorted(set(errors))[:3]))
        return
    if "cover:update" not in covers:
        check.obligation(name, "mirsym", "inconclusive", "vacuity: missing reachability witnesses")
        return
    if not vio:
        check.obligation(name, "mirsym", "held", "%d paths; the configuration given to update_engine is the one later events are handled with" % summ["paths"])
        return
    found = context_native(vio)
    if found is None:
        check.obligation(name, "mirsym", "inconclusive", "counterexample not re-found natively: %s (%s)" % (json.dumps(vio[0]["inputs"], ensure_ascii=False)[:300], vio[0]["clause"]))
        return
    sc, obs, what = found
    check.stats["traces_validated"] += 1
    st = check.finding("context update: " + vio[0]["clause"], what, dict(scenario=sc, observed=obs, solver_counterexample=vio[0]["inputs"]))
    check.obligation(name, "mirsym", st, "%d paths; %d counterexample models" % (summ["paths"], len(vio)))


# ------------------------------------------------------------------------- layout switch through the context (C04 / C11)

def make_layout_switch(shape):
    """A context created on layout file A, one key, the word finished, `update_engine` to layout file B (idle), the same key again - all from MIR,
    `FixedMethod::new` and `Layout::parse` included. The two files are oracles at `Config::get_layout` / `serde_json::from_value`: A assigns a
    text to the key, B assigns another text, an empty one, or nothing. After the switch the key emits exactly what B assigns."""
    name, code, stem, kind = shape["row"]

    def build(st, it):
        prog = it.p
        order = prog.structs["Config"]
        cfgs = {}
        for l in ("A", "B"):
            vals = {"layout": SString([ord(ch) for ch in LAYOUTS[l]]), "database_dir": Opaque("PathBuf", ("db",)), "user_dir": Opaque("PathBuf", ("user",))}
            for o in OPTS:
                vals[o] = (o == "fixed_numpad")
            cfgs[l] = struct_of(prog, "Config", vals)
        ename = ("Key_%s_Normal" % stem) if kind == "key" else stem
        va = [st.sym_char("a_val")]
        entries = {"A": va, "B": None}

        def get_layout(it2, args, callee):
            from mirsym.values import some
            c = args[0].get() if isinstance(args[0], Ref) else args[0]
            path = "".join(chr(x) for x in c.fields[order.index("layout")].elems)
            return some(Opaque("serde_json::Value", (path,)))

        def from_value(it2, args, callee):
            from mirsym.values import ok
            v = args[0].get() if isinstance(args[0], Ref) else args[0]
            which = "A" if v.payload and v.payload[0] == LAYOUTS["A"] else "B"
            pairs = [[tuple(ord(ch) for ch in "Key_zz_Normal"), SString([0x78])]]
            if which == "A":
                pairs.append([tuple(ord(ch) for ch in ename), SString(list(va))])
            else:
                if "B_decided" not in entries:
                    ab = z3.Bool("b_absent")
                    ln = z3.BitVec("b_len", 8)
                    k = it2.st.choose([ab, z3.And(z3.Not(ab), ln == 0), z3.And(z3.Not(ab), ln == 1)])
                    entries["B_decided"] = True
                    entries["B"] = None if k == 0 else ([] if k == 1 else [it2.st.sym_char("b_val")])
                if entries["B"] is not None:
                    pairs.append([tuple(ord(ch) for ch in ename), SString(list(entries["B"]))])
            return ok(SMap("layout", pairs))
        data = mk_data(prog, st)
        it.env["overrides"] = {"Config::get_layout": get_layout, "from_value": from_value, "Data::new": lambda it2, args, callee: data}
        st.ctx = dict(entries=entries, va=va, shape=shape)

        def fn(n):
            return prog.find_fn("RitiContext", n)

        def run():
            ctx = it.call_function(fn("new_with_config"), [Ref([cfgs["A"]], 0)])
            box = [ctx]
            r1 = it.call_function(fn("get_suggestion_for_key"), [Ref(box, 0), code, 0, 0])
            it.call_function(fn("finish_input_session"), [Ref(box, 0)])
            it.call_function(fn("update_engine"), [Ref(box, 0, True), Ref([cfgs["B"]], 0)])
            r2 = it.call_function(fn("get_suggestion_for_key"), [Ref(box, 0), code, 0, 0])
            # ... and back to the first layout
            it.call_function(fn("finish_input_session"), [Ref(box, 0)])
            it.call_function(fn("update_engine"), [Ref(box, 0, True), Ref([cfgs["A"]], 0)])
            r3 = it.call_function(fn("get_suggestion_for_key"), [Ref(box, 0), code, 0, 0])
            return r1, r2, r3
        return run

    def text_of(prog, r):
        if isinstance(r, Agg) and r.kind == "adt:Suggestion" and r.variant == prog.enums["Suggestion"]["Single"]:
            return r.fields[prog.enum_fields[("Suggestion", "Single")].index("suggestion")].elems
        return None

    def on_path(st, it, out):
        prog = it.p
        c = st.ctx
        model = st.get_model()

        def inputs(m):
            b = c["entries"].get("B")
            return dict(family="layout_switch", key=code, key_name=name, entry=("Key_%s_Normal" % stem) if kind == "key" else stem,
                        layout_a=model_string(m, c["va"]), layout_b=(None if b is None else model_string(m, b)))

        def pred(m):
            if out[0] == "panic":
                return dict(panic=out[1].message)
            t2 = text_of(prog, out[1][1])
            return dict(after_switch=None if t2 is None else model_string(m, t2))
        if out[0] == "panic":
            return [dict(kind="violation", clause="no_panic", inputs=inputs(model), predicted=pred(model))]
        t1, t2, t3 = text_of(prog, out[1][0]), text_of(prog, out[1][1]), text_of(prog, out[1][2])
        b = c["entries"].get("B") or []
        clauses = [("key_emits_what_the_layout_now_loaded_assigns", z3.And(seq_eq(t1, c["va"]) if t1 is not None and len(t1) == len(c["va"]) else z3.BoolVal(False),
                                                                      (seq_eq(t2, b) if len(t2) == len(b) else z3.BoolVal(False)) if t2 is not None else z3.BoolVal(False),
                                                                      seq_eq(t3, c["va"]) if t3 is not None and len(t3) == len(c["va"]) else z3.BoolVal(False))),
                   ("cover:layout_switch", True)]
        return eval_clauses(st, clauses, lambda cn, m: dict(kind="violation", clause=cn, inputs=inputs(m), predicted=pred(m)))
    return build, on_path


def layout_switch_native(vs):
    """Native: fixed layout -> another fixed layout by update_engine (idle); keys the second file leaves out, blanks or re-assigns."""
    from obl_fixed import PLANT_KEYS, PLANT_NAMES
    a = {"Key_%s_Normal" % PLANT_NAMES[i]: v for i, v in enumerate(["ক", "খ", "গ", "ঘ"])}
    a["Key_%s_AltGr" % PLANT_NAMES[0]] = "ঌ"
    a["Num1"] = "১"
    variants = [("leaves the keys out", {"Key_zz_Normal": "x"}), ("blanks the keys", dict({k: "" for k in a}, Key_zz_Normal="x")),
                ("re-assigns the keys", dict({k: "চ" for k in a}, Key_zz_Normal="x"))]
    scs = []
    for label, b in variants:
        steps = [{"op": "new", "ctx": 0, "config": {"layout_json": a, "opts": {"numpad": True}}}, {"op": "key", "ctx": 0, "key": PLANT_KEYS[0]}, {"op": "finish", "ctx": 0},
                 {"op": "update", "ctx": 0, "config": {"layout_json": b, "opts": {"numpad": True}}}, {"op": "new", "ctx": 1, "config": {"layout_json": b, "opts": {"numpad": True}}}]
        probes = [(PLANT_KEYS[i], 0) for i in range(4)] + [(PLANT_KEYS[0], 2), (0x004F, 0)]
        marks = []
        for k, m in probes:
            for cx in (0, 1):
                steps += [{"op": "key", "ctx": cx, "key": k, "mod": m}]
                marks.append(len(steps) - 1)
                steps += [{"op": "finish", "ctx": cx}]
        scs.append((label, {"steps": steps}, marks))
    # there and back again: A -> B -> A must answer like a context created on A
    b2 = dict({k: "চ" for k in a}, Key_zz_Normal="x")
    steps = [{"op": "new", "ctx": 0, "config": {"layout_json": a, "opts": {"numpad": True}}}, {"op": "update", "ctx": 0, "config": {"layout_json": b2, "opts": {"numpad": True}}},
             {"op": "key", "ctx": 0, "key": PLANT_KEYS[0]}, {"op": "finish", "ctx": 0}, {"op": "update", "ctx": 0, "config": {"layout_json": a, "opts": {"numpad": True}}},
             {"op": "new", "ctx": 1, "config": {"layout_json": a, "opts": {"numpad": True}}}]
    marks = []
    for k in PLANT_KEYS[:4]:
        for cx in (0, 1):
            steps += [{"op": "key", "ctx": cx, "key": k}]
            marks.append(len(steps) - 1)
            steps += [{"op": "finish", "ctx": cx}]
    scs.append(("(and back to the first layout)", {"steps": steps}, marks))
    for (label, sc, marks), r in zip(scs, run_replay([x[1] for x in scs])):
        rr = r["results"]
        if any("panic" in x for x in rr):
            p = [x for x in rr if "panic" in x][0]
            return sc, p, "switching from one fixed layout to another that %s: panic: %s" % (label, p["panic"])
        for i in range(0, len(marks), 2):
            x, y = rr[marks[i]].get("suggestion", {}), rr[marks[i + 1]].get("suggestion", {})
            if x.get("text") != y.get("text"):
                st2 = sc["steps"][marks[i]]
                return sc, [rr[marks[i]], rr[marks[i + 1]]], ("a context switched by update_engine from one fixed layout to another that %s: key 0x%04X (modifier %d) emits %r; "
                                                              "a context created on the second layout emits %r" % (label, st2["key"], st2.get("mod", 0), x.get("text"), y.get("text")))
    return None


def obl_layout_switch(check, budget_s=None):
    from common import keyname_spec, published_keys
    spec = keyname_spec()
    rows = [(n, c, spec[n][1], spec[n][2]) for n, c in published_keys() if n in spec and spec[n][2] in ("key", "numpad")]
    rows = [rows[i] for i in range(0, len(rows), 9)] + [r for r in rows if r[3] == "numpad"][:2]
    shapes = [dict(row=r) for r in rows]
    check.bounds["layout_switch"] = dict(keys="%d layout keys (every ninth of the table and two number-pad keys)" % len(rows), files="layout A assigns one symbolic code point to the key; layout B assigns another, an empty text, or nothing",
                                         history="new_with_config(A), key, finish, update_engine(B) while idle, key")
    records, errors, summ = msym.run_shapes(check, "layout_switch", shapes, make_layout_switch, budget_s=budget_s)
    name = "layout_switch"
    vio = [r for r in records if r["kind"] == "violation" and (getattr(check, "only_clauses", None) is None or r["clause"] in check.only_clauses)]
    covers = set(r["name"] for r in records if r["kind"] == "cover")
    if errors:
        check.obligation(name, "mirsym", "inconclusive", "executor gave up: " + "; ".join(sorted(set(errors))[:3]))
        return
    if "cover:layout_switch" not in covers:
        check.obligation(name, "mirsym", "inconclusive", "vacuity: no path completed the switch")
        return
    if not vio:
        check.obligation(name, "mirsym", "held", "%d paths; after the switch every key emits what the second file assigns" % summ["paths"])
        return
    found = layout_switch_native(vio)
    if found is None:
        check.obligation(name, "mirsym", "inconclusive", "counterexample not re-found natively: %s (%s)" % (json.dumps(vio[0]["inputs"], ensure_ascii=False)[:300], vio[0]["clause"]))
        return
    sc, obs, what = found
    check.stats["traces_validated"] += 1
    st = check.finding("layout switch: " + vio[0]["clause"], what, dict(scenario=sc, observed=obs, solver_counterexample=vio[0]["inputs"]))
    check.obligation(name, "mirsym", st, "%d paths; %d counterexample models" % (summ["paths"], len(vio)))
