"""Obligations on the fixed-layout method decided by engine M (symbolic execution of MIR + z3)."""
import itertools
import json
import sys

import z3

import classes as CL
import msym
from common import Inconclusive, run_replay, run_replay_parallel
from fixedlib import (OPT_JSON, OPTS, VC_A, compare_fixed_step, fixed_state, key_name, mk_config, mk_fixed,
                      native_fixed_step, opts_json, pending_value, render_suggestion, struct_of, validate_witnesses)
from mirsym.interp import PanicPath
from mirsym.values import Agg, Opaque, Ref, SMap, SString, SVec, bv, is_sym, simp
from msym import model_string, model_value

REPH = (0x09B0, 0x09CD)
ZOFOLA = (0x09CD, 0x09AF)


def zeq(a, b):
    """z3 equality of two code point values."""
    if not is_sym(a) and not is_sym(b):
        return z3.BoolVal(a == b)
    return bv(a, 32) == bv(b, 32)


def seq_eq(xs, ys):
    if len(xs) != len(ys):
        return z3.BoolVal(False)
    return z3.And([zeq(a, b) for a, b in zip(xs, ys)]) if xs else z3.BoolVal(True)


def zin(c, values):
    r = CL.in_set(c if is_sym(c) else int(c), values)
    if isinstance(r, bool):
        return z3.BoolVal(r)
    return r


def is_c(c):
    return zin(c, CL.CONSONANTS)


def is_k(c):
    return zin(c, CL.KARS)


def is_iv(c):
    return zin(c, CL.VOWELS)


def is_v(c):
    return z3.Or(is_k(c), is_iv(c))


def is_h(c):
    return zeq(c, CL.HASANTA)


def is_n(c):
    return zeq(c, CL.CHANDRA)


def is_rare(c):
    return zin(c, CL.RARE)


def is_x(c):
    return z3.Not(z3.Or(is_c(c), is_k(c), is_iv(c), is_h(c), is_n(c), is_rare(c)))


def conj_at(p, i, m):
    """p[i : i+2m-1] is C (H C)^(m-1)"""
    terms = []
    for j in range(2 * m - 1):
        terms.append(is_c(p[i + j]) if j % 2 == 0 else is_h(p[i + j]))
    return z3.And(terms)


def wellformed(p):
    """p is a sequence of units: conjunct [sign] [chandrabindu] | vowel [chandrabindu] | other char,
    optionally ending in conjunct + explicit hasanta."""
    n = len(p)
    wf = [z3.BoolVal(True)]
    for j in range(1, n + 1):
        alts = []
        # other char
        alts.append(z3.And(wf[j - 1], is_x(p[j - 1])))
        # vowel [N]
        alts.append(z3.And(wf[j - 1], is_iv(p[j - 1])))
        if j >= 2:
            alts.append(z3.And(wf[j - 2], is_iv(p[j - 2]), is_n(p[j - 1])))
        # conjunct [K] [N]
        for a in (0, 1):
            for b in (0, 1):
                m = 1
                while 2 * m - 1 + a + b <= j:
                    L = 2 * m - 1 + a + b
                    i = j - L
                    t = [wf[i], conj_at(p, i, m)]
                    if a:
                        t.append(is_k(p[i + 2 * m - 1]))
                    if b:
                        t.append(is_n(p[j - 1]))
                    alts.append(z3.And(t))
                    m += 1
        wf.append(z3.Or(alts))
    total = [wf[n]]
    m = 1
    while 2 * m <= n:
        i = n - 2 * m
        total.append(z3.And(wf[i], conj_at(p, i, m), is_h(p[n - 1])))
        m += 1
    return z3.Or(total)


def reph_expected_positions(p):
    """[(k, condition)]: reph goes before the final conjunct starting at k when p ends in
    conjunct [vowel or sign] [chandrabindu]; the conditions are mutually exclusive."""
    n = len(p)
    out = []
    for k in range(n):
        alts = []
        for a in (0, 1):
            for b in (0, 1):
                L = n - k - a - b
                if L < 1 or L % 2 == 0:
                    continue
                m = (L + 1) // 2
                t = [conj_at(p, k, m)]
                if a:
                    t.append(is_v(p[k + L]))
                if b:
                    t.append(is_n(p[n - 1]))
                alts.append(z3.And(t))
        if not alts:
            continue
        maximal = z3.BoolVal(True)
        if k >= 2:
            maximal = z3.Not(z3.And(is_h(p[k - 1]), is_c(p[k - 2])))
        out.append((k, z3.And(z3.Or(alts), maximal)))
    return out


# ---------------------------------------------------------------------------------------------

def _ctx_of(st):
    return st.ctx


def make_key_step(shape, prop_fn, constrain=None):
    """One key (VC_A, bound to `value`) through <FixedMethod as Method>::get_suggestion from a symbolic pre-state.
    shape: dict(n=, value=tuple|int(len), pending=, fixed=dict, typed=)"""
    n = shape["n"]
    fixed = shape.get("fixed", {})

    def build(st, it):
        prog = it.p
        buf = [st.sym_char("b%d" % i) for i in range(n)]
        v = shape["value"]
        value = list(v) if isinstance(v, (tuple, list)) else [st.sym_char("v%d" % i) for i in range(v)]
        cfg, opts = mk_config(prog, st, fixed)
        fm = mk_fixed(prog, buf, shape.get("typed", ()), shape.get("pending"), [], [(key_name("Key_a_Normal"), value)])
        st.ctx = dict(buf=buf, value=value, opts=opts, fm=fm, cfg=cfg, shape=shape)
        if constrain:
            constrain(st, st.ctx)
        fn = prog.find_trait_fn("FixedMethod", "Method", "get_suggestion")

        def run():
            return it.call_function(fn, [Ref([fm], 0, True), VC_A, 0, 0, Ref([Opaque("Data")], 0), Ref([cfg], 0)])
        return run

    def inputs_under(prog, model, c):
        return dict(buffer=model_string(model, c["buf"]), typed="".join(chr(x) for x in c["shape"].get("typed", ())),
                    pending=c["shape"].get("pending"), opts=opts_json(model, c["opts"]),
                    layout={"Key_a_Normal": model_string(model, c["value"])},
                    event={"op": "key", "key": VC_A, "mod": 0, "sel": 0})

    def predicted_under(prog, model, c, out):
        if out[0] == "panic":
            return dict(panic=out[1].message)
        return dict(state=fixed_state(prog, model, c["fm"]), ret=render_suggestion(prog, model, out[1]))

    def on_path(st, it, out):
        prog = it.p
        c = st.ctx
        recs = []
        model = st.get_model()
        recs.append(dict(kind="witness", inputs=inputs_under(prog, model, c), predicted=predicted_under(prog, model, c, out)))
        clauses = prop_fn(st, it, c, out)
        for cname, formula in clauses:
            if cname.startswith("cover:"):
                # reachability witness: the formula must be satisfiable on at least one path overall
                if formula is True or (formula is not False and st.feasible(formula)):
                    recs.append(dict(kind="cover", name=cname))
                continue
            if formula is True:
                continue
            neg = z3.Not(formula) if formula is not False else z3.BoolVal(True)
            st.solver.push()
            st.solver.add(neg)
            r = st._check(None)
            if r:
                m2 = st.solver.model()
                recs.append(dict(kind="violation", clause=cname, inputs=inputs_under(prog, m2, c),
                                 predicted=predicted_under(prog, m2, c, out)))
            st.solver.pop()
        return recs
    return build, on_path


def buffer_after(c):
    return c["fm"].fields[0].elems  # resolved by name below where needed


def fm_field(prog, fm, name):
    return fm.fields[prog.structs["FixedMethod"].index(name)]


# ------------------------------------------------------------------------- C13

def reph_prop(st, it, c, out):
    prog = it.p
    if out[0] == "panic":
        return [("no_panic", False)]
    p = c["buf"]
    n = len(p)
    r = fm_field(prog, c["fm"], "buffer").elems
    reph_on = c["opts"]["fixed_old_reph"]
    reph_on_z = reph_on if is_sym(reph_on) else z3.BoolVal(bool(reph_on))

    def ins(k):
        return seq_eq(r, list(p[:k]) + list(REPH) + list(p[k:]))
    clauses = []
    # conservation (any text, option on or off)
    clauses.append(("conservation", z3.Or([ins(k) for k in range(n + 1)])))
    # option off: plain append
    clauses.append(("off_appends", z3.Implies(z3.Not(reph_on_z), ins(n))))
    # placement (well-formed text without rare letters)
    exp = reph_expected_positions(p)
    norare = z3.And([z3.Not(is_rare(x)) for x in p]) if p else z3.BoolVal(True)
    pre = z3.And(reph_on_z, wellformed(p), norare)
    terms = [z3.Implies(cond, ins(k)) for k, cond in exp]
    terms.append(z3.Implies(z3.Not(z3.Or([cond for _, cond in exp])) if exp else z3.BoolVal(True), ins(n)))
    clauses.append(("placement", z3.Implies(pre, z3.And(terms))))
    for k, cond in exp:
        clauses.append(("cover:moved_to_%s" % ("start" if k == 0 else "middle"), z3.And(pre, cond)))
    clauses.append(("cover:appended", z3.And(pre, z3.Not(z3.Or([cond for _, cond in exp])) if exp else pre)))
    # the returned suggestion shows the composed text (suggestions off -> single string)
    ret = out[1]
    sug_on = c["opts"]["fixed_suggestion"]
    if isinstance(ret, Agg) and ret.kind == "adt:Suggestion" and sug_on is False:
        single = prog.enums["Suggestion"]["Single"]
        if ret.variant != single:
            clauses.append(("returns_single", False))
        else:
            txt = ret.fields[prog.enum_fields[("Suggestion", "Single")].index("suggestion")].elems
            clauses.append(("returns_buffer", seq_eq(txt, r)))
    # other state untouched
    return clauses


def classify_reph(v):
    """Role key of a C13 counterexample (used for known findings)."""
    buf = v["inputs"]["buffer"]
    if v["predicted"].get("panic") is not None:
        if buf == "":
            return "reph on empty composition panics"
        return "reph key panics on a non-empty composition"
    if v["clause"] == "placement":
        cps = [ord(ch) for ch in buf]
        if cps and cps[-1] == CL.CHANDRA and len(cps) >= 3 and cps[-2] in CL.CONSONANTS:
            return "reph placement: chandrabindu directly on a consonant with text before it"
        return "reph placement differs from the rule"
    return "reph " + v["clause"]


def run_key_obligation(check, name, shapes, prop_fn, classify, describe, budget_s=None, constrain=None, validate_cap=4000,
                       required_covers=None, maker=None, confirm=None):
    """Generic driver: explore, validate witnesses natively, confirm violations natively, report."""
    def make(shape):
        if maker is not None:
            return maker(shape, prop_fn, constrain)
        return make_key_step(shape, prop_fn, constrain)
    records, errors, summ = msym.run_shapes(check, name, shapes, make, budget_s=budget_s)
    wit = [r for r in records if r["kind"] == "witness"]
    vio = [r for r in records if r["kind"] == "violation" and (getattr(check, "only_clauses", None) is None or r["clause"] in check.only_clauses)]
    covers = {}
    for r in records:
        if r["kind"] == "cover":
            covers[r["name"]] = covers.get(r["name"], 0) + 1
    check.extra.setdefault("covers", {}).update({name + "/" + k: v for k, v in covers.items()})
    missing = [k for k in (required_covers or []) if k not in covers]
    okc, bad = validate_witnesses(check, name, wit, cap=validate_cap)
    detail = "%d paths, %d witnesses replayed natively (%d agree)" % (summ["paths"], min(len(wit), validate_cap or len(wit)), okc)
    if errors:
        check.obligation(name, "mirsym", "inconclusive", "executor gave up: " + "; ".join(sorted(set(errors))[:3]))
        return
    if bad:
        # the executor and the native build disagree on some path witnesses (a field the state hook cannot plant, a model that is wrong):
        # nothing is held. Counterexamples are still put to the native confirmation - only what reproduces through the API is reported.
        w, d = bad[0]
        if vio:
            status = (confirm or confirm_violations)(check, name, vio, classify, describe)
            if status in ("violated", "known"):
                check.obligation(name, "mirsym", status, detail + "; %d counterexample models; witness disagreements: %d" % (len(vio), len(bad)))
                return
        check.obligation(name, "mirsym", "inconclusive",
                         "executor model disagrees with the native build on %d path witnesses, e.g. %s | inputs %s" % (
                             len(bad), d, json.dumps(w["inputs"], ensure_ascii=False)[:400]))
        return
    if summ["paths"] == 0:
        check.obligation(name, "mirsym", "inconclusive", "no feasible path reached the assertion (vacuous)")
        return
    if missing:
        check.obligation(name, "mirsym", "inconclusive", "vacuity: reachability witnesses never satisfied: %s" % missing)
        return
    detail += "; %d reachability witnesses satisfied" % len(covers)
    if not vio:
        check.obligation(name, "mirsym", "held", detail + "; every property query unsat")
        return
    # confirm violations natively, one per role
    status = (confirm or confirm_violations)(check, name, vio, classify, describe)
    check.obligation(name, "mirsym", status, detail + "; %d counterexample models" % len(vio))


def plant_plans(buffer, pending):
    """Candidate key-value sequences that may leave `buffer` (+ pending sign) in the composition."""
    plans = []
    segs = []
    if buffer:
        segs.append([buffer])
        segs.append(list(buffer))
        for k in range(1, len(buffer)):
            segs.append([buffer[:k], buffer[k:]])
    else:
        segs.append([])
    kar = {"I": "ি", "E": "ে", "OI": "ৈ"}
    for s in segs:
        if len(s) > 20:
            continue
        plans.append(s + ([kar[pending]] if pending else []))
    seen = []
    out = []
    for p in plans:
        if p not in seen:
            seen.append(p)
            out.append(p)
    return out


PLANT_KEYS = [0xA097 + i for i in range(25)]   # VC_B .. VC_Z
PLANT_NAMES = "bcdefghijklmnopqrstuvwxyz"


def reach_and_replay(inputs):
    """Find an in-contract key history (same configuration throughout, synthetic layout with multi-code-point
    values) that reaches the pre-state, then perform the event. -> (scenario, result) or (None, reason)."""
    target = (inputs["buffer"], inputs.get("pending"))
    plans = plant_plans(inputs["buffer"], inputs.get("pending"))
    scs = []
    for plan in plans:
        lay = dict(inputs["layout"])
        vals = []
        for v in plan:
            if v not in vals:
                vals.append(v)
        if len(vals) > len(PLANT_KEYS):
            continue
        for i, v in enumerate(vals):
            lay["Key_%s_Normal" % PLANT_NAMES[i]] = v
        steps = [{"op": "new", "config": {"layout_json": lay, "opts": inputs["opts"]}}]
        for v in plan:
            steps.append({"op": "key", "key": PLANT_KEYS[vals.index(v)], "mod": 0, "sel": 0})
        steps.append({"op": "get_state"})
        steps.append(inputs["event"])
        steps.append({"op": "get_state"})
        scs.append({"steps": steps})
    res = run_replay(scs) if scs else []
    for sc, r in zip(scs, res):
        rr = r["results"]
        if any("panic" in x for x in rr[:-2]):
            continue
        st = rr[-3].get("state", {})
        if (st.get("buffer"), st.get("pending")) == target and (not inputs["opts"].get("fixed_suggestion") or st.get("typed") == inputs.get("typed", st.get("typed"))):
            return sc, rr
    return None, "no tried key history reaches buffer=%r pending=%r under these options" % target


def confirm_violations(check, name, vio, classify, describe):
    """Group by role, replay natively; report findings. -> obligation status"""
    groups = {}
    for v in vio:
        groups.setdefault(classify(v), []).append(v)
    status = "held"
    worst = {"held": 0, "known": 1, "inconclusive": 2, "violated": 3}
    for key, vs in sorted(groups.items()):
        confirmed = None
        reason = ""
        for v in vs[:12]:
            # (a) does the native step from the planted state show the predicted (bad) outcome?
            res = run_replay([native_fixed_step(v["inputs"])])[0]
            d = compare_fixed_step(v, res)
            if d is not None:
                reason = "native step does not show the predicted outcome: " + d
                continue
            # (b) is the pre-state reachable through the public API under the same configuration?
            sc, rr = reach_and_replay(v["inputs"])
            if sc is None:
                reason = rr
                continue
            ev = rr[-2]
            pred = v["predicted"]
            if pred.get("panic") is not None:
                good = "panic" in ev
            else:
                good = "panic" not in ev and rr[-1].get("state", {}).get("buffer") == pred["state"]["buffer"]
            if good:
                confirmed = (v, sc, rr)
                break
            reason = "API-level replay differs from the prediction"
        if confirmed is None:
            st = "inconclusive"
            check.obligation(name + ":" + key, "mirsym", "inconclusive",
                             "solver counterexample not confirmed natively (%s); first: %s" % (
                                 reason, json.dumps(vs[0]["inputs"], ensure_ascii=False)[:300]))
        else:
            v, sc, rr = confirmed
            check.stats["traces_validated"] += 1
            what = describe(v)
            st = check.finding(key, what, dict(scenario=sc, observed=rr[-2:], predicted=v["predicted"], inputs=v["inputs"]))
            check.sample(dict(obligation=name, counterexample=v["inputs"], outcome=v["predicted"], role=key))
        if worst[st] > worst[status]:
            status = st
    return status


def describe_reph(v):
    i = v["inputs"]
    if v["predicted"].get("panic") is not None:
        return "reph key on composition %r panics: %s" % (i["buffer"], v["predicted"]["panic"])
    return "reph key on composition %r gives %r (clause %s, options %s)" % (
        i["buffer"], v["predicted"]["state"]["buffer"], v["clause"],
        ",".join(k for k, x in i["opts"].items() if x))


def c13_shapes(max_n, fixed_extra=None):
    shapes = []
    for n in range(0, max_n + 1):
        for pending in (None,):
            fx = {"fixed_suggestion": False, "fixed_old_reph": True, "ansi": False}
            fx.update(fixed_extra or {})
            shapes.append(dict(n=n, value=REPH, pending=pending, fixed=fx))
    return shapes


def obl_reph(check, max_n, budget_s=None):
    shapes = c13_shapes(max_n)
    # option off: plain append (all lengths up to a smaller bound; the path does not look at the text)
    for n in range(0, min(max_n, 4) + 1):
        shapes.append(dict(n=n, value=REPH, pending=None, fixed={"fixed_suggestion": False, "fixed_old_reph": False, "ansi": False}))
    # with a pending left-standing sign (old kar order on) the text part must still be conserved
    for n in range(0, min(max_n, 3) + 1):
        for pk in ("I", "E", "OI"):
            shapes.append(dict(n=n, value=REPH, pending=pk, fixed={"fixed_suggestion": False, "fixed_old_reph": True,
                                                                  "fixed_kar_order": True, "ansi": False}))
    check.bounds["reph"] = dict(text_code_points="0..%d, each any Unicode scalar value" % max_n,
                                key_value="U+09B0 U+09CD", other_options="symbolic",
                                pending_sign="None; I/E/OI up to length %d" % min(max_n, 3))
    shapes.sort(key=lambda s: -s["n"])
    run_key_obligation(check, "reph_key", shapes, reph_prop, classify_reph, describe_reph, budget_s=budget_s,
                       required_covers=["cover:moved_to_start", "cover:moved_to_middle", "cover:appended"])


# ------------------------------------------------------------------------- C12

def kar2vowel(v):
    """z3 term: the independent vowel matching a vowel sign."""
    if not is_sym(v):
        return CL.KAR_TO_VOWEL.get(v, v)
    e = v
    for k, iv in CL.KAR_TO_VOWEL.items():
        e = z3.If(v == k, z3.BitVecVal(iv, 32), e)
    return e


def zb(x):
    return x if is_sym(x) else z3.BoolVal(bool(x))


def helper_expected(p, value, opts):
    """Reference for one key with old kar order off: -> (silent, [(cond, expected elems)]) with mutually
    exclusive, exhaustive conds. Written from the property text as an ordered rule list."""
    n = len(p)
    av, ac, tk = zb(opts["fixed_vowel"]), zb(opts["fixed_chandra"]), zb(opts["fixed_kar"])
    reph_on = zb(opts["fixed_old_reph"])
    v = value[0]
    T, F = z3.BoolVal(True), z3.BoolVal(False)
    cases = []
    if len(value) == 2:
        is_zofola = z3.And(zeq(value[0], ZOFOLA[0]), zeq(value[1], ZOFOLA[1]))
        is_reph = z3.And(zeq(value[0], REPH[0]), zeq(value[1], REPH[1]), reph_on)
    else:
        is_zofola, is_reph = F, F
    if n > 0:
        last = p[-1]
        bare_r = z3.And(zeq(last, CL.B_R), z3.Not(is_h(p[-2])) if n >= 2 else T)
    else:
        last = None
        bare_r = F
    # R1 zo-fola
    cases.append((z3.And(is_zofola, bare_r), list(p) + [CL.ZWJ] + list(value)))
    cases.append((z3.And(is_zofola, z3.Not(bare_r)), list(p) + list(value)))
    rest = z3.And(z3.Not(is_zofola), z3.Not(is_reph))
    isK = is_k(v)
    if len(value) == 1:
        if n == 0:
            r2 = z3.And(isK, av)
            cases.append((z3.And(rest, r2), [kar2vowel(v)]))
            cases.append((z3.And(rest, z3.Not(r2)), [v]))
            silent = is_rare(v)
        else:
            lastV = z3.Or(is_iv(last), is_k(last))
            lastP = zin(last, CL.PUNCT_ASSERTED)
            lastS = z3.Or(zin(last, CL.PUNCT_SILENT), is_rare(last))
            r2 = z3.And(isK, av, z3.Or(lastV, lastP))
            r3 = z3.And(isK, z3.Not(r2), ac, is_n(last))
            r4 = z3.And(isK, z3.Not(r2), z3.Not(r3), is_h(last))
            r7 = z3.And(isK, z3.Not(r2), z3.Not(r3), z3.Not(r4), tk, is_c(last), zin(v, CL.LIGATURE_KARS))
            r5 = z3.And(zeq(v, CL.HASANTA), is_h(last))
            r6 = z3.And(zeq(v, CL.AU_LENGTH_MARK), is_h(last))
            other = z3.Not(z3.Or(r2, r3, r4, r7, r5, r6))
            cases.append((z3.And(rest, r2), list(p) + [kar2vowel(v)]))
            cases.append((z3.And(rest, r3), list(p[:-1]) + [v, CL.CHANDRA]))
            cases.append((z3.And(rest, r4), list(p[:-1]) + [kar2vowel(v)]))
            cases.append((z3.And(rest, r7), list(p) + [CL.ZWNJ, v]))
            cases.append((z3.And(rest, r5), list(p) + [CL.ZWNJ]))
            cases.append((z3.And(rest, r6), list(p[:-1]) + [0x0994]))
            cases.append((z3.And(rest, other), list(p) + [v]))
            silent = z3.Or(is_rare(v), z3.And(isK, av, lastS))
    else:
        # multi-code-point value: asserted only when no rule's trigger matches its first character
        trig = z3.Or(isK, is_rare(v))
        if n > 0:
            trig = z3.Or(trig, z3.And(is_h(last), z3.Or(zeq(v, CL.HASANTA), zeq(v, CL.AU_LENGTH_MARK))))
        cases.append((rest, list(p) + list(value)))
        silent = z3.And(rest, trig)
    return z3.Or(silent, is_reph), cases


def helper_prop(st, it, c, out):
    prog = it.p
    if out[0] == "panic":
        return [("no_panic", False)]
    p, value = c["buf"], c["value"]
    r = fm_field(prog, c["fm"], "buffer").elems
    silent, cases = helper_expected(p, value, c["opts"])
    terms = [z3.Implies(cond, seq_eq(r, exp)) for cond, exp in cases]
    clauses = [("rule_table", z3.Implies(z3.Not(silent), z3.And(terms)))]
    # Where the property text is silent (rare Sanskrit letters, marks outside the asserted punctuation list, multi-code-point values
    # whose first character triggers a rule) the outcome must still be one of the outcomes the rule list can produce for this text and
    # key under *some* reading: nothing is lost or invented beyond that.
    if len(value) == 1:
        alts = []
        n = len(p)
        v = value[0]
        iv = kar2vowel_wide(v)
        alts.append(seq_eq(r, list(p) + [v]))                      # plain append
        alts.append(seq_eq(r, list(p) + [iv]))                     # vowel forming
        if n > 0:
            alts.append(seq_eq(r, list(p[:-1]) + [v, CL.CHANDRA]))   # before chandrabindu
            alts.append(z3.And(is_h(p[-1]), seq_eq(r, list(p[:-1]) + [iv])))   # hasanta + sign -> vowel
            alts.append(seq_eq(r, list(p) + [CL.ZWNJ, v]))           # blocked ligature
            alts.append(z3.And(is_h(p[-1]), seq_eq(r, list(p) + [CL.ZWNJ])))
            alts.append(z3.And(is_h(p[-1]), seq_eq(r, list(p[:-1]) + [0x0994])))
        clauses.append(("silent_zone_outcome_is_a_rule_outcome", z3.Implies(silent, z3.Or(alts))))
    else:
        first = value[0]
        alts = [seq_eq(r, list(p) + list(value)), seq_eq(r, list(p) + [first]), seq_eq(r, list(p) + [kar2vowel_wide(first)]),
                seq_eq(r, list(p) + [CL.ZWJ] + list(value))]
        if len(p) > 0:
            alts += [seq_eq(r, list(p[:-1]) + [first, CL.CHANDRA]), seq_eq(r, list(p[:-1]) + [kar2vowel_wide(first)]),
                     seq_eq(r, list(p) + [CL.ZWNJ, first]), seq_eq(r, list(p) + [CL.ZWNJ]), seq_eq(r, list(p[:-1]) + [0x0994])]
        is_reph = z3.And(zeq(value[0], REPH[0]), zeq(value[1], REPH[1]), zb(c["opts"]["fixed_old_reph"])) if len(value) == 2 else z3.BoolVal(False)
        clauses.append(("silent_zone_outcome_is_a_rule_outcome", z3.Implies(z3.And(silent, z3.Not(is_reph)), z3.Or(alts))))
    for i, (cond, exp) in enumerate(cases):
        clauses.append(("cover:case%d_len%d_%d" % (i, min(len(p), 1), min(len(value), 2)), z3.And(cond, z3.Not(silent))))
    ret = out[1]
    single = prog.enums["Suggestion"]["Single"]
    if not (isinstance(ret, Agg) and ret.kind == "adt:Suggestion" and ret.variant == single):
        clauses.append(("returns_single", False))
    else:
        txt = ret.fields[prog.enum_fields[("Suggestion", "Single")].index("suggestion")].elems
        clauses.append(("returns_buffer", seq_eq(txt, r)))
    pend = fm_field(prog, c["fm"], "pending_kar")
    clauses.append(("no_pending_sign", pend.variant == 0))
    clauses.append(("typed_untouched", len(fm_field(prog, c["fm"], "typed").elems) == 0))
    return clauses


def kar2vowel_wide(v):
    """kar2vowel extended by Unicode's independent forms of the rare signs (U+09C4 -> U+09E0, U+09E2 -> U+098C, U+09E3 -> U+09E1)."""
    wide = dict(CL.KAR_TO_VOWEL)
    wide.update({0x09C4: 0x09E0, 0x09E2: 0x098C, 0x09E3: 0x09E1})
    if not is_sym(v):
        return wide.get(v, v)
    e = v
    for k, iv in wide.items():
        e = z3.If(v == k, z3.BitVecVal(iv, 32), e)
    return e


def classify_helper(v):
    if v["predicted"].get("panic") is not None:
        return "fixed key panics (helpers)"
    val = v["inputs"]["layout"]["Key_a_Normal"]
    return "helper rule: clause %s, key value U+%s" % (v["clause"], " U+".join("%04X" % ord(ch) for ch in val))


def describe_helper(v):
    i = v["inputs"]
    if v["predicted"].get("panic") is not None:
        return "key value %r on composition %r panics: %s" % (i["layout"]["Key_a_Normal"], i["buffer"], v["predicted"]["panic"])
    return "key value %r on composition %r gives %r (clause %s, options %s)" % (
        i["layout"]["Key_a_Normal"], i["buffer"], v["predicted"]["state"]["buffer"], v["clause"],
        ",".join(k for k, x in i["opts"].items() if x))


def obl_helpers(check, max_n, max_v, budget_s=None):
    shapes = []
    fx = {"fixed_suggestion": False, "fixed_kar_order": False, "ansi": False}
    for n in range(0, max_n + 1):
        for vl in range(1, max_v + 1):
            shapes.append(dict(n=n, value=vl, pending=None, fixed=dict(fx)))
    check.bounds["helper_rules"] = dict(text_code_points="0..%d, each any Unicode scalar value" % max_n,
                                        key_value_code_points="1..%d, each any Unicode scalar value" % max_v,
                                        options="auto vowel / auto chandrabindu / traditional joining / old reph symbolic (16 settings); old kar order off")
    shapes.sort(key=lambda s: -(s["n"] + s["value"]))
    req = ["cover:case%d_len1_1" % i for i in range(2, 9)] + ["cover:case0_len1_2", "cover:case1_len1_2", "cover:case2_len1_2",
                                                                "cover:case2_len0_1", "cover:case3_len0_1"]
    run_key_obligation(check, "helper_rules", shapes, helper_prop, classify_helper, describe_helper, budget_s=budget_s,
                       required_covers=req)


# ------------------------------------------------------------------------- generic event step (C06, C01, C02, C14)

def stub_dictionary_suggestion(it, args, callee):
    """Contract stand-in for FixedMethod::create_dictionary_suggestion (the candidate assembly is decided by
    the assembly obligations): a non-empty list whose auxiliary text and first candidate are the composition."""
    prog = it.p
    fm = args[0].get()
    cfg = args[2].get()
    buf = fm_field(prog, fm, "buffer")
    sug = fm_field(prog, fm, "suggestions")
    first = Agg("adt:Rank", prog.enums["Rank"]["First"], [SString(buf.elems)])
    sug.items[:] = [first]
    ansi = cfg.fields[prog.structs["Config"].index("ansi")]
    order = prog.enum_fields[("Suggestion", "Full")]
    vals = {"auxiliary": SString(buf.elems), "suggestions": msym_vec([SString(buf.elems)]), "selection": 0, "ansi": ansi}
    return Agg("adt:Suggestion", prog.enums["Suggestion"]["Full"], [vals[k] for k in order])


def msym_vec(items):
    from mirsym.values import SVec
    return SVec(items)


def make_event_step(shape, prop_fn, constrain=None):
    """One event from a symbolic pre-state. shape: n (text length), m (raw typed length), pending, event in
    {key, nokey, backspace, commit, finish}, value (len or tuple) for key events, fixed options, leftover (count of
    stale scratch candidates)."""
    n, m = shape["n"], shape.get("m", 0)
    fixed = shape.get("fixed", {})
    ev = shape["event"]

    def build(st, it):
        prog = it.p
        it.env["overrides"] = {"FixedMethod::create_dictionary_suggestion": stub_dictionary_suggestion}
        buf = [st.sym_char("b%d" % i) for i in range(n)]
        typed = [st.sym_char("t%d" % i, 0x20, 0x7e) for i in range(m)]
        value = []
        if ev == "key":
            v = shape["value"]
            value = list(v) if isinstance(v, (tuple, list)) else [st.sym_char("v%d" % i) for i in range(v)]
        cfg, opts = mk_config(prog, st, fixed)
        left = []
        for i in range(shape.get("leftover", 0)):
            left.append(Agg("adt:Rank", prog.enums["Rank"]["Other"], [SString([st.sym_char("l%d" % i)]), st.sym_bv("ld%d" % i, 8)]))
        entries = [(key_name("Key_a_Normal"), value)] if ev == "key" else []
        if n > 0:
            # invariant: while a text is composed the scratch list is the one assembled for it (every event that changes the text
            # re-assembles it; preserved: clause `scratch_list_belongs_to_the_text`); under the assembly contract that is [First(text)]
            left = [Agg("adt:Rank", prog.enums["Rank"]["First"], [SString(buf)])]
        fm = mk_fixed(prog, buf, typed, shape.get("pending"), left, entries)
        ctrl = st.sym_bool("ctrl") if ev == "backspace" else None
        index = st.sym_bv("commit_index", 64) if ev == "commit" else None
        st.ctx = dict(buf=buf, typed=typed, value=value, opts=opts, fm=fm, cfg=cfg, shape=shape, ctrl=ctrl, index=index)
        if constrain:
            constrain(st, st.ctx)
        st.ctx["n_init_constraints"] = len(st.constraints)
        me = Ref([fm], 0, True)
        data = Ref([Opaque("Data")], 0)
        cr = Ref([cfg], 0)

        def run():
            if ev in ("key", "nokey"):
                fn = prog.find_trait_fn("FixedMethod", "Method", "get_suggestion")
                ret = it.call_function(fn, [me, VC_A, 0, 0, data, cr])
            elif ev == "backspace":
                fn = prog.find_trait_fn("FixedMethod", "Method", "backspace_event")
                ret = it.call_function(fn, [me, ctrl, data, cr])
            elif ev == "commit":
                fn = prog.find_trait_fn("FixedMethod", "Method", "candidate_committed")
                ret = it.call_function(fn, [me, index, cr])
            elif ev == "finish":
                fn = prog.find_trait_fn("FixedMethod", "Method", "finish_input_session")
                ret = it.call_function(fn, [me])
            else:
                raise Inconclusive("event %s" % ev)
            fo = prog.find_trait_fn("FixedMethod", "Method", "ongoing_input_session")
            ongoing = it.call_function(fo, [Ref([fm], 0)])
            return (ret, ongoing)
        return run

    def event_json(model, c):
        if ev in ("key", "nokey"):
            return {"op": "key", "key": VC_A, "mod": 0, "sel": 0}
        if ev == "backspace":
            return {"op": "backspace", "ctrl": bool(model_value(model, c["ctrl"]))}
        if ev == "commit":
            return {"op": "commit", "index": min(int(model_value(model, c["index"])), 1 << 40)}
        return {"op": "finish"}

    def inputs_under(prog, model, c):
        left = []
        for r in fm_field(prog, c["fm0"], "suggestions") if False else []:
            pass
        d = dict(buffer=model_string(model, c["buf"]), typed=model_string(model, c["typed"]),
                 pending=c["shape"].get("pending"), opts=opts_json(model, c["opts"]),
                 layout=({"Key_a_Normal": model_string(model, c["value"])} if ev == "key" else {"Key_b_Normal": "ক"}),
                 event=event_json(model, c))
        d["suggestions"] = [[2, chr(model_value(model, z3.BitVec("l%d" % i, 32))), int(model_value(model, z3.BitVec("ld%d" % i, 8)))]
                            for i in range(c["shape"].get("leftover", 0))]
        return d

    def predicted_under(prog, model, c, out):
        if out[0] == "panic":
            return dict(panic=out[1].message)
        ret, ongoing = out[1]
        d = dict(state=fixed_state(prog, model, c["fm"]), ongoing=bool(model_value(model, ongoing)))
        if isinstance(ret, Agg) and ret.kind == "adt:Suggestion":
            rs = render_suggestion(prog, model, ret)
            # with suggestions on the list content is the assembly's business (stubbed here): compare the kind only
            if rs["kind"] == "full":
                rs = None
            d["ret"] = rs
        return d

    def on_path(st, it, out):
        prog = it.p
        c = st.ctx
        recs = []
        model = st.get_model()
        recs.append(dict(kind="witness", inputs=inputs_under(prog, model, c), predicted=predicted_under(prog, model, c, out)))
        for cname, formula in prop_fn(st, it, c, out):
            if cname.startswith("cover:"):
                if formula is True or (formula is not False and st.feasible(formula)):
                    recs.append(dict(kind="cover", name=cname))
                continue
            if formula is True:
                continue
            neg = z3.Not(formula) if formula is not False else z3.BoolVal(True)
            st.solver.push()
            st.solver.add(neg)
            if st._check(None):
                m2 = st.solver.model()
                recs.append(dict(kind="violation", clause=cname, inputs=inputs_under(prog, m2, c),
                                 predicted=predicted_under(prog, m2, c, out)))
            st.solver.pop()
        return recs
    return build, on_path


# ------------------------------------------------------------------------- C06 (fixed method)

def mentions(expr, names):
    """Does a z3 term mention one of the named constants?"""
    seen = set()
    todo = [expr]
    while todo:
        e = todo.pop()
        if not is_sym(e):
            continue
        i = e.get_id()
        if i in seen:
            continue
        seen.add(i)
        if z3.is_const(e) and e.decl().kind() == z3.Z3_OP_UNINTERPRETED and e.decl().name() in names:
            return True
        todo.extend(e.children())
    return False


def session_constrain(st, c):
    """Reachable-state invariant assumed on the pre-state (its preservation is obligation `session_invariant`)."""
    o = c["opts"]
    sh = c["shape"]
    m = len(c["typed"])
    if m > 0:
        st.assume(zb(o["fixed_suggestion"]))         # raw keys are recorded only with suggestions on
    if sh.get("pending") is not None:
        st.assume(zb(o["fixed_kar_order"]))           # a sign can only be pending under old kar order


def session_prop(st, it, c, out):
    prog = it.p
    if out[0] == "panic":
        return [("no_panic", False)]
    ret, ongoing = out[1]
    sh = c["shape"]
    ev = sh["event"]
    fm = c["fm"]
    buf = fm_field(prog, fm, "buffer").elems
    typed = fm_field(prog, fm, "typed").elems
    pend = fm_field(prog, fm, "pending_kar")
    fresh = (len(buf) == 0 and len(typed) == 0 and pend.variant == 0)
    n, m = sh["n"], sh.get("m", 0)
    clauses = []
    single = prog.enums["Suggestion"]["Single"]
    ret_empty = None
    if isinstance(ret, Agg) and ret.kind == "adt:Suggestion":
        if ret.variant == single:
            ret_empty = len(ret.fields[prog.enum_fields[("Suggestion", "Single")].index("suggestion")].elems) == 0
        else:
            ret_empty = len(ret.fields[prog.enum_fields[("Suggestion", "Full")].index("suggestions")].items) == 0
    ong = ongoing if isinstance(ongoing, bool) else None
    if ev in ("commit", "finish"):
        clauses.append(("terminating_event_leaves_fresh_state", fresh))
        clauses.append(("terminating_event_ends_session", ong is False))
    if ev == "backspace":
        idle = (n == 0 and sh.get("pending") is None)
        if idle:
            clauses.append(("idle_backspace_returns_empty", ret_empty is True))
            clauses.append(("idle_backspace_starts_nothing", fresh and ong is False))
        ctrl = zb(c["ctrl"])
        if n > 0:
            clauses.append(("ctrl_backspace_clears", z3.Implies(ctrl, z3.BoolVal(bool(fresh and ong is False and ret_empty is True)))))
        if ret_empty is True:
            clauses.append(("empty_return_means_fresh_state", fresh))
            clauses.append(("empty_return_ends_session", ong is False))
        else:
            clauses.append(("nonempty_return_means_ongoing", ong is True))
            before = n + (1 if sh.get("pending") else 0)
            after = len(buf) + (1 if pend.variant == 1 else 0)
            clauses.append(("backspace_makes_progress", after < before))
        if sh.get("pending") is None and n > 0:
            # whatever is returned (also when the text becomes empty): a plain backspace removes exactly the last code point
            clauses.append(("backspace_pops_one_code_point", z3.Implies(z3.Not(ctrl), seq_eq(buf, c["buf"][:-1]))))
        if sh.get("pending") is not None:
            # a sign waiting for its consonant is discarded by one backspace: nothing else changes
            clauses.append(("backspace_discards_only_the_waiting_sign",
                            z3.Implies(z3.Not(ctrl), z3.And(seq_eq(buf, c["buf"]), z3.BoolVal(pend.variant == 0)))))
            clauses.append(("cover:backspace_with_waiting_sign", z3.Not(ctrl)))
        clauses.append(("cover:backspace_%s" % ("empty" if ret_empty else "nonempty"), True))
    if ev in ("key", "nokey"):
        if ret_empty is False:
            clauses.append(("nonempty_return_means_ongoing", ong is True))
        if ev == "nokey":
            clauses.append(("cover:key_without_value", True))
            clauses.append(("key_without_value_changes_nothing",
                            z3.And(seq_eq(buf, c["buf"]), seq_eq(typed, c["typed"])) if pend.variant == (1 if sh.get("pending") else 0) else False))
    # C02: a returned list holds at least one candidate, the preselection is inside it, the auxiliary text is the composition
    if isinstance(ret, Agg) and ret.kind == "adt:Suggestion" and ret.variant != single:
        f = dict(zip(prog.enum_fields[("Suggestion", "Full")], ret.fields))
        L = len(f["suggestions"].items)
        clauses.append(("list_not_empty", L >= 1))
        s_ = f["selection"]
        clauses.append(("preselection_inside_list", (z3.ULT(bv(s_, 64), L) if is_sym(s_) else s_ < L)))
        clauses.append(("auxiliary_is_the_composed_text", seq_eq(f["auxiliary"].elems, buf)))
        clauses.append(("cover:fixed_list_returned", True))
    # the scratch list belongs to the composed text (invariant preserved)
    sug_items = fm_field(prog, fm, "suggestions").items
    if len(buf) > 0:
        okl = len(sug_items) == 1 and sug_items[0].variant == prog.enums["Rank"]["First"]
        clauses.append(("scratch_list_belongs_to_the_text", z3.Implies(zb(c["opts"]["fixed_suggestion"]),
                                                                        seq_eq(sug_items[0].fields[0].elems, buf) if okl else z3.BoolVal(False))))
    # invariant preservation (every event)
    o = c["opts"]
    inv = []
    if len(typed) > 0:
        inv.append(zb(o["fixed_suggestion"]))
    if pend.variant == 1:
        inv.append(zb(o["fixed_kar_order"]))
    if len(buf) == 0 and pend.variant == 0:
        inv.append(z3.BoolVal(len(typed) == 0))
    clauses.append(("session_invariant_preserved", z3.And(inv) if inv else True))
    # session flag is derived from the state
    if ong is not None:
        clauses.append(("flag_matches_state", ong == (len(buf) > 0 or pend.variant == 1)))
    # stale scratch candidates of an earlier word never show through
    left = ["l%d" % i for i in range(sh.get("leftover", 0))] + ["ld%d" % i for i in range(sh.get("leftover", 0))]
    if left:
        vals = list(buf) + list(typed)
        if isinstance(ret, Agg) and ret.kind == "adt:Suggestion":
            if ret.variant == single:
                vals += list(ret.fields[prog.enum_fields[("Suggestion", "Single")].index("suggestion")].elems)
            else:
                f = dict(zip(prog.enum_fields[("Suggestion", "Full")], ret.fields))
                vals += list(f["auxiliary"].elems)
                for x in f["suggestions"].items:
                    vals += list(x.elems)
        leak = any(mentions(v, left) for v in vals) or any(mentions(k, left) for k in st.constraints[c["n_init_constraints"]:])
        clauses.append(("stale_scratch_candidates_not_observable", not leak))
    return clauses


def classify_session(v):
    if v["predicted"].get("panic") is not None:
        return "fixed %s event panics" % v["inputs"]["event"]["op"]
    return "fixed session: %s after %s" % (v["clause"], v["inputs"]["event"]["op"])


def describe_session(v):
    i = v["inputs"]
    if v["predicted"].get("panic") is not None:
        return "%s on state buffer=%r typed=%r pending=%r panics: %s" % (i["event"], i["buffer"], i["typed"], i["pending"], v["predicted"]["panic"])
    return "%s on state buffer=%r typed=%r pending=%r leaves %s (session flag %s); clause %s; options %s" % (
        json.dumps(i["event"]), i["buffer"], i["typed"], i["pending"], json.dumps(v["predicted"]["state"], ensure_ascii=False),
        v["predicted"].get("ongoing"), v["clause"], ",".join(k for k, x in i["opts"].items() if x))


def session_shapes(max_n, max_m, max_v):
    shapes = []
    for ev in ("backspace", "commit", "finish", "nokey", "key"):
        for n in range(0, max_n + 1):
            for m in range(0, max_m + 1):
                for pending in (None, "I", "E", "OI"):
                    if n == 0 and pending is None and m > 0:
                        continue   # idle state is fresh (invariant)
                    for vl in (range(1, max_v + 1) if ev == "key" else (0,)):
                        if ev == "key" and (pending not in (None, "E") and n > 1):
                            continue   # the three signs share every branch; keep one representative for long texts
                        sh = dict(event=ev, n=n, m=m, pending=pending, value=vl, fixed={"ansi": False},
                                  leftover=(1 if (n == 0 and pending is None) else 0))
                        shapes.append(sh)
    return shapes


def obl_session_fixed(check, max_n, max_m, max_v, budget_s=None, events=None):
    shapes = session_shapes(max_n, max_m, max_v)
    if events is not None:
        shapes = [s for s in shapes if s["event"] in events]
    check.bounds["fixed_session"] = dict(text_code_points="0..%d any scalar values" % max_n, raw_typed_chars="0..%d printable ASCII" % max_m,
                                         pending_sign="None/I/E/OI", key_value_code_points="1..%d" % max_v,
                                         events="key, key without layout value, backspace (ctrl symbolic), commit (any index), finish",
                                         options="all 11 symbolic except ANSI (no influence on the state machine)",
                                         candidate_assembly="replaced by its contract (non-empty list showing the composition)")
    shapes.sort(key=lambda s: -(s["n"] + s["m"] + s["value"]))
    run_key_obligation(check, "fixed_session", shapes, session_prop, classify_session, describe_session, budget_s=budget_s,
                       constrain=session_constrain, maker=make_event_step, confirm=confirm_session,
                       required_covers=(["cover:backspace_empty", "cover:backspace_nonempty"] if events is None or "backspace" in events else []) +
                                       (["cover:key_without_value"] if events is None or "nokey" in events else []))


def confirm_session(check, name, vio, classify, describe):
    """Session-state counterexamples start from an arbitrary invariant-satisfying state; confirm them by finding the
    same clause violated on a state *reached* through the API: bounded native search over short key histories."""
    groups = {}
    for v in vio:
        groups.setdefault(classify(v), []).append(v)
    status = "held"
    worst = {"held": 0, "known": 1, "inconclusive": 2, "violated": 3}
    for key, vs in sorted(groups.items()):
        found = None
        for v in vs[:6]:
            found = native_session_search(v)
            if found:
                break
        if found is None:
            st = "inconclusive"
            check.obligation(name + ":" + key, "mirsym", "inconclusive",
                             "counterexample from an invariant-satisfying state was not re-found on an API-reachable state "
                             "(strengthen the invariant): %s" % describe(vs[0])[:400])
        else:
            sc, obs, what = found
            check.stats["traces_validated"] += 1
            st = check.finding(key, what, dict(scenario=sc, observed=obs, solver_counterexample=vs[0]["inputs"]))
            check.sample(dict(obligation=name, counterexample=vs[0]["inputs"], role=key))
        if worst[st] > worst[status]:
            status = st
    return status


REPO_DATA = __import__("common").REPO + "/data"
SEARCH_VALUES = ["ক", "্", "ি", "া", "ঁ", "র", "্য", "ৄ", "ে", "আ", "\u200c", "\u200d", "ু"]


_SEARCH_CACHE = {}


def native_session_search(v):
    """Try all key histories of length <= 3 over a small alphabet of layout values (same options as the
    counterexample), followed by the counterexample's event pattern; look for the violated clause natively."""
    opts = v["inputs"]["opts"]
    clause = v["clause"]
    ev = v["inputs"]["event"]
    lay = dict(v["inputs"].get("layout", {}))
    for i, val in enumerate(SEARCH_VALUES):
        lay["Key_%s_Normal" % PLANT_NAMES[i]] = val
    scs = []
    hist = [()]
    for L in (1, 2, 3):
        for combo in itertools.product(range(len(SEARCH_VALUES)), repeat=L):
            hist.append(combo)
    # ... and, for a key event, words given up before it: erased key by key, erased at once, committed, finished (the context is idle again)
    endings = [()]
    if ev["op"] == "key":
        endings += [("backspace",) * 4, ("ctrl_backspace",), ("commit",), ("finish",), ("backspace",)]
    for combo, ending in [(c_, e_) for e_ in endings for c_ in hist if not e_ or 1 <= len(c_) <= 2]:
        steps = [{"op": "new", "config": {"layout_json": lay, "database": REPO_DATA, "opts": opts}}]
        for k in combo:
            steps.append({"op": "key", "key": PLANT_KEYS[k], "mod": 0, "sel": 0})
        for e_ in ending:
            steps.append({"op": "backspace", "ctrl": e_ == "ctrl_backspace"} if "backspace" in e_ else ({"op": "commit", "index": 0} if e_ == "commit" else {"op": "finish"}))
        # drive to the end with the counterexample's event, repeated for backspace (also: the whole word deleted first, then plain backspaces)
        reps = 4 if ev["op"] == "backspace" else 1
        steps.append({"op": "get_state"})
        tail_a, tail_b = [], []
        for r_ in range(reps):
            tail_a += [dict(ev), {"op": "get_state"}]
            tail_b += [dict(ev, ctrl=(r_ == 0)), {"op": "get_state"}]
        scs.append({"steps": steps + tail_a})
        if ev["op"] == "backspace" and combo:
            scs.append({"steps": steps + tail_b})
    ck_ = json.dumps([opts, lay, ev], sort_keys=True, ensure_ascii=False)
    if ck_ not in _SEARCH_CACHE:
        _SEARCH_CACHE.clear()       # one entry: consecutive clause groups of one event share it
        _SEARCH_CACHE[ck_] = run_replay_parallel(scs, timeout=1200)
    res = _SEARCH_CACHE[ck_]
    for sc, r in zip(scs, res):
        rr = r["results"]
        if r.get("crashed"):
            # the driver process died inside this history (abort, stack overflow) or a step never returned: not a catchable panic, but the
            # host process would be gone just the same
            if v["predicted"].get("panic") is not None:
                keys = [SEARCH_VALUES[PLANT_KEYS.index(s["key"])] if s["key"] in PLANT_KEYS else lay.get("Key_a_Normal")
                        for s in sc["steps"][1:] if s.get("op") == "key"]
                return sc, rr[:1], "typing layout values %s then %s does not return: %s" % (keys, json.dumps(ev), rr[0].get("abort") or rr[0].get("panic"))
            continue
        if r.get("skipped"):
            continue
        for i, x in enumerate(rr):
            if x.get("op") != ev["op"] or i + 1 >= len(rr) or rr[i + 1].get("op") != "get_state":
                continue
            st = rr[i + 1].get("state") or {}
            before = (rr[i - 1].get("state") or {}) if i >= 1 and rr[i - 1].get("op") == "get_state" else {}
            if "panic" in x:
                if v["predicted"].get("panic") is not None:
                    return sc, rr[i:i + 2], "event %s panics after keys %s: %s" % (ev["op"], [s.get("key") for s in sc["steps"][1:i]], x["panic"])
                continue
            sug = x.get("suggestion")
            empty = sug["empty"] if sug else None
            fresh = st.get("buffer") == "" and st.get("typed") == "" and st.get("pending") is None
            bad = False
            if clause in ("terminating_event_leaves_fresh_state", "empty_return_means_fresh_state") and (empty is True or ev["op"] in ("commit", "finish")) and not fresh:
                bad = True
            if clause in ("terminating_event_ends_session", "empty_return_ends_session") and (empty is True or ev["op"] in ("commit", "finish")) and x.get("ongoing"):
                bad = True
            if clause == "nonempty_return_means_ongoing" and empty is False and not x.get("ongoing"):
                bad = True
            if (clause in ("idle_backspace_returns_empty", "idle_backspace_starts_nothing") and ev["op"] == "backspace" and before
                    and before.get("buffer") == "" and before.get("pending") is None and (empty is False or not fresh or x.get("ongoing"))):
                bad = True      # nothing was being composed, and a backspace brought something back
            if clause == "stale_scratch_candidates_not_observable" and fresh and empty is False:
                bad = True      # nothing is being composed, yet something is shown: it can only come from a word given up earlier
            if (clause == "key_without_value_changes_nothing" and ev["op"] == "key" and before
                    and any(st.get(k_) != before.get(k_) for k_ in ("buffer", "typed", "pending"))):
                bad = True
            if clause == "session_invariant_preserved" and st.get("buffer") == "" and st.get("pending") is None and st.get("typed") != "":
                bad = True
            if clause in ("list_not_empty", "preselection_inside_list") and sug and sug.get("kind") == "full" and (sug["len"] == 0 or sug["sel"] >= sug["len"]):
                bad = True
            if clause == "auxiliary_is_the_composed_text" and sug and sug.get("kind") == "full" and sug.get("aux") != st.get("buffer"):
                bad = True
            if (clause == "backspace_discards_only_the_waiting_sign" and ev["op"] == "backspace" and not ev.get("ctrl") and before.get("pending") is not None
                    and (st.get("buffer") != before.get("buffer") or st.get("pending") is not None)):
                bad = True
            if clause in ("scratch_list_belongs_to_the_text", "auxiliary_is_the_composed_text") and sug and sug.get("kind") == "full" and st.get("buffer"):
                un = {0x2018: "'", 0x2019: "'", 0x201C: '"', 0x201D: '"'}
                first = "".join(un.get(ord(ch), ch) for ch in (sug.get("list") or [""])[0])
                kept = "".join(un.get(ord(ch), ch) for ch in ((st.get("suggestions") or [[0, "", 0]])[0][1]))
                if first != st["buffer"] or kept != st["buffer"] or sug.get("aux") != st["buffer"]:
                    bad = True
            if (clause == "backspace_pops_one_code_point" and ev["op"] == "backspace" and not ev.get("ctrl") and before.get("pending") is None
                    and before.get("buffer") and st.get("buffer") != before.get("buffer")[:-1]):
                bad = True
            if bad:
                keys = [(SEARCH_VALUES[PLANT_KEYS.index(s["key"])] if s["key"] in PLANT_KEYS else lay.get("Key_a_Normal")) if s.get("op") == "key" else
                        ("<Ctrl+BackSpace>" if s.get("ctrl") else "<%s>" % s["op"]) for s in sc["steps"][1:i] if s.get("op") != "get_state"]
                what = "after the events %s (layout values typed) and %s the state is %s (returned empty=%s, session flag %s): %s" % (
                    keys, json.dumps(ev), json.dumps(st, ensure_ascii=False), empty, x.get("ongoing"), clause)
                return sc, rr[i:i + 2], what
    return None


# ------------------------------------------------------------------------- C14 (old kar order == Unicode order)

HAS = (CL.HASANTA,)
ROFOLA = (CL.HASANTA, CL.B_R)
CHANDRA_KEY = (CL.CHANDRA,)


def kar_templates(two_syllables=False, thorough=False):
    """Words as (name, typewriter key values, unicode key values); ('C', i) / ('P', i) / ('V', i) are symbols
    constrained to the consonant / asserted-punctuation / independent-vowel class."""
    clusters = [
        ("C", [[("C", 0)]]),
        ("C-h-C", [[("C", 0)], list(HAS), [("C", 1)]]),
        ("C-rofola", [[("C", 0)], list(ROFOLA)]),
        ("C-zofola", [[("C", 0)], list(ZOFOLA)]),
        ("C-h-C-rofola", [[("C", 0)], list(HAS), [("C", 1)], list(ROFOLA)]),
        ("C-h-C-h-C", [[("C", 0)], list(HAS), [("C", 1)], list(HAS), [("C", 2)]]),
    ]
    signs = [("none", [], [], [])]
    for k in (0x09BE, 0x09C0, 0x09C1, 0x09C2, 0x09C3):
        signs.append(("U+%04X" % k, [], [[k]], [[k]]))
    for k in CL.LEFT_KARS:
        signs.append(("U+%04X" % k, [[k]], [], [[k]]))
    signs.append(("o-kar", [[CL.E_KAR]], [[CL.AA_KAR]], [[CL.O_KAR]]))
    signs.append(("ou-kar", [[CL.E_KAR]], [[CL.OU_KAR]], [[CL.OU_KAR]]))
    signs.append(("ou-kar(length mark)", [[CL.E_KAR]], [[CL.AU_LENGTH_MARK]], [[CL.OU_KAR]]))
    syllables = []
    for cn, ckeys in clusters:
        for sn, pre, post, uni in signs:
            for ch in (False, True):
                tw = pre + ckeys + post + ([list(CHANDRA_KEY)] if ch else [])
                un = ckeys + uni + ([list(CHANDRA_KEY)] if ch else [])
                syllables.append(("%s+%s%s" % (cn, sn, "+chandra" if ch else ""), tw, un))
    prefixes = [("start", [], []), ("after-punct", [[("P", 0)]], [[("P", 0)]]), ("after-vowel", [[("V", 0)]], [[("V", 0)]])]
    words = []
    for pn, ptw, pun in prefixes:
        for name, tw, un in syllables:
            words.append((pn + ":" + name, ptw + tw, pun + un))
    # consonant keys whose value is not one of the 36 plain letters: Assamese ৰ ৱ, and the decomposed spellings ড + ় , ঢ + ় , য + ়
    # (symbol X; the reference speaks about them with automatic vowel forming off - with it on, the Unicode-order side itself
    # turns the sign after such a letter into an independent vowel, on which the property text is silent)
    for sn, pre, post, uni in signs:
        if not pre:
            continue
        for follow in ([], [[("C", 1)]]):
            tw = pre + [[("X", 0)]] + post + follow
            un = [[("X", 0)]] + uni + follow
            words.append(("start:X+%s%s" % (sn, "+C" if follow else ""), tw, un))
    # an independent vowel typed as hasanta + sign right after a syllable whose sign was typed first (নেই as ে ন ্ ি): the second sign has no
    # consonant to wait for
    for sn, pre, post, uni in signs:
        if not pre:
            continue
        for k2 in list(CL.LEFT_KARS) + [0x09C1]:
            tw = pre + [[("C", 0)]] + post + [list(HAS), [k2]]
            un = [[("C", 0)]] + uni + [list(HAS), [k2]]
            words.append(("start:C+%s+hasanta+U+%04X" % (sn, k2), tw, un))
    if two_syllables:
        def shift(keys, d):
            return [[(x[0], x[1] + d) if isinstance(x, tuple) else x for x in k] for k in keys]
        firsts = [s for s in syllables if s[0].split("+")[0] in ("C", "C-h-C", "C-zofola")] if not thorough else syllables
        seconds = syllables
        for a in firsts:
            for b in seconds:
                if not thorough and ("chandra" in a[0] and "chandra" in b[0]):
                    continue
                words.append(("2syl:" + a[0] + " | " + b[0], a[1] + shift(b[1], 3), a[2] + shift(b[2], 3)))
    return words


def shown_text(prog, ret):
    """The text a returned Suggestion shows for the composition: the single string, or the first candidate of a list."""
    if ret.variant == prog.enums["Suggestion"]["Single"]:
        return ret.fields[prog.enum_fields[("Suggestion", "Single")].index("suggestion")].elems
    items = ret.fields[prog.enum_fields[("Suggestion", "Full")].index("suggestions")].items
    return items[0].elems if items else []


def make_kar_history(shape, prop_fn=None, constrain=None):
    name, tw, un = shape["word"]

    def build(st, it):
        prog = it.p
        syms = {}

        def val(keys):
            out = []
            for k in keys:
                v = []
                for x in k:
                    if isinstance(x, tuple) and x[0] == "X":
                        if x not in syms:
                            b = z3.Bool("x%d_decomposed" % x[1])
                            if st.choose([b, z3.Not(b)]) == 0:
                                c = st.sym_char("x%d" % x[1], 0x980, 0x9FF)
                                st.assume(zin(c, [0x09A1, 0x09A2, 0x09AF]))
                                syms[x] = [c, 0x09BC]
                            else:
                                c = st.sym_char("x%d" % x[1], 0x980, 0x9FF)
                                st.assume(zin(c, [0x09F0, 0x09F1]))
                                syms[x] = [c]
                        v.extend(syms[x])
                        continue
                    if isinstance(x, tuple):
                        if x not in syms:
                            c = st.sym_char("%s%d" % (x[0].lower(), x[1]), 0x20, 0x9FF)
                            cls = {"C": CL.CONSONANTS, "P": CL.PUNCT_ASSERTED, "V": [v for v in CL.VOWELS if v not in CL.RARE]}[x[0]]
                            st.assume(zin(c, cls))
                            syms[x] = c
                        v.append(syms[x])
                    else:
                        v.append(x)
                out.append(v)
            return out
        twv, unv = val(tw), val(un)
        # the suggestion switch is symbolic: with the list on, the candidate assembly is its contract (first candidate = the text as composed when
        # the list was made), so a list that is not rebuilt for a key shows in the text the user sees
        fixed_common = {"ansi": False, "fixed_numpad": False, "include_english": False,
                        "phonetic_suggestion": False, "smart_quote": False}
        it.env["overrides"] = {"FixedMethod::create_dictionary_suggestion": stub_dictionary_suggestion}
        if any(isinstance(x, tuple) and x[0] == "X" for k in tw for x in k):
            fixed_common["fixed_vowel"] = False
        cfgA, opts = mk_config(prog, st, dict(fixed_common, fixed_kar_order=True))
        fixedB = dict(fixed_common, fixed_kar_order=False)
        for o in ("fixed_vowel", "fixed_chandra", "fixed_kar", "fixed_old_reph", "fixed_suggestion"):
            fixedB[o] = opts[o]
        cfgB, _ = mk_config(prog, st, fixedB)
        fmA = mk_fixed(prog, [], [], None, [], [(key_name("Key_a_Normal"), [0x20])])
        fmB = mk_fixed(prog, [], [], None, [], [(key_name("Key_a_Normal"), [0x20])])
        st.ctx = dict(opts=opts, fmA=fmA, fmB=fmB, tw=twv, un=unv, syms=syms, shape=shape, trail=[])
        fn = prog.find_trait_fn("FixedMethod", "Method", "get_suggestion")
        fo = prog.find_trait_fn("FixedMethod", "Method", "ongoing_input_session")
        fb = prog.find_trait_fn("FixedMethod", "Method", "backspace_event")
        data = Ref([Opaque("Data")], 0)

        def press(fm, cfg, v):
            lay = fm_field(prog, fm, "layout").fields[0]
            lay.entries[0][1] = SString(v)
            ret = it.call_function(fn, [Ref([fm], 0, True), VC_A, 0, 0, data, Ref([cfg], 0)])
            ong = it.call_function(fo, [Ref([fm], 0)])
            return ret, ong

        def run():
            trail = st.ctx["trail"]
            for v in twv:
                before = list(fm_field(prog, fmA, "buffer").elems)
                ret, ong = press(fmA, cfgA, v)
                pend = fm_field(prog, fmA, "pending_kar")
                txt = shown_text(prog, ret)
                captured = (len(v) == 1 and not is_sym(v[0]) and v[0] in CL.LEFT_KARS and pend.variant == 1)
                trail.append(dict(pending=pend.variant == 1, ongoing=ong, shown=list(txt), before=before, captured=captured,
                                  buffer=list(fm_field(prog, fmA, "buffer").elems)))
            for v in unv:
                retb, _ = press(fmB, cfgB, v)
                st.ctx["shown_b"] = list(shown_text(prog, retb))
            # one backspace discards a waiting sign: replay the typewriter prefix that ends with a pending sign
            return None
        return run

    def on_path(st, it, out):
        prog = it.p
        c = st.ctx
        model = st.get_model()
        recs = []

        def keys_under(m, keys):
            return [model_string(m, v) for v in keys]

        def inputs(m):
            return dict(word=name, typewriter=keys_under(m, c["tw"]), unicode=keys_under(m, c["un"]), opts=opts_json(m, c["opts"]))
        if out[0] == "panic":
            recs.append(dict(kind="violation", clause="no_panic", inputs=inputs(model), predicted=dict(panic=out[1].message)))
            return recs
        a = fm_field(prog, c["fmA"], "buffer").elems
        b = fm_field(prog, c["fmB"], "buffer").elems
        pa = fm_field(prog, c["fmA"], "pending_kar")
        recs.append(dict(kind="witness", inputs=inputs(model),
                         predicted=dict(a=model_string(model, a), b=model_string(model, b), pending_a=pa.variant == 1)))
        clauses = [("same_text", seq_eq(a, b)), ("no_sign_left_pending", pa.variant == 0)]
        # what the user sees after every key is the text as composed so far (nothing remembered from an earlier key)
        clauses.append(("every_key_shows_the_composed_text", z3.And([seq_eq(t["shown"], t["buffer"]) for t in c["trail"]]) if c["trail"] else True))
        if c["trail"] and "shown_b" in c:
            clauses.append(("same_shown_text", seq_eq(c["trail"][-1]["shown"], c["shown_b"])))
        for i, t in enumerate(c["trail"]):
            if t["pending"]:
                clauses.append(("pending_sign_not_shown", z3.And(seq_eq(t["shown"], t["buffer"]),
                                                                 seq_eq(t["buffer"], t["before"]) if t["captured"] else z3.BoolVal(True))))
                clauses.append(("pending_sign_counts_as_session", t["ongoing"] is True))
                clauses.append(("cover:pending", True))
        clauses.append(("cover:word_done", True))
        for cname, formula in clauses:
            if cname.startswith("cover:"):
                recs.append(dict(kind="cover", name=cname))
                continue
            if formula is True:
                continue
            neg = z3.Not(formula) if formula is not False else z3.BoolVal(True)
            st.solver.push()
            st.solver.add(neg)
            if st._check(None):
                m2 = st.solver.model()
                recs.append(dict(kind="violation", clause=cname, inputs=inputs(m2),
                                 predicted=dict(a=model_string(m2, a), b=model_string(m2, b), pending_a=pa.variant == 1)))
            st.solver.pop()
        return recs
    return build, on_path


def kar_scenario(inp, every_key=False, after_flip=False):
    """Native replay: two contexts, typewriter order with the option on, Unicode order with it off."""
    vals = []
    for v in inp["typewriter"] + inp["unicode"]:
        if v not in vals:
            vals.append(v)
    lay = {}
    for i, v in enumerate(vals):
        lay["Key_%s_Normal" % PLANT_NAMES[i]] = v
    oa = dict(inp["opts"], kar_order=True)
    ob = dict(inp["opts"], kar_order=False)
    ca, cb = {"layout_json": lay, "opts": oa}, {"layout_json": lay, "opts": ob}
    if inp["opts"].get("fixed_suggestion"):
        from common import REPO
        ca["database"] = cb["database"] = REPO + "/data"
    steps = [{"op": "new", "ctx": 0, "config": ca}, {"op": "new", "ctx": 1, "config": cb}]
    if after_flip and vals:
        # both contexts start with the option the other way round, compose and erase one key (a word ended by erasing it, or a waiting sign
        # discarded), and are then re-configured while idle: whatever the method keeps per word must be gone
        ca0, cb0 = dict(ca, opts=dict(oa, kar_order=False)), dict(cb, opts=dict(ob, kar_order=True))
        first = PLANT_KEYS[0]
        steps = [{"op": "new", "ctx": 0, "config": ca0}, {"op": "key", "ctx": 0, "key": first}, {"op": "backspace", "ctx": 0}, {"op": "backspace", "ctx": 0}, {"op": "update", "ctx": 0, "config": ca},
                 {"op": "new", "ctx": 1, "config": cb0}, {"op": "key", "ctx": 1, "key": first}, {"op": "backspace", "ctx": 1}, {"op": "backspace", "ctx": 1}, {"op": "update", "ctx": 1, "config": cb}]
    for v in inp["typewriter"]:
        steps.append({"op": "key", "ctx": 0, "key": PLANT_KEYS[vals.index(v)]})
        if every_key:
            steps.append({"op": "get_state", "ctx": 0, "_each": True})
    steps.append({"op": "get_state", "ctx": 0})
    for v in inp["unicode"]:
        steps.append({"op": "key", "ctx": 1, "key": PLANT_KEYS[vals.index(v)]})
    steps.append({"op": "get_state", "ctx": 1})
    return {"steps": steps}


def native_shown(x):
    s = x.get("suggestion") or {}
    if s.get("kind") == "full":
        return (s.get("list") or [""])[0]
    return s.get("text", "")


def kar_compare(w, res):
    rr = res["results"]
    if any("panic" in x for x in rr):
        if w["predicted"].get("panic") is not None:
            return None
        return "native run panics: %s" % [x["panic"] for x in rr if "panic" in x][0]
    if w["predicted"].get("panic") is not None:
        return "symbolic path panics, native run does not"
    states = [x["state"] for x in rr if x.get("op") == "get_state"]
    a, b = states[0], states[1]
    if a["buffer"] != w["predicted"]["a"] or b["buffer"] != w["predicted"]["b"]:
        return "native buffers %r / %r, symbolic %r / %r" % (a["buffer"], b["buffer"], w["predicted"]["a"], w["predicted"]["b"])
    return None


def confirm_kar(check, name, vio, classify, describe):
    groups = {}
    for v in vio:
        groups.setdefault(classify(v), []).append(v)
    status = "held"
    worst = {"held": 0, "known": 1, "inconclusive": 2, "violated": 3}
    for key, vs in sorted(groups.items()):
        confirmed = None
        for v in vs[:8]:
            if v["clause"] in ("every_key_shows_the_composed_text", "same_shown_text"):
                # the composition itself may be right: look at what every key returned
                sc = kar_scenario(v["inputs"], every_key=True)
                res = run_replay([sc])[0]
                rr = res["results"]
                if any("panic" in x for x in rr):
                    continue
                for i, x in enumerate(rr):
                    if x.get("op") == "key" and i + 1 < len(rr) and rr[i + 1].get("op") == "get_state" and sc["steps"][i + 1].get("_each"):
                        if native_shown(x) != rr[i + 1]["state"]["buffer"]:
                            v = dict(v, predicted=dict(v["predicted"], shown=native_shown(x), composed=rr[i + 1]["state"]["buffer"], key_number=sum(1 for y in rr[:i + 1] if y.get("op") == "key") - 0))
                            confirmed = (v, sc, res)
                            break
                if confirmed:
                    break
                continue
            sc = kar_scenario(v["inputs"])
            res = run_replay([sc])[0]
            if kar_compare(v, res) is None:
                confirmed = (v, sc, res)
                break
            if v["clause"] == "same_text" and v["predicted"].get("panic") is None:
                # not from new contexts - but perhaps from contexts with a history (the option changed between two words)
                sc = kar_scenario(v["inputs"], after_flip=True)
                res = run_replay([sc])[0]
                rr = res["results"]
                if not any("panic" in x for x in rr):
                    states = [x["state"] for x in rr if x.get("op") == "get_state"]
                    if len(states) == 2 and states[0]["buffer"] != states[1]["buffer"]:
                        v = dict(v, predicted=dict(v["predicted"], a=states[0]["buffer"], b=states[1]["buffer"], history="both contexts were created with the option the other way round, "
                                                   "composed and erased one key, and were re-configured while idle"))
                        confirmed = (v, sc, res)
                        break
        if confirmed is None:
            st = "inconclusive"
            check.obligation(name + ":" + key, "mirsym", "inconclusive", "counterexample did not reproduce natively: %s" % describe(vs[0])[:300])
        else:
            v, sc, res = confirmed
            check.stats["traces_validated"] += 1
            st = check.finding(key, describe(v), dict(scenario=sc, observed=[x for x in res["results"] if x.get("op") == "get_state"],
                                                     predicted=v["predicted"], inputs=v["inputs"]))
            check.sample(dict(obligation=name, counterexample=v["inputs"], outcome=v["predicted"], role=key))
        if worst[st] > worst[status]:
            status = st
    return status


def classify_kar(v):
    if v["predicted"].get("panic") is not None:
        return "old kar order: panic"
    tw = v["inputs"]["typewriter"]
    has_zofola = "".join(chr(x) for x in ZOFOLA) in tw
    has_r = "র" in tw
    if v["clause"] == "same_text" and has_zofola and has_r:
        return "old kar order: র + zo-fola under a left-standing sign"
    return "old kar order: %s (%s)" % (v["clause"], v["inputs"]["word"].split(":")[0])


def describe_kar(v):
    i = v["inputs"]
    if v["predicted"].get("panic") is not None:
        return "typing %s in typewriter order panics: %s" % (i["typewriter"], v["predicted"]["panic"])
    if v["predicted"].get("shown") is not None:
        return "typewriter order %s with old kar order (options %s): key number %d returns %r while the text composed so far is %r" % (
            i["typewriter"], ",".join(k for k, x in i["opts"].items() if x), v["predicted"].get("key_number", 0), v["predicted"]["shown"], v["predicted"]["composed"])
    if v["predicted"].get("history"):
        return "after a history (%s): typewriter order %s with old kar order gives %r, Unicode order %s without it gives %r (options %s)" % (
            v["predicted"]["history"], i["typewriter"], v["predicted"]["a"], i["unicode"], v["predicted"]["b"], ",".join(k for k, x in i["opts"].items() if x))
    return "typewriter order %s with old kar order gives %r, Unicode order %s without it gives %r (clause %s, options %s)" % (
        i["typewriter"], v["predicted"]["a"], i["unicode"], v["predicted"]["b"], v["clause"],
        ",".join(k for k, x in i["opts"].items() if x))


def obl_kar_order(check, two_syllables, thorough=False, budget_s=None):
    words = kar_templates(two_syllables, thorough)
    shapes = [dict(word=w) for w in words]
    check.bounds["kar_order"] = dict(words=len(words), syllables="cluster of 1-3 consonants (hasanta / ro-fola / zo-fola keys) x 12 sign spellings x chandrabindu",
                                     prefixes="word start, after punctuation, after an independent vowel" + ("; two-syllable words" if two_syllables else ""),
                                     symbols="consonants, punctuation and independent vowels symbolic within their class",
                                     options="auto vowel / auto chandrabindu / traditional joining / old reph symbolic (16 settings)")

    def make(shape):
        return make_kar_history(shape)
    records, errors, summ = msym.run_shapes(check, "kar_order", shapes, make, budget_s=budget_s)
    wit = [r for r in records if r["kind"] == "witness"]
    vio = [r for r in records if r["kind"] == "violation" and (getattr(check, "only_clauses", None) is None or r["clause"] in check.only_clauses)]
    covers = set(r["name"] for r in records if r["kind"] == "cover")
    okc, bad = validate_witnesses(check, "kar_order", wit, to_scenario=kar_scenario, compare=kar_compare, cap=3000)
    detail = "%d words, %d paths, %d witnesses replayed natively (%d agree)" % (len(words), summ["paths"], min(len(wit), 3000), okc)
    if errors:
        check.obligation("kar_order", "mirsym", "inconclusive", "executor gave up: " + "; ".join(sorted(set(errors))[:3]))
        return
    if bad:
        if vio:
            status = confirm_kar(check, "kar_order", vio, classify_kar, describe_kar)
            if status in ("violated", "known"):
                check.obligation("kar_order", "mirsym", status, detail + "; %d counterexample models; witness disagreements: %d" % (len(vio), len(bad)))
                return
        check.obligation("kar_order", "mirsym", "inconclusive", "executor model disagrees with the native build on %d witnesses, e.g. %s | %s" % (
            len(bad), bad[0][1], json.dumps(bad[0][0]["inputs"], ensure_ascii=False)[:300]))
        return
    if "cover:pending" not in covers or "cover:word_done" not in covers:
        check.obligation("kar_order", "mirsym", "inconclusive", "vacuity: no path had a pending sign / finished a word")
        return
    if not vio:
        check.obligation("kar_order", "mirsym", "held", detail + "; every property query unsat")
        return
    status = confirm_kar(check, "kar_order", vio, classify_kar, describe_kar)
    check.obligation("kar_order", "mirsym", status, detail + "; %d counterexample models" % len(vio))


# ------------------------------------------------------------------------- C04 (layout key -> entry)

def make_layout_key(shape, prop_fn=None, constrain=None):
    """Idle method, all helpers off; key, modifier and the number-pad option symbolic; the layout file is an
    oracle: whatever entry name the code asks for, the entry may be absent, empty, or any text of 1-2 code points."""
    from common import keyname_spec, published_keys
    spec = keyname_spec()
    keys = published_keys()

    def build(st, it):
        prog = it.p
        key = st.sym_bv("key", 16)
        mod = st.sym_bv("modifier", 8)
        if shape.get("published_only"):
            st.assume(z3.Or([key == c for _, c in keys]))
        asked = []

        def oracle(it2, m, name):
            asked.append(tuple(name))
            i = len(asked)
            k = it2.st.choose([z3.Bool("entry%d_absent" % i), z3.And(z3.Not(z3.Bool("entry%d_absent" % i)), z3.BitVec("entry%d_len" % i, 8) == 0),
                               z3.And(z3.Not(z3.Bool("entry%d_absent" % i)), z3.BitVec("entry%d_len" % i, 8) == 1),
                               z3.And(z3.Not(z3.Bool("entry%d_absent" % i)), z3.BitVec("entry%d_len" % i, 8) == 2),
                               z3.And(z3.Not(z3.Bool("entry%d_absent" % i)), z3.UGT(z3.BitVec("entry%d_len" % i, 8), 2))])
            if k == 4:
                from mirsym.interp import PathAbort
                raise PathAbort("entry longer than the bound")
            if k == 0:
                st.ctx["entries"].append((tuple(name), None))
                return None
            val = [it2.st.sym_char("e%d_%d" % (i, j)) for j in range(k - 1)]
            st.ctx["entries"].append((tuple(name), val))
            return SString(val)
        fixed = {o: False for o in OPTS}
        del fixed["fixed_numpad"]
        cfg, opts = mk_config(prog, st, fixed)
        fm = mk_fixed(prog, [], [], None, [], [])
        fm_field(prog, fm, "layout").fields[0].oracle = oracle
        st.ctx = dict(key=key, mod=mod, opts=opts, fm=fm, asked=asked, entries=[], shape=shape)
        fn = prog.find_trait_fn("FixedMethod", "Method", "get_suggestion")

        def run():
            return it.call_function(fn, [Ref([fm], 0, True), key, mod, st.sym_bv("selection", 8), Ref([Opaque("Data")], 0), Ref([cfg], 0)])
        return run

    def inputs(model, c):
        lay = {}
        for name, val in c["entries"]:
            if val is not None:
                lay["".join(chr(x) for x in name)] = model_string(model, val)
        return dict(key=int(model_value(model, c["key"])), mod=int(model_value(model, c["mod"])),
                    numpad=bool(model_value(model, c["opts"]["fixed_numpad"])), layout=lay,
                    asked=["".join(chr(x) for x in a) for a in c["asked"]])

    def predicted(prog, model, c, out):
        if out[0] == "panic":
            return dict(panic=out[1].message)
        return dict(state=fixed_state(prog, model, c["fm"]), ret=render_suggestion(prog, model, out[1]))

    def on_path(st, it, out):
        prog = it.p
        c = st.ctx
        model = st.get_model()
        recs = [dict(kind="witness", inputs=inputs(model, c), predicted=predicted(prog, model, c, out))]
        if out[0] == "panic":
            recs.append(dict(kind="violation", clause="no_panic", inputs=inputs(model, c), predicted=predicted(prog, model, c, out)))
            return recs
        key, mod = c["key"], c["mod"]
        altgr = (mod & 2) != 0
        numpad = zb(c["opts"]["fixed_numpad"])
        asked = ["".join(chr(x) for x in a) for a in c["asked"]]
        buf = fm_field(prog, c["fm"], "buffer").elems
        typed = fm_field(prog, c["fm"], "typed").elems
        ret = out[1]
        single = prog.enums["Suggestion"]["Single"]
        txt = ret.fields[prog.enum_fields[("Suggestion", "Single")].index("suggestion")].elems if ret.variant == single else None
        entry = c["entries"][0][1] if c["entries"] else None
        clauses = []
        rows = []
        mk = int(model_value(model, key))
        pinned = not st.feasible(key != mk)
        for name, code in keys:
            if pinned and code != mk:
                continue
            cp, stem, kind = spec.get(name, (0, "-", "none"))
            if kind == "key":
                ok_names = z3.Or(z3.And(altgr, z3.BoolVal(asked == ["Key_%s_AltGr" % stem])),
                                 z3.And(z3.Not(altgr), z3.BoolVal(asked == ["Key_%s_Normal" % stem])))
                active = z3.BoolVal(True)
            elif kind == "numpad":
                # with the number-pad option off the key is inert whether or not the entry is looked at
                ok_names = z3.Or(z3.BoolVal(asked == [stem]), z3.And(z3.Not(numpad), z3.BoolVal(asked == [])))
                active = numpad
            else:
                ok_names = z3.BoolVal(asked == [])
                active = z3.BoolVal(False)
            rows.append((code, ok_names, active))
        # which entry is consulted (when the path pins the key to one code only that row is relevant)
        clauses.append(("consults_the_entry_named_by_the_key", z3.And([z3.Implies(key == code, okn) for code, okn, _ in rows]) if rows else True))
        if not rows:
            clauses.append(("keys_outside_the_layout_consult_nothing", asked == []))
        elif not pinned:
            clauses.append(("keys_outside_the_layout_consult_nothing", z3.Implies(z3.And([key != code for code, _, _ in rows]), z3.BoolVal(asked == []))))
        # what is emitted
        emits = entry is not None and len(entry) > 0
        silent = z3.BoolVal(False)
        if emits and len(entry) >= 2:
            silent = zin(entry[0], CL.KARS + CL.RARE)
        active_here = z3.Or([z3.And(key == code, act) for code, _, act in rows]) if rows else z3.BoolVal(False)
        if txt is None:
            clauses.append(("returns_single_string", False))
        else:
            if emits:
                exp = z3.And(seq_eq(buf, entry), seq_eq(txt, entry))
                noth = z3.And(z3.BoolVal(len(buf) == 0), z3.BoolVal(len(txt) == 0))
                clauses.append(("emits_exactly_the_entry", z3.Implies(z3.Not(silent), z3.If(active_here, exp, noth))))
                clauses.append(("cover:emits", z3.And(active_here, z3.Not(silent))))
                clauses.append(("cover:numpad_off_inert", z3.And(z3.Not(active_here), z3.Or([key == code for code, _, _ in rows])) if rows else False))
            else:
                clauses.append(("empty_or_missing_entry_changes_nothing", len(buf) == 0 and len(txt) == 0))
                clauses.append(("cover:inert", True))
        clauses.append(("raw_keys_not_recorded_without_suggestions", len(typed) == 0))
        for cname, formula in clauses:
            if cname.startswith("cover:"):
                if formula is True or (formula is not False and st.feasible(formula)):
                    recs.append(dict(kind="cover", name=cname))
                continue
            if formula is True:
                continue
            neg = z3.Not(formula) if formula is not False else z3.BoolVal(True)
            st.solver.push()
            st.solver.add(neg)
            if st._check(None):
                m2 = st.solver.model()
                recs.append(dict(kind="violation", clause=cname, inputs=inputs(m2, c), predicted=predicted(prog, m2, c, out)))
            st.solver.pop()
        return recs
    return build, on_path


def make_layout_table(shape):
    """The layout as the crate's own `Layout::parse` builds it from the file content (the JSON -> map conversion is the oracle: the file
    assigns text to the two planes of ONE key - each absent, empty or any 1-2 code points - and to nothing else), then one key press on an
    idle method with all helpers off. Independent of how the crate stores the layout."""
    name, code, stem, kind = shape["row"]
    others = shape.get("others")

    def build(st, it):
        prog = it.p
        key = st.sym_bv("key", 16)
        mod = st.sym_bv("modifier", 8)
        if others is not None:
            st.assume(z3.Or([key == c for c in [code] + list(others)]))
        names = ["Key_%s_Normal" % stem, "Key_%s_AltGr" % stem] if kind == "key" else [stem]
        entries = {}

        def from_value(it2, args, callee):
            from mirsym.values import ok
            pairs = []
            for i, nm in enumerate(names):
                ab = z3.Bool("entry%d_absent" % i)
                ln = z3.BitVec("entry%d_len" % i, 8)
                k = it2.st.choose([ab, z3.And(z3.Not(ab), ln == 0), z3.And(z3.Not(ab), ln == 1), z3.And(z3.Not(ab), ln == 2)])
                if k == 0:
                    entries[nm] = None
                    continue
                val = [it2.st.sym_char("e%d_%d" % (i, j)) for j in range(k - 1)]
                entries[nm] = val
                pairs.append([key_name(nm), SString(val)])
            # one unrelated entry, so that "the map is empty" is not what makes other keys silent
            pairs.append([key_name("Key_zz_Normal"), SString([0x78])])
            return ok(SMap("layout", pairs))
        it.env["overrides"] = {"from_value": from_value}
        fixed = {o: False for o in OPTS}
        del fixed["fixed_numpad"]
        cfg, opts = mk_config(prog, st, fixed)
        # the configuration after a re-configuration with the same layout file (the method object and its layout stay): every option again a symbol
        cfg2, opts2 = mk_config(prog, st, fixed, tag="opt2_")
        st.ctx = dict(key=key, mod=mod, opts=opts, opts2=opts2, entries=entries, shape=shape)
        fn = prog.find_trait_fn("FixedMethod", "Method", "get_suggestion")
        fin = prog.find_trait_fn("FixedMethod", "Method", "finish_input_session")
        parse = prog.find_fn("Layout", "parse")

        def run():
            lay = it.call_function(parse, [Opaque("serde_json::Value")])
            if not (isinstance(lay, Agg) and lay.kind == "adt:Option" and lay.variant == 1):
                raise PanicPath("Layout::parse returned None for a well-formed layout object")
            fm = struct_of(prog, "FixedMethod", {"buffer": SString([]), "typed": SString([]), "pending_kar": pending_value(prog, None),
                                                 "suggestions": SVec([]), "layout": lay.fields[0]}, st=st)
            st.ctx["fm"] = fm
            r1 = it.call_function(fn, [Ref([fm], 0, True), key, mod, st.sym_bv("selection", 8), Ref([Opaque("Data")], 0), Ref([cfg], 0)])
            st.ctx["buf1"] = list(fm_field(prog, fm, "buffer").elems)
            st.ctx["state1"] = fixed_state(prog, None, fm) if False else None
            # the word is finished, the options are changed, the same key is pressed again on the same method object
            it.call_function(fin, [Ref([fm], 0, True)])
            r2 = it.call_function(fn, [Ref([fm], 0, True), key, mod, st.sym_bv("selection2", 8), Ref([Opaque("Data")], 0), Ref([cfg2], 0)])
            st.ctx["r2"] = r2
            return r1
        return run

    def inputs(model, c):
        lay = {nm: model_string(model, v) for nm, v in c["entries"].items() if v is not None}
        lay["Key_zz_Normal"] = "x"
        return dict(key=int(model_value(model, c["key"])), mod=int(model_value(model, c["mod"])), numpad=bool(model_value(model, c["opts"]["fixed_numpad"])),
                    numpad_after=bool(model_value(model, c["opts2"]["fixed_numpad"])), layout=lay, asked=[])

    def predicted(prog, model, c, out):
        if out[0] == "panic":
            return dict(panic=out[1].message)
        st1 = dict(buffer=model_string(model, c["buf1"]), typed="")
        return dict(state=st1, ret=render_suggestion(prog, model, out[1]), second=render_suggestion(prog, model, c["r2"]))

    def on_path(st, it, out):
        prog = it.p
        c = st.ctx
        model = st.get_model()
        recs = [dict(kind="witness", inputs=inputs(model, c), predicted=predicted(prog, model, c, out))]
        if out[0] == "panic":
            recs.append(dict(kind="violation", clause="no_panic", inputs=inputs(model, c), predicted=predicted(prog, model, c, out)))
            return recs
        key, mod = c["key"], c["mod"]
        altgr = (mod & 2) != 0
        numpad = zb(c["opts"]["fixed_numpad"])
        numpad2 = zb(c["opts2"]["fixed_numpad"])
        buf = c["buf1"]
        buf2 = fm_field(prog, c["fm"], "buffer").elems
        ret = out[1]
        ret2 = c["r2"]
        single = prog.enums["Suggestion"]["Single"]
        txt = ret.fields[prog.enum_fields[("Suggestion", "Single")].index("suggestion")].elems if ret.variant == single else None
        clauses = []
        if txt is None:
            clauses.append(("returns_single_string", False))
        else:
            single2 = isinstance(ret2, Agg) and ret2.variant == single
            txt2 = ret2.fields[prog.enum_fields[("Suggestion", "Single")].index("suggestion")].elems if single2 else []

            def law(buf_, txt_, numpad_):
                nothing = z3.BoolVal(len(buf_) == 0 and len(txt_) == 0)

                def emits(val):
                    if val is None or len(val) == 0:
                        return nothing, z3.BoolVal(False)
                    silent = zin(val[0], CL.KARS + CL.RARE) if len(val) >= 2 else z3.BoolVal(False)
                    return z3.Or(silent, z3.And(seq_eq(buf_, val), seq_eq(txt_, val))), z3.Not(silent)
                if kind == "key":
                    en, cn = emits(c["entries"].get("Key_%s_Normal" % stem))
                    ea, ca = emits(c["entries"].get("Key_%s_AltGr" % stem))
                    return z3.If(key == code, z3.If(altgr, ea, en), nothing), z3.And(key == code, z3.If(altgr, ca, cn))
                e1, c1 = emits(c["entries"].get(stem))
                return z3.If(z3.And(key == code, numpad_), e1, nothing), z3.And(key == code, numpad_, c1)
            want, cov = law(buf, txt, numpad)
            clauses.append(("cover:emits", cov))
            if kind != "key":
                clauses.append(("cover:numpad_off_inert", z3.And(key == code, z3.Not(numpad))))
            clauses.append(("key_emits_exactly_what_the_file_assigns", want))
            clauses.append(("cover:inert", key != code))
            # the same key after the word was finished and the options were changed: the options now in force decide
            want2, _ = law(buf2, txt2, numpad2)
            clauses.append(("key_obeys_the_options_in_force_now", z3.And(z3.BoolVal(bool(single2)), want2)))
        for cname, formula in clauses:
            if cname.startswith("cover:"):
                if formula is True or (formula is not False and st.feasible(formula)):
                    recs.append(dict(kind="cover", name=cname))
                continue
            neg = z3.Not(formula)
            st.solver.push()
            st.solver.add(neg)
            if st._check(None):
                m2 = st.solver.model()
                recs.append(dict(kind="violation", clause=cname, inputs=inputs(m2, c), predicted=predicted(prog, m2, c, out)))
            st.solver.pop()
        return recs
    return build, on_path


def obl_layout_table(check, thorough=False, budget_s=None, numpad_rows_only=False):
    from common import keyname_spec, published_keys
    spec = keyname_spec()
    rows = [(n, c, spec[n][1], spec[n][2]) for n, c in published_keys() if n in spec and spec[n][2] in ("key", "numpad")]
    if numpad_rows_only:
        rows = [r for r in rows if r[3] == "numpad"] + [r for r in rows if r[3] == "key"][:4]
    shapes = []
    for i, r in enumerate(rows):
        # quick: the key itself, the next key of the table, a key outside every layout, an unpublished code; thorough: all 2^16 codes
        if thorough:
            # every 18th layout key: all 2^16 key codes; the others: the key itself, twelve other layout keys, keys outside every layout
            others = None if i % 18 == 0 else [rows[(i + 1 + 9 * k) % len(rows)][1] for k in range(12)] + [0x0E1C, 0xFFFF, 0]
        else:
            others = [rows[(i + 1) % len(rows)][1], rows[(i + 37) % len(rows)][1], 0x0E1C, 0xFFFF]
        shapes.append(dict(row=r, others=others))
    check.bounds["layout_table"] = dict(layout="built by Layout::parse from a file that assigns text to the two planes of one key (each absent / empty / any 1-2 code points) and to one unrelated key; one shape per layout key (%d)" % len(rows),
                                        key="all 2^16 codes for every 18th layout key, else the key itself, twelve other layout keys and three codes outside every layout" if thorough else "the key itself, two other layout keys, a published key without a layout entry, an unpublished code",
                                        modifier="all 2^8 bytes", number_pad_option="symbolic", state="idle, all helpers and suggestions off")
    records, errors, summ = msym.run_shapes(check, "layout_table", shapes, make_layout_table, budget_s=budget_s)
    wit = [r for r in records if r["kind"] == "witness"]
    vio = [r for r in records if r["kind"] == "violation" and (getattr(check, "only_clauses", None) is None or r["clause"] in check.only_clauses)]
    covers = set(r["name"] for r in records if r["kind"] == "cover")
    okc, bad = validate_witnesses(check, "layout_table", wit, to_scenario=table_scenario, compare=table_compare, cap=2500)
    detail = "%d layout keys, %d paths, %d witnesses replayed natively (%d agree)" % (len(rows), summ["paths"], min(len(wit), 2500), okc)
    name = "layout_table"
    if errors:
        check.obligation(name, "mirsym", "inconclusive", "executor gave up: " + "; ".join(sorted(set(errors))[:3]))
        return
    need = ["cover:emits", "cover:inert", "cover:numpad_off_inert"]
    if any(n not in covers for n in need):
        check.obligation(name, "mirsym", "inconclusive", "vacuity: missing reachability witnesses %s" % [n for n in need if n not in covers])
        return
    if not vio:
        if bad:
            check.obligation(name, "mirsym", "inconclusive", "executor model disagrees with the native build on %d witnesses, e.g. %s | %s" % (
                len(bad), bad[0][1], json.dumps(bad[0][0]["inputs"], ensure_ascii=False)[:300]))
            return
        check.obligation(name, "mirsym", "held", detail + "; every property query unsat")
        return
    names = {c: n for n, c in published_keys()}
    status = "held"
    worst = {"held": 0, "known": 1, "inconclusive": 2, "violated": 3}
    groups = {}
    for v in vio:
        groups.setdefault("layout table: " + v["clause"], []).append(v)
    for key, vs in sorted(groups.items()):
        conf = None
        for v in vs[:12]:
            sc = table_scenario(v["inputs"])
            res = run_replay([sc])[0]
            if table_compare(v, res) is None:
                conf = (v, sc, res)
                break
        if conf is None:
            st2 = "inconclusive"
            check.obligation(name + ":" + key, "mirsym", "inconclusive", "counterexample did not reproduce natively: %s" % json.dumps(vs[0]["inputs"], ensure_ascii=False)[:300])
        else:
            v, sc, res = conf
            i = v["inputs"]
            what = "key %s (0x%04X) modifier %d numpad=%s with layout %s composes %r; pressed again after the word was finished and the number-pad option set to %s (update_engine, same layout): %r (%s)" % (
                names.get(i["key"], "unpublished"), i["key"], i["mod"], i["numpad"], json.dumps(i["layout"], ensure_ascii=False),
                v["predicted"].get("state", {}).get("buffer"), i.get("numpad_after"), v["predicted"].get("second", {}).get("text"), v["clause"])
            check.stats["traces_validated"] += 1
            st2 = check.finding(key + " " + names.get(i["key"], "unpublished"), what, dict(scenario=sc, observed=res["results"][1:], inputs=i))
            check.sample(dict(obligation=name, counterexample=i, role=key))
        if worst[st2] > worst[status]:
            status = st2
    check.obligation(name, "mirsym", status, detail + "; %d counterexample models" % len(vio))


def layout_scenario(inp):
    opts = {"numpad": inp["numpad"]}
    return {"steps": [{"op": "new", "config": {"layout_json": inp["layout"] or {"Key_zz_Normal": "x"}, "opts": opts}},
                      {"op": "key", "key": inp["key"], "mod": inp["mod"], "sel": 0}, {"op": "get_state"}]}


def table_scenario(inp):
    lay = inp["layout"] or {"Key_zz_Normal": "x"}
    return {"steps": [{"op": "new", "config": {"layout_json": lay, "opts": {"numpad": inp["numpad"]}}},
                      {"op": "key", "key": inp["key"], "mod": inp["mod"], "sel": 0}, {"op": "get_state"}, {"op": "finish"},
                      {"op": "update", "config": {"layout_json": lay, "opts": {"numpad": inp.get("numpad_after", inp["numpad"])}}},
                      {"op": "key", "key": inp["key"], "mod": inp["mod"], "sel": 0}]}


def table_compare(w, res):
    r = layout_compare(w, res)
    if r is not None or w["predicted"].get("panic") is not None:
        return r
    ev2 = res["results"][5]
    if "panic" in ev2:
        return "native run panics at the second press: " + ev2["panic"]
    if ev2.get("suggestion", {}).get("text") != w["predicted"].get("second", {}).get("text"):
        return "second press: native text %r symbolic %r" % (ev2.get("suggestion", {}).get("text"), w["predicted"].get("second", {}).get("text"))
    return None


def layout_compare(w, res):
    rr = res["results"]
    if "error" in rr[0] or "panic" in rr[0]:
        return "native context creation failed: %s" % rr[0]
    ev = rr[1]
    pred = w["predicted"]
    if pred.get("panic") is not None:
        return None if "panic" in ev else "symbolic path panics, native returns"
    if "panic" in ev:
        return "native run panics: " + ev["panic"]
    st = rr[2]["state"]
    if st["buffer"] != pred["state"]["buffer"] or st["typed"] != pred["state"]["typed"]:
        return "native state %r, symbolic %r" % (st, pred["state"])
    if ev["suggestion"].get("text") != pred["ret"].get("text"):
        return "native text %r symbolic %r" % (ev["suggestion"].get("text"), pred["ret"].get("text"))
    return None


def obl_layout_key(check, budget_s=None):
    prog, _ = msym.load(check)
    if "map" not in (prog.structs.get("Layout") or []):
        # this obligation plants the layout's name -> text map and judges which entry name a key consults: it speaks about one representation.
        # With another one, `layout_table` (the layout as Layout::parse builds it) carries the property alone.
        check.obligation("layout_key", "mirsym", "not_applicable", "the Layout struct no longer keeps the file's name -> text map (fields: %s); see layout_table" % prog.structs.get("Layout"))
        return
    shapes = [dict(published_only=False)]
    check.bounds["layout_key"] = dict(key="all 2^16 codes", modifier="all 2^8 bytes", number_pad_option="symbolic",
                                      layout="oracle: the consulted entry is absent / empty / any 1-2 code points",
                                      state="idle, all helpers and suggestions off")

    def make(shape):
        return make_layout_key(shape)
    records, errors, summ = msym.run_shapes(check, "layout_key", shapes, make, budget_s=budget_s)
    wit = [r for r in records if r["kind"] == "witness"]
    vio = [r for r in records if r["kind"] == "violation" and (getattr(check, "only_clauses", None) is None or r["clause"] in check.only_clauses)]
    covers = set(r["name"] for r in records if r["kind"] == "cover")
    okc, bad = validate_witnesses(check, "layout_key", wit, to_scenario=layout_scenario, compare=layout_compare, cap=3000)
    detail = "%d paths, %d witnesses replayed natively (%d agree)" % (summ["paths"], min(len(wit), 3000), okc)
    if errors:
        check.obligation("layout_key", "mirsym", "inconclusive", "executor gave up: " + "; ".join(sorted(set(errors))[:3]))
        return
    if bad:
        check.obligation("layout_key", "mirsym", "inconclusive", "executor model disagrees with the native build on %d witnesses, e.g. %s | %s" % (
            len(bad), bad[0][1], json.dumps(bad[0][0]["inputs"], ensure_ascii=False)[:300]))
        return
    need = ["cover:emits", "cover:inert", "cover:numpad_off_inert"]
    if any(n not in covers for n in need):
        check.obligation("layout_key", "mirsym", "inconclusive", "vacuity: missing reachability witnesses %s" % [n for n in need if n not in covers])
        return
    if not vio:
        check.obligation("layout_key", "mirsym", "held", detail + "; every property query unsat")
        return
    # confirm natively
    groups = {}
    for v in vio:
        groups.setdefault("layout key: " + v["clause"], []).append(v)
    status = "held"
    worst = {"held": 0, "known": 1, "inconclusive": 2, "violated": 3}
    names = {c: n for n, c in __import__("common").published_keys()}
    for key, vs in sorted(groups.items()):
        conf = None
        for v in vs[:8]:
            sc = layout_scenario(v["inputs"])
            res = run_replay([sc])[0]
            if layout_compare(v, res) is None:
                conf = (v, sc, res)
                break
        if conf is None:
            st = "inconclusive"
            check.obligation("layout_key:" + key, "mirsym", "inconclusive", "counterexample did not reproduce natively: %s" % json.dumps(vs[0]["inputs"], ensure_ascii=False)[:300])
        else:
            v, sc, res = conf
            i = v["inputs"]
            what = "key %s (0x%04X) modifier %d numpad=%s with layout %s: consulted %s, composed %r (%s)" % (
                names.get(i["key"], "unpublished"), i["key"], i["mod"], i["numpad"], json.dumps(i["layout"], ensure_ascii=False), i["asked"],
                v["predicted"].get("state", {}).get("buffer"), v["clause"])
            check.stats["traces_validated"] += 1
            st = check.finding(key + " " + names.get(i["key"], "unpublished"), what, dict(scenario=sc, observed=res["results"][1:], inputs=i))
            check.sample(dict(obligation="layout_key", counterexample=i, role=key))
        if worst[st] > worst[status]:
            status = st
    check.obligation("layout_key", "mirsym", status, detail + "; %d counterexample models" % len(vio))
