"""Obligations on the fixed-layout method decided by engine M (symbolic execution of MIR + z3)."""
import itertools
import json
import sys

import z3

import classes as CL
import msym
from common import Inconclusive, run_replay, run_replay_parallel
from fixedlib import (OPT_JSON, OPTS, VC_A, compare_fixed_step, fixed_state, key_name, mk_config, mk_fixed,
                      native_fixed_step, opts_json, render_suggestion, validate_witnesses)
from mirsym.interp import PanicPath
from mirsym.values import Agg, Opaque, Ref, SString, bv, is_sym, simp
from msym import model_string, model_value

REPH = (0x09B0, 0x09CD)
ZOFOLA = (0x09CD, 0x09AF)


def zeq(a, b):
    """z3 equality of two code point values."""
    if not is_sym(a) and not is_sym(b):
        return z3.BoolVal(a == b)
    return bv(a, 32) == bv(b, 32)


def seq_eq(xs, ys):
    if len(xs) != len(ys):
        return z3.BoolVal(False)
    return z3.And([zeq(a, b) for a, b in zip(xs, ys)]) if xs else z3.BoolVal(True)


def zin(c, values):
    r = CL.in_set(c if is_sym(c) else int(c), values)
    if isinstance(r, bool):
        return z3.BoolVal(r)
    return r


def is_c(c):
    return zin(c, CL.CONSONANTS)


def is_k(c):
    return zin(c, CL.KARS)


def is_iv(c):
    return zin(c, CL.VOWELS)


def is_v(c):
    return z3.Or(is_k(c), is_iv(c))


def is_h(c):
    return zeq(c, CL.HASANTA)


def is_n(c):
    return zeq(c, CL.CHANDRA)


def is_rare(c):
    return zin(c, CL.RARE)


def is_x(c):
    return z3.Not(z3.Or(is_c(c), is_k(c), is_iv(c), is_h(c), is_n(c), is_rare(c)))


def conj_at(p, i, m):
    """p[i : i+2m-1] is C (H C)^(m-1)"""
    terms = []
    for j in range(2 * m - 1):
        terms.append(is_c(p[i + j]) if j % 2 == 0 else is_h(p[i + j]))
    return z3.And(terms)


def wellformed(p):
    """p is a sequence of units: conjunct [sign] [chandrabindu] | vowel [chandrabindu] | other char,
    optionally ending in conjunct + explicit hasanta."""
    n = len(p)
    wf = [z3.BoolVal(True)]
    for j in range(1, n + 1):
        alts = []
        # other char
        alts.append(z3.And(wf[j - 1], is_x(p[j - 1])))
        # vowel [N]
        alts.append(z3.And(wf[j - 1], is_iv(p[j - 1])))
        if j >= 2:
            alts.append(z3.And(wf[j - 2], is_iv(p[j - 2]), is_n(p[j - 1])))
        # conjunct [K] [N]
        for a in (0, 1):
            for b in (0, 1):
                m = 1
                while 2 * m - 1 + a + b <= j:
                    L = 2 * m - 1 + a + b
                    i = j - L
                    t = [wf[i], conj_at(p, i, m)]
                    if a:
                        t.append(is_k(p[i + 2 * m - 1]))
                    if b:
                        t.append(is_n(p[j - 1]))
                    alts.append(z3.And(t))
                    m += 1
        wf.append(z3.Or(alts))
    total = [wf[n]]
    m = 1
    while 2 * m <= n:
        i = n - 2 * m
        total.append(z3.And(wf[i], conj_at(p, i, m), is_h(p[n - 1])))
        m += 1
    return z3.Or(total)


def reph_expected_positions(p):
    """[(k, condition)]: reph goes before the final conjunct starting at k when p ends in
    conjunct [vowel or sign] [chandrabindu]; the conditions are mutually exclusive."""
    n = len(p)
    out = []
    for k in range(n):
        alts = []
        for a in (0, 1):
            for b in (0, 1):
                L = n - k - a - b
                if L < 1 or L % 2 == 0:
                    continue
                m = (L + 1) // 2
                t = [conj_at(p, k, m)]
                if a:
                    t.append(is_v(p[k + L]))
                if b:
                    t.append(is_n(p[n - 1]))
                alts.append(z3.And(t))
        if not alts:
            continue
        maximal = z3.BoolVal(True)
        if k >= 2:
            maximal = z3.Not(z3.And(is_h(p[k - 1]), is_c(p[k - 2])))
        out.append((k, z3.And(z3.Or(alts), maximal)))
    return out


# ---------------------------------------------------------------------------------------------

def _ctx_of(st):
    return st.ctx


def make_key_step(shape, prop_fn, constrain=None):
    """One key (VC_A, bound to `value`) through <FixedMethod as Method>::get_suggestion from a symbolic pre-state.
    shape: dict(n=, value=tuple|int(len), pending=, fixed=dict, typed=)"""
    n = shape["n"]
    fixed = shape.get("fixed", {})

    def build(st, it):
        prog = it.p
        buf = [st.sym_char("b%d" % i) for i in range(n)]
        v = shape["value"]
        value = list(v) if isinstance(v, (tuple, list)) else [st.sym_char("v%d" % i) for i in range(v)]
        cfg, opts = mk_config(prog, st, fixed)
        fm = mk_fixed(prog, buf, shape.get("typed", ()), shape.get("pending"), [], [(key_name("Key_a_Normal"), value)])
        st.ctx = dict(buf=buf, value=value, opts=opts, fm=fm, cfg=cfg, shape=shape)
        if constrain:
            constrain(st, st.ctx)
        fn = prog.find_trait_fn("FixedMethod", "Method", "get_suggestion")

        def run():
            return it.call_function(fn, [Ref([fm], 0, True), VC_A, 0, 0, Ref([Opaque("Data")], 0), Ref([cfg], 0)])
        return run

    def inputs_under(prog, model, c):
        return dict(buffer=model_string(model, c["buf"]), typed="".join(chr(x) for x in c["shape"].get("typed", ())),
                    pending=c["shape"].get("pending"), opts=opts_json(model, c["opts"]),
                    layout={"Key_a_Normal": model_string(model, c["value"])},
                    event={"op": "key", "key": VC_A, "mod": 0, "sel": 0})

    def predicted_under(prog, model, c, out):
        if out[0] == "panic":
            return dict(panic=out[1].message)
        return dict(state=fixed_state(prog, model, c["fm"]), ret=render_suggestion(prog, model, out[1]))

    def on_path(st, it, out):
        prog = it.p
        c = st.ctx
        recs = []
        model = st.get_model()
        recs.append(dict(kind="witness", inputs=inputs_under(prog, model, c), predicted=predicted_under(prog, model, c, out)))
        clauses = prop_fn(st, it, c, out)
        for cname, formula in clauses:
            if formula is True:
                continue
            neg = z3.Not(formula) if formula is not False else z3.BoolVal(True)
            st.solver.push()
            st.solver.add(neg)
            r = st._check(None)
            if r:
                m2 = st.solver.model()
                recs.append(dict(kind="violation", clause=cname, inputs=inputs_under(prog, m2, c),
                                 predicted=predicted_under(prog, m2, c, out)))
            st.solver.pop()
        return recs
    return build, on_path


def buffer_after(c):
    return c["fm"].fields[0].elems  # resolved by name below where needed


def fm_field(prog, fm, name):
    return fm.fields[prog.structs["FixedMethod"].index(name)]


# ------------------------------------------------------------------------- C13

def reph_prop(st, it, c, out):
    prog = it.p
    if out[0] == "panic":
        return [("no_panic", False)]
    p = c["buf"]
    n = len(p)
    r = fm_field(prog, c["fm"], "buffer").elems
    reph_on = c["opts"]["fixed_old_reph"]
    reph_on_z = reph_on if is_sym(reph_on) else z3.BoolVal(bool(reph_on))

    def ins(k):
        return seq_eq(r, list(p[:k]) + list(REPH) + list(p[k:]))
    clauses = []
    # conservation (any text, option on or off)
    clauses.append(("conservation", z3.Or([ins(k) for k in range(n + 1)])))
    # option off: plain append
    clauses.append(("off_appends", z3.Implies(z3.Not(reph_on_z), ins(n))))
    # placement (well-formed text without rare letters)
    exp = reph_expected_positions(p)
    norare = z3.And([z3.Not(is_rare(x)) for x in p]) if p else z3.BoolVal(True)
    pre = z3.And(reph_on_z, wellformed(p), norare)
    terms = [z3.Implies(cond, ins(k)) for k, cond in exp]
    terms.append(z3.Implies(z3.Not(z3.Or([cond for _, cond in exp])) if exp else z3.BoolVal(True), ins(n)))
    clauses.append(("placement", z3.Implies(pre, z3.And(terms))))
    # the returned suggestion shows the composed text (suggestions off -> single string)
    ret = out[1]
    sug_on = c["opts"]["fixed_suggestion"]
    if isinstance(ret, Agg) and ret.kind == "adt:Suggestion" and sug_on is False:
        single = prog.enums["Suggestion"]["Single"]
        if ret.variant != single:
            clauses.append(("returns_single", False))
        else:
            txt = ret.fields[prog.enum_fields[("Suggestion", "Single")].index("suggestion")].elems
            clauses.append(("returns_buffer", seq_eq(txt, r)))
    # other state untouched
    return clauses


def classify_reph(v):
    """Role key of a C13 counterexample (used for known findings)."""
    buf = v["inputs"]["buffer"]
    if v["predicted"].get("panic") is not None:
        if buf == "":
            return "reph on empty composition panics"
        return "reph key panics on a non-empty composition"
    if v["clause"] == "placement":
        cps = [ord(ch) for ch in buf]
        if cps and cps[-1] == CL.CHANDRA and len(cps) >= 3 and cps[-2] in CL.CONSONANTS:
            return "reph placement: chandrabindu directly on a consonant with text before it"
        return "reph placement differs from the rule"
    return "reph " + v["clause"]


def run_key_obligation(check, name, shapes, prop_fn, classify, describe, budget_s=None, constrain=None, validate_cap=4000):
    """Generic driver: explore, validate witnesses natively, confirm violations natively, report."""
    def make(shape):
        return make_key_step(shape, prop_fn, constrain)
    records, errors, summ = msym.run_shapes(check, name, shapes, make, budget_s=budget_s)
    wit = [r for r in records if r["kind"] == "witness"]
    vio = [r for r in records if r["kind"] == "violation"]
    okc, bad = validate_witnesses(check, name, wit, cap=validate_cap)
    detail = "%d paths, %d witnesses replayed natively (%d agree)" % (summ["paths"], min(len(wit), validate_cap or len(wit)), okc)
    if errors:
        check.obligation(name, "mirsym", "inconclusive", "executor gave up: " + "; ".join(sorted(set(errors))[:3]))
        return
    if bad:
        w, d = bad[0]
        check.obligation(name, "mirsym", "inconclusive",
                         "executor model disagrees with the native build on %d path witnesses, e.g. %s | inputs %s" % (
                             len(bad), d, json.dumps(w["inputs"], ensure_ascii=False)[:400]))
        return
    if summ["paths"] == 0:
        check.obligation(name, "mirsym", "inconclusive", "no feasible path reached the assertion (vacuous)")
        return
    if not vio:
        check.obligation(name, "mirsym", "held", detail + "; every property query unsat")
        return
    # confirm violations natively, one per role
    status = confirm_violations(check, name, vio, classify, describe)
    check.obligation(name, "mirsym", status, detail + "; %d counterexample models" % len(vio))


def plant_plans(buffer, pending):
    """Candidate key-value sequences that may leave `buffer` (+ pending sign) in the composition."""
    plans = []
    segs = []
    if buffer:
        segs.append([buffer])
        segs.append(list(buffer))
        for k in range(1, len(buffer)):
            segs.append([buffer[:k], buffer[k:]])
    else:
        segs.append([])
    kar = {"I": "ি", "E": "ে", "OI": "ৈ"}
    for s in segs:
        if len(s) > 20:
            continue
        plans.append(s + ([kar[pending]] if pending else []))
    seen = []
    out = []
    for p in plans:
        if p not in seen:
            seen.append(p)
            out.append(p)
    return out


PLANT_KEYS = [0xA097 + i for i in range(25)]   # VC_B .. VC_Z
PLANT_NAMES = "bcdefghijklmnopqrstuvwxyz"


def reach_and_replay(inputs):
    """Find an in-contract key history (same configuration throughout, synthetic layout with multi-code-point
    values) that reaches the pre-state, then perform the event. -> (scenario, result) or (None, reason)."""
    target = (inputs["buffer"], inputs.get("pending"))
    plans = plant_plans(inputs["buffer"], inputs.get("pending"))
    scs = []
    for plan in plans:
        lay = dict(inputs["layout"])
        vals = []
        for v in plan:
            if v not in vals:
                vals.append(v)
        if len(vals) > len(PLANT_KEYS):
            continue
        for i, v in enumerate(vals):
            lay["Key_%s_Normal" % PLANT_NAMES[i]] = v
        steps = [{"op": "new", "config": {"layout_json": lay, "opts": inputs["opts"]}}]
        for v in plan:
            steps.append({"op": "key", "key": PLANT_KEYS[vals.index(v)], "mod": 0, "sel": 0})
        steps.append({"op": "get_state"})
        steps.append(inputs["event"])
        steps.append({"op": "get_state"})
        scs.append({"steps": steps})
    res = run_replay(scs) if scs else []
    for sc, r in zip(scs, res):
        rr = r["results"]
        if any("panic" in x for x in rr[:-2]):
            continue
        st = rr[-3].get("state", {})
        if (st.get("buffer"), st.get("pending")) == target and (not inputs["opts"].get("fixed_suggestion") or st.get("typed") == inputs.get("typed", st.get("typed"))):
            return sc, rr
    return None, "no tried key history reaches buffer=%r pending=%r under these options" % target


def confirm_violations(check, name, vio, classify, describe):
    """Group by role, replay natively; report findings. -> obligation status"""
    groups = {}
    for v in vio:
        groups.setdefault(classify(v), []).append(v)
    status = "held"
    worst = {"held": 0, "known": 1, "inconclusive": 2, "violated": 3}
    for key, vs in sorted(groups.items()):
        confirmed = None
        reason = ""
        for v in vs[:12]:
            # (a) does the native step from the planted state show the predicted (bad) outcome?
            res = run_replay([native_fixed_step(v["inputs"])])[0]
            d = compare_fixed_step(v, res)
            if d is not None:
                reason = "native step does not show the predicted outcome: " + d
                continue
            # (b) is the pre-state reachable through the public API under the same configuration?
            sc, rr = reach_and_replay(v["inputs"])
            if sc is None:
                reason = rr
                continue
            ev = rr[-2]
            pred = v["predicted"]
            if pred.get("panic") is not None:
                good = "panic" in ev
            else:
                good = "panic" not in ev and rr[-1].get("state", {}).get("buffer") == pred["state"]["buffer"]
            if good:
                confirmed = (v, sc, rr)
                break
            reason = "API-level replay differs from the prediction"
        if confirmed is None:
            st = "inconclusive"
            check.obligation(name + ":" + key, "mirsym", "inconclusive",
                             "solver counterexample not confirmed natively (%s); first: %s" % (
                                 reason, json.dumps(vs[0]["inputs"], ensure_ascii=False)[:300]))
        else:
            v, sc, rr = confirmed
            check.stats["traces_validated"] += 1
            what = describe(v)
            st = check.finding(key, what, dict(scenario=sc, observed=rr[-2:], predicted=v["predicted"], inputs=v["inputs"]))
            check.sample(dict(obligation=name, counterexample=v["inputs"], outcome=v["predicted"], role=key))
        if worst[st] > worst[status]:
            status = st
    return status


def describe_reph(v):
    i = v["inputs"]
    if v["predicted"].get("panic") is not None:
        return "reph key on composition %r panics: %s" % (i["buffer"], v["predicted"]["panic"])
    return "reph key on composition %r gives %r (clause %s, options %s)" % (
        i["buffer"], v["predicted"]["state"]["buffer"], v["clause"],
        ",".join(k for k, x in i["opts"].items() if x))


def c13_shapes(max_n, fixed_extra=None):
    shapes = []
    for n in range(0, max_n + 1):
        for pending in (None,):
            fx = {"fixed_suggestion": False, "fixed_old_reph": True, "ansi": False}
            fx.update(fixed_extra or {})
            shapes.append(dict(n=n, value=REPH, pending=pending, fixed=fx))
    return shapes


def obl_reph(check, max_n, budget_s=None):
    shapes = c13_shapes(max_n)
    # option off: plain append (all lengths up to a smaller bound; the path does not look at the text)
    for n in range(0, min(max_n, 4) + 1):
        shapes.append(dict(n=n, value=REPH, pending=None, fixed={"fixed_suggestion": False, "fixed_old_reph": False, "ansi": False}))
    # with a pending left-standing sign (old kar order on) the text part must still be conserved
    for n in range(0, min(max_n, 3) + 1):
        for pk in ("I", "E", "OI"):
            shapes.append(dict(n=n, value=REPH, pending=pk, fixed={"fixed_suggestion": False, "fixed_old_reph": True,
                                                                  "fixed_kar_order": True, "ansi": False}))
    check.bounds["reph"] = dict(text_code_points="0..%d, each any Unicode scalar value" % max_n,
                                key_value="U+09B0 U+09CD", other_options="symbolic",
                                pending_sign="None; I/E/OI up to length %d" % min(max_n, 3))
    shapes.sort(key=lambda s: -s["n"])
    run_key_obligation(check, "reph_key", shapes, reph_prop, classify_reph, describe_reph, budget_s=budget_s)
